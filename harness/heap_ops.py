"""Histories of scoping operations on real NamespaceIds / NamespaceTree objects, observed as a heap:
cell r = the list object held by the r-th object the history created; two objects that share one list
are one cell (the dataclass is frozen, the field never rebinds).  The Lean side is DznModel.ScopingHeap."""
import copy

from harness.common import use_repo_src
from harness.gen_text import err_tag

IDS = ['My', 'Project', 'Sub', 'I', 'A', 'B', 'x_1', '_y', 'Hal']
BAD = ['', 'a-b', '1x', 'a b', 'é']


def gen_history(rng, max_ops=24):
    ops = []
    n = 0           # number of cells the MODEL will have allocated (results of failing ops allocate nothing)

    def ids(k=None, bad=0.06):
        k = rng.randint(0, 3) if k is None else k
        return [rng.choice(BAD) if rng.random() < bad else rng.choice(IDS) for _ in range(k)]

    def ref():
        return rng.randrange(n) if n else 0
    for _ in range(rng.randint(3, max_ops)):
        r = rng.random()
        if n == 0 or r < 0.18:
            items = ids()
            ops.append({'k': 'fromList', 'items': items, 'how': rng.choice(['ctor', 'ids_t'])})
            if all(_valid(x) for x in items):
                n += 1
        elif r < 0.26:
            ops.append({'k': 'alias', 'r': ref(), 'how': rng.choice(['ids', 'list', 'ctor_list'])})
        elif r < 0.36:
            items = ids(bad=0.1)
            sep = rng.choice(['.', '::'])
            s = sep.join(items)
            ops.append({'k': 'fromStr', 's': s})
            if _str_ok(s):
                n += 1
        elif r < 0.48:
            a, b = ref(), ref()
            ops.append({'k': 'add', 'a': a, 'b': b})
            n += 1
        elif r < 0.58:
            ops.append({'k': 'iadd', 'a': ref(), 'b': ref()})
        elif r < 0.63:
            ops.append({'k': 'pop', 'a': ref()})
        elif r < 0.70:
            ops.append({'k': 'deepcopy', 'a': ref()})
            n += 1
        elif r < 0.77:
            ops.append({'k': 'sum', 'xs': [ref() for _ in range(rng.randint(0, 3))]})
            n += 1
        elif r < 0.88:
            if rng.random() < 0.2:
                ops.append({'k': 'sroNone', 'name': ref()})
            else:
                ops.append({'k': 'sro', 'name': ref(), 'scope': ref()})
            n += 64      # upper bound is not needed exactly: refs are drawn modulo the real size below
        elif r < 0.94:
            ops.append({'k': 'fqn', 'trail': [ref() for _ in range(rng.randint(0, 3))]})
            n += 1
        else:
            ops.append({'k': 'fqnMember', 'trail': [ref() for _ in range(rng.randint(0, 3))], 'm': ref()})
            n += 1
    return {'op': 'heap', 'ops': ops}


def gen_case(rng, max_ops=24):
    """a history whose references are in range: the raw history is run once on the real objects, which fixes
    every reference modulo the number of objects alive at that point"""
    _steps, used = run(gen_history(rng, max_ops))
    # references are positional: dropping a step would re-point every later reference, so no shrinking
    return {'op': 'heap', 'ops': used, 'noshrink': True}


def _valid(x):
    import re
    return re.fullmatch('[a-zA-Z_][a-zA-Z0-9_]*', x) is not None and not x.endswith('\n')


def _str_ok(s):
    if s == '':
        return True
    parts = s.split('.') if '.' in s else s.split('::') if '::' in s else [s]
    return all(_valid(p) for p in parts)


def normalise(case, size_after):
    """make every reference of the history point at an existing cell: refs are taken modulo the number of
    cells that exist when the operation runs (known only while running) - done on the fly in run()"""
    return case


def run(case):
    """execute on real objects; returns per step {"out": {"ok":[refs]}|{"err":tag}, "cells":[[...]]} and the
    history with the references it actually used (so that the model is driven with the same ones)"""
    use_repo_src()
    from dznpy.scoping import NamespaceIds, NamespaceTree, namespaceids_t, sum_namespaceids_items, scope_resolution_order
    objs = []
    steps, used = [], []

    def R(r):
        return r % len(objs) if objs else 0

    def intern(o):
        for i, x in enumerate(objs):
            if x.items is o.items:
                return i
        objs.append(o)
        return len(objs) - 1

    def tree(trail):
        t = NamespaceTree()
        for r in trail:
            t = NamespaceTree(parent=t, scope_name=objs[r])
        return t
    for op in case['ops']:
        k = op['k']
        u = dict(op)
        try:
            if not objs and k not in ('fromList', 'fromStr', 'sum', 'fqn'):
                # nothing to refer to yet: turn the step into an allocation
                k, u = 'fromList', {'k': 'fromList', 'items': ['A'], 'how': 'ctor'}
            if k == 'fromList':
                l = list(u['items'])
                o = NamespaceIds(items=l) if u.get('how') == 'ctor' else namespaceids_t(l)
                res = [intern(o)]
            elif k == 'alias':
                u['r'] = R(u['r'])
                src = objs[u['r']]
                o = namespaceids_t(src) if u['how'] == 'ids' else namespaceids_t(src.items) if u['how'] == 'list' else NamespaceIds(items=src.items)
                res = [intern(o)]
            elif k == 'fromStr':
                res = [intern(namespaceids_t(u['s']))]
            elif k == 'add':
                u['a'], u['b'] = R(u['a']), R(u['b'])
                res = [intern(objs[u['a']] + objs[u['b']])]
            elif k == 'iadd':
                u['a'], u['b'] = R(u['a']), R(u['b'])
                x = objs[u['a']]
                x += objs[u['b']]
                res = [intern(x)]
            elif k == 'pop':
                u['a'] = R(u['a'])
                objs[u['a']].items.pop()
                res = []
            elif k == 'deepcopy':
                u['a'] = R(u['a'])
                res = [intern(copy.deepcopy(objs[u['a']]))]
            elif k == 'sum':
                u['xs'] = [R(x) for x in u['xs']] if objs else []
                res = [intern(sum_namespaceids_items([objs[x] for x in u['xs']]))]
            elif k == 'sro':
                u['name'], u['scope'] = R(u['name']), R(u['scope'])
                res = [intern(o) for o in scope_resolution_order(objs[u['name']], objs[u['scope']])]
            elif k == 'sroNone':
                u['name'] = R(u['name'])
                res = [intern(o) for o in scope_resolution_order(objs[u['name']], None)]
            elif k == 'fqn':
                u['trail'] = [R(x) for x in u['trail']] if objs else []
                res = [intern(tree(u['trail']).fqn)]
            elif k == 'fqnMember':
                u['trail'], u['m'] = [R(x) for x in u['trail']], R(u['m'])
                res = [intern(tree(u['trail']).fqn_member_name(objs[u['m']]))]
            else:
                raise ValueError(k)
            out = {'ok': res}
        except Exception as e:  # noqa
            out = {'err': err_tag(e)}
        used.append(u)
        steps.append({'out': out, 'cells': [list(o.items) for o in objs]})
    return steps, used
