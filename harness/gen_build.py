"""Generators of buildable Dezyne models + Advanced-Shell configurations, their single-fault
variations, and the runner of the real Builder."""
import copy
import json

from harness.common import use_repo_src
from harness import gen_models as M
from harness.gen_text import err_tag

NS_POOL = [[], ['My'], ['My', 'Project'], ['Other'], ['My', 'Hal'], ['A', 'B', 'C']]
ITF_NAMES = ['IApi', 'ICord', 'ILed', 'IThing', 'I_x']
EXT_NAMES = ['MyInt', 'PData', 'T', 'Str', 'x_t']
ENUM_NAMES = ['Result', 'State', 'E']
CTYPES = ['int', 'long', '::vt::Ext<1>', '::vt::Ext<2>', '::vt::Ext<3>']
IN_EVENTS = ['Claim', 'Release', 'Start', 'Stop', 'get', 'Bye', 'E2', 'ClaimAll', 'Rel', 'Sto', 'getX']   # incl. names that are substrings/prefixes of others
OUT_EVENTS = ['Ok', 'Fail', 'Done', 'evt', 'Tick', 'OkDone', 'ev']
FORMALS = ['a', 'b', 'c', 'val', 'p1', 'aa', 'va']
PORT_NAMES = ['api', 'aux', 'cord', 'led', 'p', 'q2', 'x', 'ap', 'apix', 'le',
              'locator', 'dispatcher', 'encapsulee', 'runtime']   # incl. names the generated shell uses itself
# user texts that end up in comments: plain, multi-line, blank lines, leading whitespace, texts that already
# look like a comment on their first line only, block-comment terminators, preprocessor lines
COPYRIGHTS = ['Copyright (c) me', 'Line 1\nLine 2\n', '', '  x  \n\n y', '// (c) me\nint evil();', '  // x\n#define final',
              '*/ int z; /*', '//', '/* c */\nstruct S {};', '// a\n// b', 'a\rb\x0cc',
              'Copyright \u00a9 2024 Zo\u00eb M\u00fcller', '\u7248\u6743 \u2028 x']
PREFER_SHORT = False        # spell(): take the shortest uniquely resolving spelling


def chain(name, scope):
    return [scope[:len(scope) - i] + name for i in range(len(scope) + 1)]


def resolve(decls, name, scope):
    """decls: list of (kind, fqn); returns matching decls on the chain"""
    ch = chain(name, scope)
    return [d for d in decls if d[1] in ch]


def spell(rng, decls, fqn, scope, kind):
    """a spelling (suffix of fqn) that resolves uniquely to (kind, fqn) from scope; prefers short"""
    cands = [fqn[i:] for i in range(len(fqn) - 1, -1, -1)]
    good = [c for c in cands if [d for d in resolve(decls, c, scope)] == [(kind, fqn)]]
    if not good:
        return None          # this library has no shadowing: some targets cannot be named uniquely
    if PREFER_SHORT:
        return good[0]
    return rng.choice(good)


def pick(rng, decls, targets, scope, kind, key=lambda t: t[0]):
    """choose a target that can be spelled uniquely from `scope`; returns (target, spelling) or None"""
    ts = list(targets)
    rng.shuffle(ts)
    if PREFER_SHORT:
        # the target with the shortest unique spelling (ties in shuffled order)
        sps = [(t, spell(rng, decls, key(t), scope, kind)) for t in ts]
        sps = [(t, sp) for t, sp in sps if sp is not None]
        return min(sps, key=lambda x: len(x[1])) if sps else None
    for t in ts:
        sp = spell(rng, decls, key(t), scope, kind)
        if sp is not None:
            return t, sp
    return None


def gen_model(rng, want_mc=False):
    """returns (src elems, info) where info has decls and the component description"""
    decls = []   # (kind, fqn)
    items = []   # (ns, elem)

    def fresh(kind, ns, names):
        for _ in range(20):
            n = rng.choice(names)
            fq = ns + [n]
            if all(d[1] != fq for d in decls):
                decls.append((kind, fq))
                return n
        n = names[0] + str(len(decls))
        decls.append((kind, ns + [n]))
        return n

    externs = []
    for _ in range(rng.randint(1, 3)):
        ns = rng.choice(NS_POOL)
        n = fresh('extern', ns, EXT_NAMES)
        ct = rng.choice(CTYPES)
        externs.append((ns + [n], ct))
        items.append((ns, {'k': 'extern', 'name': [n], 'value': ct}))
    enums = []
    for _ in range(rng.randint(1 if want_mc else 0, 2)):
        ns = rng.choice(NS_POOL)
        n = fresh('enum', ns, ENUM_NAMES)
        fields = rng.sample(['Ok', 'Fail', 'Busy', 'X'], rng.randint(1, 3))
        enums.append((ns + [n], fields))
        items.append((ns, {'k': 'enum', 'name': [n], 'fields': fields}))
    interfaces = []
    for ii in range(rng.randint(1, 3)):
        ns = rng.choice(NS_POOL)
        n = fresh('interface', ns, ITF_NAMES)
        fq = ns + [n]
        types = []
        local_enums = []
        if rng.random() < 0.3:
            en = rng.choice(ENUM_NAMES)
            fields = rng.sample(['Ok', 'Fail', 'Busy'], rng.randint(1, 3))
            if all(d[1] != fq + [en] for d in decls):
                decls.append(('enum', fq + [en]))
                types.append({'k': 'enum', 'name': [en], 'fields': fields})
                local_enums.append((fq + [en], fields))
        itf = {'fq': fq, 'events': [], 'local_enums': local_enums}
        interfaces.append(itf)
        items.append((ns, {'k': 'interface', 'name': [n], 'types': types, 'events': itf['events']}))
    # events are generated after all declarations exist, so that spellings resolve as intended
    for itf in interfaces:
        fq = itf['fq']
        used = set()
        nev = rng.randint(0, 5)
        force_mc = want_mc and itf is interfaces[0]
        if force_mc:
            nev = max(nev, 3)
        for k in range(nev):
            d = rng.choice(['in', 'in', 'out'])
            if force_mc and k < 2:
                d = 'in'
            pool = IN_EVENTS if d == 'in' else OUT_EVENTS
            name = next((x for x in rng.sample(pool, len(pool)) if x not in used), None)
            if name is None:
                continue
            used.add(name)
            formals = []
            fnames = rng.sample(FORMALS, rng.randint(0, 3))
            for fnm in fnames:
                pk = pick(rng, decls, externs, fq, 'extern')
                if pk is None:
                    continue
                ext, sp = pk
                dirs = ('in', 'out', 'inout') if d == 'in' else ('in',)
                formals.append({'name': fnm, 'type': sp, 'dir': rng.choice(dirs),
                                '_ext': ext[0], '_ctype': ext[1]})
            if d == 'out':
                reply = ['void']
                rk = {'kind': 'void'}
            else:
                all_enums = enums + itf['local_enums']
                r = rng.random()
                if force_mc and k == 0 and all_enums:
                    r = 0.9
                if r < 0.4 or not all_enums:
                    reply, rk = ['void'], {'kind': 'void'}
                elif r < 0.6:
                    reply, rk = ['bool'], {'kind': 'bool'}
                else:
                    pk = pick(rng, decls, all_enums, fq, 'enum')
                    if pk is None:
                        reply, rk = ['void'], {'kind': 'void'}
                    else:
                        en, sp = pk
                        reply, rk = sp, {'kind': 'enum', 'fqn': en[0], 'fields': en[1]}
            itf['events'].append({'name': name, 'reply': reply, 'formals': formals, 'dir': d, '_reply': rk})
    # the component
    cns = rng.choice(NS_POOL)
    cname = fresh('component', cns, ['Comp', 'Toaster', 'Sys'])
    kind = rng.choice(['component', 'component', 'system'])
    decls[-1] = (kind, cns + [cname])
    ports = []
    # mostly 0-5 ports; one component in ten is wide (up to 9 ports)
    pnames = rng.sample(PORT_NAMES, rng.randint(0 if not want_mc else 1, 5) if rng.random() < 0.9 else rng.randint(6, 9))
    # the multi-client port sits at a random position among the ports (first, last, alone, ...)
    mc_i = rng.randrange(len(pnames)) if (want_mc and pnames) else None
    if want_mc and len(pnames) >= 2 and rng.random() < 0.25:
        # port names that contain one another (`api`/`apix`, `le`/`led`): the multi-client port's name extends, or is
        # extended by, the name of another port
        a, b = rng.choice([('api', 'apix'), ('ap', 'api'), ('le', 'led'), ('p', 'p2'), ('x', 'xExclusive')])
        if rng.random() < 0.3:
            a, b = b, a
        other = rng.choice([k for k in range(len(pnames)) if k != mc_i])
        pnames = [n for n in pnames if n not in (a, b)] + ['zz1', 'zz2']
        pnames = pnames[:max(mc_i, other) + 1] if len(pnames) > max(mc_i, other) else pnames
        pnames[mc_i], pnames[other] = b, a
    # port shape: sometimes provides-heavy (several MTS provides ports next to the multi-client one)
    p_prov = rng.choice([0.5, 0.5, 0.85, 0.15])
    for i, pn in enumerate(pnames):
        is_mc = want_mc and i == mc_i
        pk = pick(rng, decls, [interfaces[0]] if is_mc else interfaces, cns, 'interface',
                  key=lambda t: t['fq'])
        if pk is None:
            continue
        itf, sp = pk
        d = 'provides' if is_mc else ('provides' if rng.random() < p_prov else 'requires')
        ports.append({'name': pn, 'type': sp, 'dir': d, 'formals': [],
                      'injected': d == 'requires' and rng.random() < 0.25, '_itf': itf['fq']})
        if is_mc:
            ports[-1]['_mc'] = True
    comp = {'k': kind, 'name': [cname], 'ports': ports}
    if kind == 'system':
        comp['instances'] = []
        comp['bindings'] = []
    items.append((cns, comp))
    rng.shuffle(items)
    # assemble namespaces: group consecutive items, allow re-opened namespaces
    elems = []
    for ns, el in items:
        node = el
        for part in reversed(ns):
            node = {'k': 'namespace', 'name': [part], 'elems': [node]}
        elems.append(node)
    info = {'decls': decls, 'comp_fqn': cns + [cname], 'comp_ns': cns, 'ports': ports, 'interfaces': interfaces,
            'externs': externs, 'enums': enums}
    return elems, info


def gen_same_spelling_prog(rng):
    """a buildable, compilable case in which one short spelling `T` denotes a different extern (with a
    different C++ type) in each of 2-3 sibling namespaces; each namespace has an interface whose event
    formals are typed `T`; the component exposes one port per interface, all rerouted (MTS)"""
    scopes = rng.sample([['A'], ['B'], ['C'], ['D', 'E']], rng.randint(2, 3))   # no scope encloses another
    ctypes = rng.sample(['int', 'long', '::vt::Ext<1>', '::vt::Ext<2>'], len(scopes))
    if rng.random() < 0.5:
        # mutually convertible types: a mix-up still compiles and shows only in the values
        ctypes = rng.sample(['int', 'long'], 2) + ctypes[2:]
    decls, externs, interfaces, items = [], [], [], []
    for k, (sc, ct) in enumerate(zip(scopes, ctypes)):
        decls.append(('extern', sc + ['T']))
        externs.append((sc + ['T'], ct))
        items.append((sc, {'k': 'extern', 'name': ['T'], 'value': ct}))
        events = []
        for j in range(rng.randint(2, 4)):
            d = rng.choice(['in', 'in', 'out'])
            fs = [{'name': 'a%d' % i, 'type': ['T'], 'dir': 'in' if d == 'out' else rng.choice(['in', 'in', 'out', 'inout']),
                   '_ext': sc + ['T'], '_ctype': ct} for i in range(rng.randint(1, 2))]
            events.append({'name': ('ev%d' if d == 'in' else 'sig%d') % j, 'reply': ['void'], 'formals': fs, 'dir': d,
                           '_reply': {'kind': 'void'}})
        fq = sc + ['I%d' % k]
        decls.append(('interface', fq))
        itf = {'fq': fq, 'events': events, 'local_enums': []}
        interfaces.append(itf)
        items.append((sc, {'k': 'interface', 'name': ['I%d' % k], 'types': [], 'events': events}))
    ports = [{'name': 'p%d' % k, 'type': list(itf['fq']), 'dir': 'provides' if k == 0 else rng.choice(['provides', 'requires']),
              'formals': [], 'injected': False, '_itf': itf['fq']} for k, itf in enumerate(interfaces)]
    decls.append(('component', ['Z', 'Comp']))
    items.append((['Z'], {'k': 'component', 'name': ['Comp'], 'ports': ports}))
    rng.shuffle(items)
    elems = []
    for ns, el in items:
        node = el
        for part in reversed(ns):
            node = {'k': 'namespace', 'name': [part], 'elems': [node]}
        elems.append(node)
    info = {'decls': decls, 'comp_fqn': ['Z', 'Comp'], 'comp_ns': ['Z'], 'ports': ports, 'interfaces': interfaces,
            'externs': externs, 'enums': []}
    cfg = {'filename': 'Model.dzn', 'suffix': 'AdvShell', 'encapsulee': ['Z', 'Comp'],
           'ports': {'psts': {'w': 'none'}, 'pmts': {'w': 'all'}, 'rsts': {'w': 'none'}, 'rmts': {'w': 'all'}},
           'multiclient': None, 'origin': rng.choice(['create', 'import']), 'copyright': 'c', 'prefix': None,
           'creator': None}
    return {'op': 'build', 'src': strip_private(elems), 'ast': M.enc_root(strip_private(elems)), 'cfg': cfg,
            'expect': 'ok', '_info': info}


def strip_private(x):
    if isinstance(x, dict):
        return {k: strip_private(v) for k, v in x.items() if not k.startswith('_')}
    if isinstance(x, list):
        return [strip_private(v) for v in x]
    return x


def gen_ports_cfg(rng, info, allow_mc=True):
    prov = [p['name'] for p in info['ports'] if p['dir'] == 'provides']
    req = [p['name'] for p in info['ports'] if p['dir'] == 'requires' and not p['injected']]
    prov_mts = rng.random() < 0.6
    if prov_mts:
        psts, pmts = {'w': 'none'}, rng.choice([{'w': 'all'}, {'w': 'all'}, {'w': 'remaining'}] + ([{'names': list(prov)}] if prov else []))
    else:
        psts, pmts = rng.choice([{'w': 'all'}, {'w': 'remaining'}] + ([{'names': list(prov)}] if prov else [])), {'w': 'none'}
    r = rng.random()
    if r < 0.25:
        rsts, rmts = {'w': 'all'}, {'w': 'none'}
    elif r < 0.5:
        rsts, rmts = {'w': 'none'}, {'w': 'all'}
    elif req:
        k = rng.randint(0, len(req))
        a = rng.sample(req, k)
        b = [x for x in req if x not in a]
        choice = rng.random()
        if a and b and choice < 0.4:
            rsts, rmts = {'names': a}, {'names': b}
        elif a and choice < 0.7:
            rsts, rmts = {'names': a}, {'w': 'remaining'}
        elif b:
            rsts, rmts = {'w': 'remaining'}, {'names': b}
        else:
            rsts, rmts = {'names': a}, {'w': 'none'} if not b else {'w': 'remaining'}
    else:
        rsts, rmts = {'w': 'remaining'}, {'w': 'none'}
    return {'psts': psts, 'pmts': pmts, 'rsts': rsts, 'rmts': rmts}, prov_mts


def gen_case(rng, want_mc=None):
    if want_mc is None:
        want_mc = rng.random() < 0.3
    elems, info = gen_model(rng, want_mc)
    ports, prov_mts = gen_ports_cfg(rng, info)
    mc = None
    p0 = next((p for p in info['ports'] if p.get('_mc')), None)
    if want_mc and p0 is not None and p0['dir'] == 'provides' and p0['_itf'] == info['interfaces'][0]['fq']:
        itf = next(i for i in info['interfaces'] if i['fq'] == p0['_itf'])
        ins = [e for e in itf['events'] if e['dir'] == 'in']
        claims = [e for e in ins if e['_reply']['kind'] == 'enum']
        if claims and len(ins) >= 2:
            claim = claims[0]
            release = next(e for e in ins if e is not claim)
            mc = {'port': p0['name'], 'claim': claim['name'], 'grant': [rng.choice(claim['_reply']['fields'])],
                  'release': release['name']}
            ports['psts'], ports['pmts'] = {'w': 'none'}, {'w': 'all'}
    # incl. file names that contain the names of generated members (Locator(), Runtime(), FinalConstruct(), Pump())
    base = rng.choice(['Model', 'Toaster', 'x', 'Model', 'Toaster', 'ServiceLocator', 'RuntimePump', 'FinalConstruct'])
    cfg = {'filename': rng.choice(['', 'gen/', '/abs/dir/']) + base + rng.choice(['.dzn', '.json', '']),
           'suffix': rng.choice(['AdvShell', 'Adv', '_s']),
           'encapsulee': info['comp_fqn'], 'ports': ports, 'multiclient': mc,
           'origin': rng.choice(['create', 'import']),
           'copyright': rng.choice(COPYRIGHTS),
           'prefix': rng.choice([None, None, ['Pfx'], ['A', 'B'], ['A_B'], ['Project'], ['Hal', 'X'], ['B'], ['Dzn'], ['My', 'Dzn']]),   # incl. ids that also name an inner model namespace
           'creator': rng.choice([None, None, 'ABC\nDEF\n', 'tool v1', '// by\ntool();', ''])}
    return {'op': 'build', 'src': strip_private(elems), 'ast': M.enc_root(strip_private(elems)), 'cfg': cfg,
            'expect': 'ok', '_info': info}


def find_elem(elems, pred):
    for e in elems:
        if e['k'] == 'namespace':
            r = find_elem(e['elems'], pred)
            if r is not None:
                return r
        elif pred(e):
            return e
    return None


def faults(rng, case):
    """every single-fault variation of a valid case (those applicable)"""
    out = []
    info = case['_info']

    def variant(label, mut_cfg=None, mut_src=None, expect='lib'):
        c = copy.deepcopy({k: v for k, v in case.items() if k != '_info'})
        if mut_cfg:
            mut_cfg(c['cfg'])
        if mut_src:
            mut_src(c['src'])
            c['ast'] = M.enc_root(c['src'])
        c['fault'] = label
        c['expect'] = expect
        out.append(c)

    prov = [p['name'] for p in info['ports'] if p['dir'] == 'provides']
    req = [p['name'] for p in info['ports'] if p['dir'] == 'requires' and not p['injected']]
    variant('unknown-encapsulee', lambda cfg: cfg.__setitem__('encapsulee', cfg['encapsulee'] + ['Nope']))
    if info['interfaces']:
        variant('non-component-encapsulee', lambda cfg: cfg.__setitem__('encapsulee', info['interfaces'][0]['fq']))
    variant('unknown-port-name', lambda cfg: cfg['ports'].__setitem__('rsts', {'names': ['zz_unknown']}) or cfg['ports'].__setitem__('rmts', {'w': 'remaining'}))
    if prov:
        variant('provides-name-on-requires-side', lambda cfg: cfg['ports'].__setitem__('rsts', {'names': [prov[0]]}) or cfg['ports'].__setitem__('rmts', {'w': 'remaining'}))
    variant('all-with-remaining', lambda cfg: cfg['ports'].__setitem__('rsts', {'w': 'remaining'}) or cfg['ports'].__setitem__('rmts', {'w': 'all'}))
    variant('remaining-with-all', lambda cfg: cfg['ports'].__setitem__('rsts', {'w': 'all'}) or cfg['ports'].__setitem__('rmts', {'w': 'remaining'}))
    variant('all-with-all', lambda cfg: cfg['ports'].__setitem__('rsts', {'w': 'all'}) or cfg['ports'].__setitem__('rmts', {'w': 'all'}))
    if req:
        variant('named-under-both', lambda cfg: cfg['ports'].__setitem__('rsts', {'names': [req[0]]}) or cfg['ports'].__setitem__('rmts', {'names': [req[0]]}))
        variant('all-with-names', lambda cfg: cfg['ports'].__setitem__('rsts', {'w': 'all'}) or cfg['ports'].__setitem__('rmts', {'names': [req[0]]}))
        if len(req) >= 2:
            variant('uncovered-requires-port', lambda cfg: cfg['ports'].__setitem__('rsts', {'names': [req[0]]}) or cfg['ports'].__setitem__('rmts', {'w': 'none'}))
        else:
            variant('uncovered-requires-port', lambda cfg: cfg['ports'].__setitem__('rsts', {'w': 'none'}) or cfg['ports'].__setitem__('rmts', {'names': ['zz']}) )
    if prov and case['cfg']['multiclient'] is None:
        variant('mixed-provides', lambda cfg: cfg['ports'].__setitem__('psts', {'names': [prov[0]]}) or cfg['ports'].__setitem__('pmts', {'w': 'remaining'}))
        if len(prov) >= 1 and req == [] or True:
            variant('uncovered-provides-port', lambda cfg: cfg['ports'].__setitem__('psts', {'w': 'none'}) or cfg['ports'].__setitem__('pmts', {'names': [prov[0]]}),
                    expect='ok' if len(prov) == 1 else 'lib')
    if info['ports']:
        pn = info['ports'][0]['name']

        def retype(src, new):
            comp = find_elem(src, lambda e: e['k'] in ('component', 'system'))
            comp['ports'][0]['type'] = new
        variant('missing-port-type', mut_src=lambda src: retype(src, ['NoSuchItf']))
        if info['externs']:
            variant('wrong-kind-port-type', mut_src=lambda src: retype(src, info['externs'][0][0]))
        # ambiguity: add a same-named interface in the enclosing namespace chain
        itf_fq = info['ports'][0]['_itf']

        def ambiguous(src):
            comp = find_elem(src, lambda e: e['k'] in ('component', 'system'))
            comp['ports'][0]['type'] = [itf_fq[-1]]
            # declare <name> both in the global scope and in the component's own namespace
            for ns in ([], info['comp_ns']):
                if ns + [itf_fq[-1]] == itf_fq:
                    continue
                node = {'k': 'interface', 'name': [itf_fq[-1]], 'types': [], 'events': []}
                for part in reversed(ns):
                    node = {'k': 'namespace', 'name': [part], 'elems': [node]}
                src.append(node)
        if len(info['comp_ns']) >= 1:
            variant('ambiguous-port-type', mut_src=ambiguous, expect='lib')
    mc = case['cfg']['multiclient']
    if mc is not None:
        variant('mc-unknown-port', lambda cfg: cfg['multiclient'].__setitem__('port', 'zz_nope'))
        for rp in [p for p in info['ports'] if p['dir'] == 'requires'][:2]:
            # a multi-client selector can only be put on a provides port
            variant('mc-port-is-a-requires-port' + ('-injected' if rp['injected'] else ''),
                    lambda cfg, n=rp['name']: cfg['multiclient'].__setitem__('port', n))
        variant('mc-unknown-claim', lambda cfg: cfg['multiclient'].__setitem__('claim', 'NoClaim'))
        variant('mc-unknown-release', lambda cfg: cfg['multiclient'].__setitem__('release', 'NoRelease'))
        variant('mc-bad-grant', lambda cfg: cfg['multiclient'].__setitem__('grant', ['NotAField']))
        variant('mc-empty-port', lambda cfg: cfg['multiclient'].__setitem__('port', ''))
        others = [p['name'] for p in info['ports'] if p['dir'] == 'provides' and p['name'] != mc['port']]
        if others:
            # mixed provides stay unsupported whether or not a multi-client port is configured
            variant('mc-mixed-provides-names', lambda cfg: cfg['ports'].__setitem__('psts', {'names': [others[0]]}) or cfg['ports'].__setitem__('pmts', {'w': 'remaining'}))
            variant('mc-mixed-provides-both-named', lambda cfg: cfg['ports'].__setitem__('psts', {'names': [others[0]]}) or cfg['ports'].__setitem__('pmts', {'names': [mc['port']] + others[1:]}))
        variant('mc-on-sts', lambda cfg: cfg['ports'].__setitem__('psts', {'w': 'all'}) or cfg['ports'].__setitem__('pmts', {'w': 'none'}))
        p0 = next(p for p in info['ports'] if p['name'] == mc['port'])
        itf = next(i for i in info['interfaces'] if i['fq'] == p0['_itf'])
        nonenum = [e for e in itf['events'] if e['dir'] == 'in' and e['_reply']['kind'] != 'enum']
        if nonenum:
            variant('mc-claim-not-enum', lambda cfg: cfg['multiclient'].__setitem__('claim', nonenum[0]['name']))
        outs = [e for e in itf['events'] if e['dir'] == 'out']
        if outs:
            # a release "event" the clients cannot call: an out-event of the interface
            variant('mc-release-is-out-event', lambda cfg: cfg['multiclient'].__setitem__('release', outs[0]['name']))
        # contradictory: one event is to claim and to release
        variant('mc-release-equals-claim', lambda cfg: cfg['multiclient'].__setitem__('release', cfg['multiclient']['claim']))
    # a formal whose type is not an extern (an enum / interface name): the build fails LATE, after the Dezyne elements
    # were put together (only ports that are rerouted look their formal types up)
    typed = [(i, e, f) for i in info['interfaces'] for e in i['events'] for f in e['formals']]
    nonext = [d[1] for d in info['decls'] if d[0] in ('enum', 'interface')]
    if typed and nonext:
        itf, ev, fm = typed[0]

        def retype_formal(src):
            el = find_elem(src, lambda e: e['k'] == 'interface' and e['name'] == [itf['fq'][-1]] and
                           any(x['name'] == ev['name'] for x in e['events']))
            if el is not None:
                for x in el['events']:
                    if x['name'] == ev['name'] and x['formals']:
                        x['formals'][0]['type'] = list(nonext[0])
        variant('formal-type-not-an-extern', mut_src=retype_formal, expect='any')
    return out


def sibling_of(rng, base):
    """a copy of a generated case whose declarations keep their names but change their meaning: every extern
    denotes another C++ type, events keep their names but change their signatures (formals dropped, added,
    reversed, passed the other way) - what a cache keyed by names + configuration (not by model) mixes up"""
    c = json.loads(json.dumps({k: v for k, v in base.items() if k != '_info'}))
    ctypes = ['int', 'long', '::vt::Ext<1>', '::vt::Ext<2>', '::vt::Ext<3>', 'std::chrono::milliseconds']

    def mutate_event(ev, donors):
        opts = []
        if ev['formals']:
            opts.append('drop')
        if len(ev['formals']) >= 2:
            opts.append('reverse')
        if ev['dir'] == 'in' and ev['formals']:
            opts.append('flip')
        fresh = [d for d in donors if all(d['name'] != f['name'] for f in ev['formals'])]
        if fresh:
            opts += ['add', 'add']
        if not opts:
            return
        o = rng.choice(opts)
        if o == 'drop':
            ev['formals'] = ev['formals'][:-1]
        elif o == 'reverse':
            ev['formals'] = ev['formals'][::-1]
        elif o == 'flip':
            for f in ev['formals']:
                f['dir'] = {'in': 'inout', 'inout': 'in', 'out': 'inout'}[f['dir']]
        else:
            d = dict(rng.choice(fresh))
            d['dir'] = 'in'
            ev['formals'] = ev['formals'] + [d]

    def walk(elems):
        for e in elems:
            if e['k'] == 'namespace':
                walk(e['elems'])
            elif e['k'] == 'extern':
                e['value'] = rng.choice([t for t in ctypes if t != e['value']])
            elif e['k'] == 'interface':
                donors = [f for ev in e['events'] for f in ev['formals']]
                for ev in e['events']:
                    if rng.random() < 0.8:
                        mutate_event(ev, donors)
    walk(c['src'])
    c['ast'] = M.enc_root(c['src'])
    c['_info'] = base['_info']
    return c


def flipped_semantics(case):
    """the same model with the other runtime semantics on every side (another valid configuration)"""
    c = copy.deepcopy({k: v for k, v in case.items() if k != '_info'})
    p = c['cfg']['ports']
    p['rsts'], p['rmts'] = p['rmts'], p['rsts']
    if not c['cfg'].get('multiclient'):
        p['psts'], p['pmts'] = p['pmts'], p['psts']
    if '_info' in case:
        c['_info'] = case['_info']
    return c


# One long-lived "session" per harness process: what a build script does - parse a model once, keep one
# Builder and one Configuration object, edit the configuration in place and build again.  The model of
# Builder.build is a pure function, so any dependence of a result on what was built before (a cache keyed
# too coarsely, a stale recipe, a mutated input) shows as a deviation.  Every fourth case (by content hash)
# is built the other way - fresh parse, fresh Builder, fresh Configuration - so that first-build behaviour
# stays covered as well.
import threading
_SESSION = {'fcs': [], 'builder': None, 'conf': None, 'consts': {}}
_SESSION_LOCK = threading.RLock()      # compiled-program checks build from worker threads
SESSION_MODE = True


def _session_fc(ast_json, parse):
    key = json.dumps(ast_json, sort_keys=True)
    for i, (k, fc) in enumerate(_SESSION['fcs']):
        if k == key:
            _SESSION['fcs'].append(_SESSION['fcs'].pop(i))
            return fc
    fc = parse()
    _SESSION['fcs'].append((key, fc))
    del _SESSION['fcs'][:-8]
    return fc


def session_const(holder, kind, value, make):
    """the user's module-level constants (PREFIX = ns_ids_t('My.Lib'), ALL_STS = PortSelect(...)): within a session
    the same value is the same object, handed to every build that uses it"""
    if holder is None:
        return make()
    consts = holder.setdefault('consts', {})
    key = (kind, json.dumps(value, sort_keys=True))
    if key not in consts:
        if len(consts) > 400:
            consts.clear()
        consts[key] = make()
    return consts[key]


def live_configuration(holder, conf):
    """copy every field of the freshly constructed (hence validated) Configuration into ONE long-lived
    Configuration object and return that: the user edits the configuration in place between builds"""
    import dataclasses
    live = holder.get('conf')
    if live is None:
        holder['conf'] = conf
        return conf
    try:
        for f in dataclasses.fields(conf):
            setattr(live, f.name, getattr(conf, f.name))
    except Exception:  # noqa - a frozen Configuration cannot be edited in place
        holder['conf'] = conf
        return conf
    return live


def build_real(case, shared=None, fresh=None):
    """run the real parser + Builder; returns {"ok": {"files": [...]}} | {"err": tag}.
    `shared`: a dict that carries one parsed FileContents and one Builder object over several builds of the
    same model (what a build script does: parse once, build several shells); without it the process-wide
    session is used (see above) unless `fresh`"""
    use_repo_src()
    from dznpy.json_ast import DznJsonAst
    from dznpy.adv_shell import Builder
    from dznpy.adv_shell.common import Configuration, FacilitiesOrigin
    from dznpy.adv_shell.port_selection import MultiClientPortCfg
    from dznpy.scoping import NamespaceIds
    from harness.props.c03 import mk_portscfg
    cfg = case['cfg']
    if fresh is None:
        import zlib
        fresh = (not SESSION_MODE) or zlib.crc32(json.dumps([case['ast'], cfg], sort_keys=True).encode()) % 4 == 0
    session = shared is None and not fresh
    if session:
        with _SESSION_LOCK:
            # what this process built through the session so far (for replays of history-dependent failures)
            log = _SESSION.setdefault('log', [])
            log.append({k: v for k, v in case.items() if not k.startswith('_')})
            del log[:-40]
            return _build_real(case, cfg, shared, session)
    return _build_real(case, cfg, shared, session)


def _build_real(case, cfg, shared, session):
    from dznpy.json_ast import DznJsonAst
    from dznpy.adv_shell import Builder
    from dznpy.adv_shell.common import Configuration, FacilitiesOrigin
    from dznpy.adv_shell.port_selection import MultiClientPortCfg
    from dznpy.scoping import NamespaceIds
    from harness.props.c03 import mk_portscfg, mk_select
    try:
        def parse():
            return DznJsonAst(json_contents=json.dumps(case['ast'])).process()
        if shared is not None and shared.get('ast') == case['ast']:
            fc = shared['fc']
        elif session:
            fc = _session_fc(case['ast'], parse)
        else:
            fc = parse()
            if shared is not None:
                shared['ast'], shared['fc'] = case['ast'], fc
        holder = shared if shared is not None else (_SESSION if session else None)

        def ns_const(v):
            return session_const(holder, 'ns', list(v), lambda: NamespaceIds(list(v)))
        mc = None
        if cfg.get('multiclient'):
            m = cfg['multiclient']
            mc = MultiClientPortCfg(m['port'], m['claim'], ns_const(m['grant']), m['release'])
        pc = mk_portscfg(cfg['ports'], mc,
                         select=lambda d: session_const(holder, 'sel', d, lambda: mk_select(d)))
        conf = Configuration(dezyne_filename=cfg['filename'], ast_fc=fc, output_basename_suffix=cfg['suffix'],
                             fqn_encapsulee_name=ns_const(cfg['encapsulee']), ports_cfg=pc,
                             facilities_origin=FacilitiesOrigin.IMPORT if cfg['origin'] == 'import' else FacilitiesOrigin.CREATE,
                             copyright=cfg.get('copyright'),
                             support_files_ns_prefix=ns_const(cfg['prefix']) if cfg.get('prefix') is not None else None,
                             creator_info=cfg.get('creator'))
        if shared is not None:
            builder = shared.setdefault('builder', Builder())
            conf = live_configuration(shared, conf)
        elif session:
            if _SESSION['builder'] is None:
                _SESSION['builder'] = Builder()
            builder = _SESSION['builder']
            conf = live_configuration(_SESSION, conf)
        else:
            builder = Builder()
        res = builder.build(conf)
    except RecursionError:
        return {'err': 'internal:RecursionError'}
    except Exception as e:  # noqa
        return {'err': err_tag(e)}
    return {'ok': {'files': [{'name': f.filename, 'contents': f.contents} for f in res.files]}}, res


def build_impl(case, shared=None, fresh=None):
    r = build_real(case, shared, fresh)
    return r[0] if isinstance(r, tuple) else r


def session_history():
    """the (up to 40) latest cases built through the process-wide session, oldest first"""
    return list(_SESSION.get('log', []))


def replay_session_history(cases):
    for c in cases:
        try:
            build_impl(c, fresh=False)
        except Exception:  # noqa
            pass
