#!/bin/bash
# usage: harness/controlcheck.sh [control ids…] — every stored harmless change against all 20 checks (throw-away worktree)
cd /verif
ids=("$@"); [ ${#ids[@]} -eq 0 ] && ids=($(ls -d controls/*/ | xargs -n1 basename))
for s in "${ids[@]}"; do
  wt=/tmp/ctlwt_$s
  git -C /repo worktree add -q --detach $wt HEAD || exit 2
  git -C $wt apply /verif/controls/$s/patch.diff || { echo "$s: patch does not apply"; git -C /repo worktree remove --force $wt; continue; }
  echo "== control $s"
  harness/refcheck.sh $wt 2>&1 | grep -v "rc=0  |"
  git -C /repo worktree remove --force $wt
done
