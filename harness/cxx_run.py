"""Compiled-program side of the behavioural tie: derive the gen_cxx program spec from a generated
case, build the real generator output against the mock runtime, run scripts, return traces."""
import json
import os
import shutil
import sys
import tempfile
from concurrent.futures import ThreadPoolExecutor

from harness.common import VERIF, use_repo_src, run_driver
from harness import gen_build as G

sys.path.insert(0, os.path.join(VERIF, 'harness', 'cxx'))
import gen_cxx  # noqa: E402

SCRATCH_ROOT = os.environ.get('VERIF_SCRATCH', '/tmp')


def strip(c):
    return {k: v for k, v in c.items() if not k.startswith('_')}


def reply_kind(rk):
    if rk['kind'] == 'enum':
        return {'kind': 'enum', 'fqn': rk['fqn']}
    return {'kind': rk['kind']}


def make_spec(case, ir):
    """program spec (harness/cxx/SPEC.md §2) from the generator's knowledge of the model (`_info`)
    and the model's prediction of the shell (`ir`, from the Lean driver)"""
    info = case['_info']
    cfg = case['cfg']
    base = os.path.splitext(os.path.basename(cfg['filename']))[0]
    sems = {p['name']: p for p in ir['provides'] + ir['requires']}
    ports = []
    for p in info['ports']:
        q = sems.get(p['name'])
        ports.append({'name': p['name'], 'dir': p['dir'], 'injected': p['injected'], 'itf': p['_itf'],
                      'sem': q['sem'] if q else None, 'multiclient': bool(q and q['mc'])})
    interfaces = []
    for itf in info['interfaces']:
        interfaces.append({'fqn': itf['fq'], 'events': [
            {'name': e['name'], 'dir': e['dir'], 'reply': reply_kind(e['_reply']),
             'formals': [{'name': f['name'], 'dir': f['dir'], 'ctype': f['_ctype']} for f in e['formals']]}
            for e in itf['events']]})
    enums = [{'fqn': e[0], 'fields': e[1]} for e in info['enums']]
    for itf in info['interfaces']:
        for le in itf['local_enums']:
            enums.append({'fqn': le[0], 'fields': le[1]})
    mc = None
    if cfg.get('multiclient'):
        m = cfg['multiclient']
        p0 = next(p for p in info['ports'] if p['name'] == m['port'])
        itf = next(i for i in info['interfaces'] if i['fq'] == p0['_itf'])
        claim = next(e for e in itf['events'] if e['name'] == m['claim'])
        mc = {'port': m['port'], 'claim': m['claim'], 'release': m['release'],
              'grant': claim['_reply']['fqn'] + list(m['grant'])}
    return {
        'model_header': base + '.hh', 'shell_header': ir['struct'] + '.hh', 'shell_struct': ir['struct'],
        'shell_ns': ir['ns'], 'support_ns': ir['sfns'], 'support_file_prefix': '_'.join(ir['sfns']),
        'origin': cfg['origin'],
        'encapsulee': {'fqn': info['comp_fqn'], 'ports': ports},
        'interfaces': interfaces, 'enums': enums, 'multiclient': mc,
        'predict': {'accessor_types': {p['name']: p['accessor_type'] for p in ir['provides'] + ir['requires']},
                    'has_locator_accessor': cfg['origin'] == 'create'},
    }


def model_ir(case):
    """ask the Lean model for the IR of this case (None when the model build fails)"""
    out = run_driver([dict(strip(case), op='build')])[0]
    return out.get('ir')


class Program:
    def __init__(self, case, sanitize=None, guard_shim=True, extra_flags=None):
        self.case = case
        self.sanitize = sanitize
        self.guard_shim = guard_shim
        self.extra_flags = extra_flags
        self.dir = None
        self.binary = None
        self.log = ''
        self.ok = False
        self.spec = None
        self.files = None
        self.impl_err = None

    def build(self, ir):
        r = G.build_real(self.case)
        if not isinstance(r, tuple):
            self.impl_err = r['err']
            return False
        self.files = [(f.filename, f.contents) for f in r[1].files]
        self.spec = make_spec(self.case, ir)
        self.dir = tempfile.mkdtemp(prefix='verif-cxx-', dir=SCRATCH_ROOT)
        self.ok, self.binary, self.log = gen_cxx.build_program(
            self.spec, self.files, self.dir, sanitize=self.sanitize, guard_shim=self.guard_shim,
            extra_flags=self.extra_flags)
        return self.ok

    def run(self, script, timeout=30.0):
        rc, lines, err = gen_cxx.run_script(self.binary, script, timeout=timeout)
        while lines and lines[-1] == '':
            lines.pop()
        return rc, lines, err

    def cleanup(self):
        if self.dir and os.path.isdir(self.dir):
            shutil.rmtree(self.dir, ignore_errors=True)
        self.dir = None


# ---------------------------------------------------------------------------------------------
# script generation
# ---------------------------------------------------------------------------------------------

def port_events(info, pname):
    p = next(p for p in info['ports'] if p['name'] == pname)
    itf = next(i for i in info['interfaces'] if i['fq'] == p['_itf'])
    return p, itf


def gen_args(rng, ev):
    # formals whose C++ type is wider than int also get values that do not fit an int: a forwarding
    # lambda typed by the wrong (narrower) extern then visibly damages the argument
    small = [0, 1, 2, 5, 7, 42]
    wide = small + [4294967301, 1099511627783]
    return [str(rng.choice(small if f.get('_ctype', 'int') == 'int' else wide)) for f in ev['formals']]


def reply_range(ev):
    rk = ev['_reply']
    if rk['kind'] == 'bool':
        return [0, 1]
    if rk['kind'] == 'enum':
        return list(range(len(rk['fields'])))
    return [0]


def gen_script(rng, case, spec, nops=30, facilities=None):
    """a valid random script: world, (clients), bind, final, then call/raise/reply/pump ops"""
    info = case['_info']
    origin = case['cfg']['origin']
    mc = spec['multiclient']
    if facilities is None:
        pr = (1, 1) if origin == 'import' else (0, 0)
        facilities = (pr[0], pr[1], rng.randint(0, 1))
    lines = [f'world pump={facilities[0]} runtime={facilities[1]} extra={facilities[2]} name={rng.choice(["inst", "x", "shell1"])}']
    clients = []
    if mc:
        clients = rng.sample(['alice', 'bob', 'carol', 'dave'], rng.randint(1, 3))
        for c in clients:
            lines.append(f'client {mc["port"]} {c}')
    lines.append('bind')
    lines.append(f'final {rng.randint(0, 1)}')
    exposed = [p for p in spec['encapsulee']['ports'] if p['sem'] is not None]
    allp = spec['encapsulee']['ports']
    for _ in range(nops):
        r = rng.random()
        if r < 0.12:
            lines.append('pump')
            continue
        if r < 0.3 and allp:
            # reply configuration
            p = rng.choice(allp)
            _p, itf = port_events(info, p['name'])
            evs = [e for e in itf['events'] if e['_reply']['kind'] != 'void']
            if evs:
                ev = rng.choice(evs)
                comp_side = (p['dir'] == 'provides') == (ev['dir'] == 'in')
                lines.append(f'reply {"comp" if comp_side else "env"} {p["name"]} {ev["name"]} {rng.choice(reply_range(ev))}')
            continue
        if r < 0.7 and exposed:
            p = rng.choice(exposed)
            _p, itf = port_events(info, p['name'])
            want = 'in' if p['dir'] == 'provides' else 'out'
            evs = [e for e in itf['events'] if e['dir'] == want]
            if evs:
                ev = rng.choice(evs)
                tgt = p['name']
                if p['multiclient']:
                    tgt += '@' + rng.choice(clients)
                lines.append(' '.join(['call', tgt, ev['name']] + gen_args(rng, ev)))
            continue
        if allp:
            p = rng.choice(allp)
            _p, itf = port_events(info, p['name'])
            want = 'out' if p['dir'] == 'provides' else 'in'
            evs = [e for e in itf['events'] if e['dir'] == want]
            if evs:
                ev = rng.choice(evs)
                lines.append(' '.join(['raise', p['name'], ev['name']] + gen_args(rng, ev)))
    lines.append('pump')
    return lines


TERMINAL = ('world ', 'client ', 'bind ', 'final ', 'reply ', 'react ', 'ret ', 'exc ', 'pump ', 'ids ', 'noworld', 'err ')


def segment(script, trace):
    """split a trace into per-op segments: [(op line, [obs/fac/ident lines], terminal line)]"""
    segs = []
    i = 0
    ops = [l for l in script if l.strip() and not l.startswith('#')]
    for op in ops:
        pre = []
        term = None
        while i < len(trace):
            l = trace[i]
            i += 1
            if l.startswith(TERMINAL):
                term = l
                break
            pre.append(l)
        post = []
        if term == 'world ok':
            while i < len(trace) and (trace[i].startswith('fac ') or trace[i].startswith('ident ')):
                post.append(trace[i])
                i += 1
        segs.append((op, pre, term, post))
    return segs


def build_programs(cases, irs, sanitize=None, guard_shim=True, workers=16):
    progs = [Program(c, sanitize=sanitize, guard_shim=guard_shim) for c in cases]
    with ThreadPoolExecutor(max_workers=workers) as ex:
        list(ex.map(lambda pi: pi[0].build(pi[1]) if pi[1] is not None else False, zip(progs, irs)))
    return progs
