"""Shared machinery of the /verif checks: build + audit of the Lean side, the line-protocol
driver, correspondence diff, monitor evaluation, shrinking, verdict protocol and evidence.

Every property module in harness/props/ provides a `Prop` subclass; `run_check` drives it.
"""
import fcntl
import hashlib
import json
import os
import random
import re
import subprocess
import sys
import time

VERIF = os.path.dirname(os.path.dirname(os.path.abspath(__file__)))
LEAN = os.path.join(VERIF, 'lean')
REPO = os.environ.get('VERIF_REPO', '/repo')
SRC = os.path.join(REPO, 'src')
DRIVER = os.path.join(LEAN, '.lake', 'build', 'bin', 'dzndriver')
GUARD = 'DZNPY_VERIF'

ALLOWED_AXIOMS = {'propext', 'Classical.choice', 'Quot.sound'}
FORBIDDEN = re.compile(r'\b(sorry|admit|native_decide|bv_decide|implemented_by)\b|^\s*axiom\s|'
                       r'\bunsafe\s|maxHeartbeats\s+0')

TRUSTED_BASE = [
    'Lean 4.33 kernel (lake build; thorough: leanchecker re-check of the proof modules)',
    'axioms per theorem as printed by #print axioms, required to be a subset of '
    '{propext, Classical.choice, Quot.sound}; no native_decide, no bv_decide, no own axioms, no sorry',
    'hand-written executable model lean/DznModel/* tied to /repo/src only by the correspondence '
    'runs of this check (sampled, not proved) and, for literal texts, by the translator '
    'harness/extract_literals.py which regenerates DznModel/Generated/Literals.lean on every run',
    'Lean driver JSON decoding (Lean.Data.Json), harness canonicalisers and diff',
    'CPython 3.12 semantics of the primitives modelled in DznModel/Py.lean (splitlines, strip, '
    'sorted, repr, str(int)) - exercised by the py.* correspondence streams',
]


def use_repo_src():
    """Make `import dznpy` resolve to /repo/src (the pinned suite imports the wheel instead)."""
    if SRC not in sys.path:
        sys.path.insert(0, SRC)
    os.environ[GUARD] = '1'
    import dznpy  # noqa
    assert os.path.abspath(dznpy.__file__).startswith(SRC), dznpy.__file__


# ---------------------------------------------------------------------------------------------
# Lean side: build, audit, driver
# ---------------------------------------------------------------------------------------------

class BuildResult:
    def __init__(self, ok, log, wall):
        self.ok, self.log, self.wall = ok, log, wall


def _run(cmd, cwd=None, timeout=3600, env=None):
    p = subprocess.run(cmd, cwd=cwd, stdout=subprocess.PIPE, stderr=subprocess.STDOUT,
                       text=True, timeout=timeout, env=env)
    return p.returncode, p.stdout


def lean_build(clean=False):
    """Regenerate the translated literals from /repo/src and (re)build model, proofs, driver.
    Serialised across concurrently running checks with a file lock."""
    t0 = time.time()
    lockf = open(os.path.join(LEAN, '.build.lock'), 'w')
    fcntl.flock(lockf, fcntl.LOCK_EX)
    try:
        log = ''
        tr = os.path.join(VERIF, 'harness', 'extract_literals.py')
        if os.path.exists(tr):
            rc, out = _run([sys.executable, tr])
            log += out
            if rc != 0:
                return BuildResult(False, 'TRANSLATOR FAILED\n' + log, time.time() - t0)
        if clean:
            _run(['lake', 'clean'], cwd=LEAN)
        rc, out = _run(['lake', 'build'], cwd=LEAN)
        log += out
        return BuildResult(rc == 0 and os.path.exists(DRIVER), log, time.time() - t0)
    finally:
        fcntl.flock(lockf, fcntl.LOCK_UN)
        lockf.close()


def source_audit():
    """grep the Lean sources for forbidden constructs outside comments."""
    hits = []
    for root, _dirs, files in os.walk(LEAN):
        if '.lake' in root:
            continue
        for f in files:
            if not f.endswith('.lean'):
                continue
            path = os.path.join(root, f)
            text = open(path, encoding='utf-8').read()
            # strip block comments and line comments
            text = re.sub(r'/-.*?-/', lambda m: '\n' * m.group(0).count('\n'), text, flags=re.S)
            for n, line in enumerate(text.split('\n'), 1):
                line = line.split('--')[0]
                if FORBIDDEN.search(line):
                    hits.append(f'{os.path.relpath(path, LEAN)}:{n}: {line.strip()}')
    return hits


def axiom_audit(theorems):
    """`#print axioms` for the given theorem names; returns {name: [axioms]} and problems."""
    if not theorems:
        return {}, []
    src = 'import DznProofs\n' + ''.join(f'#print axioms {t}\n' for t in theorems)
    tmp = os.path.join(LEAN, f'.audit_{os.getpid()}.lean')
    open(tmp, 'w').write(src)
    try:
        rc, out = _run(['lake', 'env', 'lean', tmp], cwd=LEAN, timeout=900)
    finally:
        os.unlink(tmp)
    res, problems = {}, []
    for m in re.finditer(r"'([^']+)' depends on axioms: \[([^\]]*)\]", out):
        res[m.group(1)] = [a.strip() for a in m.group(2).replace('\n', ' ').split(',') if a.strip()]
    for m in re.finditer(r"'([^']+)' does not depend on any axioms", out):
        res[m.group(1)] = []
    for t in theorems:
        if t not in res:
            problems.append(f'theorem {t} not found / not checked')
        else:
            bad = [a for a in res[t] if a not in ALLOWED_AXIOMS]
            if bad:
                problems.append(f'theorem {t} depends on {bad}')
    if rc != 0 and not problems:
        problems.append('axiom audit failed: ' + out[-500:])
    return res, problems


def leanchecker(modules):
    rc, out = _run(['lake', 'env', 'leanchecker'] + modules, cwd=LEAN, timeout=3600)
    return rc == 0, out[-2000:]


def run_driver(lines, timeout=3600):
    """Feed JSON objects to the compiled Lean driver; returns the list of decoded outputs."""
    data = '\n'.join(json.dumps(x, ensure_ascii=False) for x in lines) + '\n'
    p = subprocess.run([DRIVER], input=data.encode('utf-8'), stdout=subprocess.PIPE,
                       stderr=subprocess.PIPE, timeout=timeout)
    outs = [json.loads(x) for x in p.stdout.decode('utf-8').split('\n') if x.strip()]
    if p.returncode != 0 or len(outs) != len(lines):
        raise RuntimeError(f'driver failed rc={p.returncode} got {len(outs)}/{len(lines)} lines: '
                           f'{p.stderr.decode()[-500:]}')
    return outs


# ---------------------------------------------------------------------------------------------
# canonical JSON, shrinking
# ---------------------------------------------------------------------------------------------

def scale(n):
    """thorough-tier sizes are multiplied by VERIF_SCALE (default 1) for long soak runs"""
    try:
        f = float(os.environ.get('VERIF_SCALE', '1') or 1)
    except ValueError:
        f = 1.0
    return max(1, int(n * f))


def canon(x):
    return json.dumps(x, sort_keys=True, ensure_ascii=False)


def case_hash(case):
    return hashlib.sha256(canon(case).encode()).hexdigest()[:12]


def harness_rejected(r):
    """the harness (not the code under test) refused this case: a shrinking step that leads here left the domain"""
    return isinstance(r.get('impl'), dict) and 'harness_exception' in r['impl']


def shrink_json(case, still_fails, budget=400):
    """Greedy structural shrinking of a JSON case: drop list elements, shorten strings, zero ints,
    replace sub-objects by simpler siblings. `still_fails(case)` must stay true."""
    best = case
    tries = [0]

    def candidates(x):
        if isinstance(x, list):
            for i in range(len(x)):
                yield x[:i] + x[i + 1:]
            for i, v in enumerate(x):
                for c in candidates(v):
                    yield x[:i] + [c] + x[i + 1:]
        elif isinstance(x, dict):
            for k, v in x.items():
                if k == 'op':
                    continue
                for c in candidates(v):
                    y = dict(x)
                    y[k] = c
                    yield y
        elif isinstance(x, str):
            if len(x) > 0:
                yield ''
                yield x[:len(x) // 2]
                yield x[len(x) // 2:]
                if len(x) <= 8:
                    for i in range(len(x)):
                        yield x[:i] + x[i + 1:]
        elif isinstance(x, bool):
            return
        elif isinstance(x, int):
            if x != 0:
                yield 0

    progress = True
    while progress and tries[0] < budget:
        progress = False
        for c in candidates(best):
            tries[0] += 1
            if tries[0] >= budget:
                break
            try:
                if still_fails(c):
                    best = c
                    progress = True
                    break
            except Exception:
                continue
    return best


# ---------------------------------------------------------------------------------------------
# known findings
# ---------------------------------------------------------------------------------------------

def load_known_findings():
    p = os.path.join(VERIF, 'known_findings.json')
    if not os.path.exists(p):
        return []
    return json.load(open(p))


# ---------------------------------------------------------------------------------------------
# the check runner
# ---------------------------------------------------------------------------------------------

class Prop:
    """Base class of a property check."""
    id = 'C00'
    theorems = []          # fully qualified names of the property theorems (audited)
    partial = []           # [(name, what is missing)]
    proof_modules = []     # for leanchecker (thorough)
    assumptions = []
    level_rule = ''

    def streams(self, rng, tier):
        """yield (stream_name, [cases]) ; corpus first."""
        raise NotImplementedError

    def impl(self, case):
        """run the real implementation on the case; return a JSON value"""
        raise NotImplementedError

    def valid(self, case):
        """is this (shrunk) case still inside the domain the generator draws from?  A shrinking step that leaves the
        domain is not taken (the harness, not the code, would be what fails on it)."""
        return True

    def project(self, case, out):
        """projection applied to both model and implementation output before the diff"""
        return out

    def shape(self, case, impl_out):
        """a hashable shape key used to count distinct non-trivial cases; None = trivial"""
        return case_hash(case)

    def classify(self, case, impl_out):
        """outcome class for the histogram"""
        return 'ok'

    def known(self, case, impl_out, failed, findings):
        """return the known-finding entry this failing case matches, or None"""
        return None

    def extra(self, ctx):
        """additional checks (compiled programs etc.). ctx: dict(tier, seed, rng). Returns
        dict(failures=[(case, clauses, impl)], disagreements=[...], coverage={})"""
        return None

    def witnesses(self):
        """cases replayed on every run for recorded findings: [(finding_id, case)]"""
        return []


def code_of(text):
    """the code of a generated file: every line that is neither blank nor a `//` comment line, without its
    indentation (what a C++ compiler is given, up to token spacing)"""
    return [l.strip() for l in text.splitlines() if l.strip() and not l.strip().startswith('//')]


def code_projection(out):
    """DESIGN 2.3: a property that does not speak about comments compares the CODE of the generated files, so a
    reworded comment or a re-indented block in the generator is not a deviation for it"""
    if isinstance(out, dict) and isinstance(out.get('ok'), dict) and 'files' in out['ok']:
        return {'ok': [[f['name'], code_of(f['contents'])] for f in out['ok']['files']]}
    return out


_HANGS = 0


def evaluate(prop, cases):
    """impl + model + monitor for a list of cases. Returns list of records."""
    import contextlib
    import io as _io
    recs = []
    lines = []
    import signal
    import threading

    class _Hang(BaseException):
        pass

    def _alarm(_sig, _frm):
        raise _Hang()
    use_alarm = threading.current_thread() is threading.main_thread() and hasattr(signal, 'setitimer')
    limit = float(os.environ.get('VERIF_CASE_TIMEOUT', '20'))
    global _HANGS
    for c in cases:
        if _HANGS >= 3:
            # three calls did not return: the verdict is settled, the remaining cases of this run are not started
            io = {'not_started_after_three_calls_that_did_not_return': True}
            line = dict(c)
            line['impl'] = io
            lines.append(line)
            recs.append({'case': c, 'impl': io})
            continue
        try:
            if use_alarm:
                prev = signal.signal(signal.SIGALRM, _alarm)
                signal.setitimer(signal.ITIMER_REAL, limit)
            try:
                with contextlib.redirect_stdout(_io.StringIO()):
                    io = prop.impl(c)
            finally:
                if use_alarm:
                    signal.setitimer(signal.ITIMER_REAL, 0)
                    signal.signal(signal.SIGALRM, prev)
        except _Hang:
            # "never hangs": a call of the implementation that does not return is a failure of the case, not of the harness
            io = {'did_not_return_within_s': limit}
            _HANGS += 1
        except Exception as e:  # harness-level failure of the impl runner
            io = {'harness_exception': f'{type(e).__name__}: {e}'}
        line = dict(c)
        line['impl'] = io
        lines.append(line)
        rec = {'case': c, 'impl': io}
        gb = sys.modules.get('harness.gen_build')
        if gb is not None and isinstance(c, dict) and 'cfg' in c and 'ast' in c:
            rec['_hist'] = gb.session_history()       # what the session had built up to and including this case
        recs.append(rec)
    outs = run_driver(lines) if lines else []
    for r, o in zip(recs, outs):
        r['fatal'] = o.get('fatal')
        r['model'] = o.get('model')
        r['failed'] = o.get('failed', [])
        if isinstance(r['impl'], dict) and 'did_not_return_within_s' in r['impl']:
            r['failed'] = list(r['failed']) + ['the implementation did not return within %s s on this case' % r['impl']['did_not_return_within_s']]
        if isinstance(r['impl'], dict) and 'harness_exception' in r['impl']:
            # a failure of the harness itself is never a property violation
            r['fatal'] = 'harness: ' + r['impl']['harness_exception']
            r['failed'] = []
        if r['fatal'] is None:
            pm, pi = prop.project(r['case'], r['model']), prop.project(r['case'], r['impl'])
            r['agree'] = canon(pm) == canon(pi)
        else:
            r['agree'] = False
    return recs


def write_replay(prop, kind, seed, tier, rec, extra=None):
    d = {'property': prop.id, 'kind': kind, 'seed': seed, 'tier': tier}
    if rec is not None:
        d.update({'case': rec.get('case'), 'impl': rec.get('impl'), 'model': rec.get('model'),
                  'failed_clauses': rec.get('failed'), 'fatal': rec.get('fatal')})
    if extra:
        d.update(extra)
    try:
        # builds go through a process-wide session (one Builder, parsed models and configuration constants reused):
        # a failure may need what was built before; `--replay` runs this history first
        if rec is not None and rec.get('_hist'):
            d['session_history'] = rec['_hist']
    except Exception:  # noqa
        pass
    h = hashlib.sha256(canon(d).encode()).hexdigest()[:10]
    os.makedirs(os.path.join(VERIF, 'replays'), exist_ok=True)
    path = os.path.join(VERIF, 'replays', f'{prop.id}-{h}.json')
    try:
        text = json.dumps(d, indent=1, ensure_ascii=False)
    except RecursionError:
        text = json.dumps(d, ensure_ascii=False)   # very deep documents: compact C encoder
    open(path, 'w').write(text)
    return path


def run_check(prop, argv=None):
    import argparse
    ap = argparse.ArgumentParser()
    ap.add_argument('--tier', default=os.environ.get('VERIF_TIER', 'quick'))
    ap.add_argument('--replay', default=None)
    args = ap.parse_args(argv)
    tier = args.tier if args.tier in ('quick', 'thorough') else 'quick'
    seed = int(os.environ.get('VERIF_SEED', '0') or 0)
    t0 = time.time()
    use_repo_src()
    findings = [f for f in load_known_findings() if f.get('property') == prop.id]
    known_entries = [f for f in findings if f.get('status') == 'known']

    # ---- 1. build + audit -------------------------------------------------------------------
    build = lean_build(clean=False)
    broken = []          # reasons why the tie/proof no longer shows the property
    axioms = {}
    if not build.ok:
        broken.append({'what': 'lake build failed (proof obligation or translator)',
                       'log': build.log[-3000:]})
    else:
        hits = source_audit()
        if hits:
            broken.append({'what': 'forbidden construct in Lean sources', 'hits': hits})
        axioms, problems = axiom_audit(prop.theorems)
        for p in problems:
            broken.append({'what': p})
        if tier == 'thorough' and prop.proof_modules and not os.environ.get('VERIF_NO_LEANCHECKER'):
            ok, out = leanchecker(prop.proof_modules)
            if not ok:
                broken.append({'what': 'leanchecker rejected the proof modules', 'log': out})

    if args.replay:
        rep = json.load(open(args.replay))
        if rep.get('session_history'):
            from harness import gen_build as _G
            _G.replay_session_history(rep['session_history'])
        recs = evaluate(prop, [rep['case']]) if build.ok and rep.get('case') else []
        for r in recs:
            print(json.dumps({'case': r['case'], 'impl': r['impl'], 'model': r['model'],
                              'failed': r['failed'], 'agree': r['agree']}, indent=1,
                             ensure_ascii=False))
        bad = any(r['failed'] or not r['agree'] for r in recs)
        return 1 if bad else 0

    # ---- 2. correspondence + monitor -----------------------------------------------------------
    rng = random.Random(seed * 1000003 + int(hashlib.sha256(prop.id.encode()).hexdigest()[:6], 16))
    stats = {}
    failures, disagreements, known_hits = [], [], {}
    shapes = set()
    evaluations = 0
    samples = []
    driver_ok = build.ok

    def consume(stream, recs):
        nonlocal evaluations
        st = stats.setdefault(stream, {'cases': 0, 'outcomes': {}, 'disagreements': 0,
                                       'monitor_failures': 0})
        for r in recs:
            evaluations += 1
            st['cases'] += 1
            cls = prop.classify(r['case'], r['impl'])
            st['outcomes'][cls] = st['outcomes'].get(cls, 0) + 1
            sh = prop.shape(r['case'], r['impl'])
            if sh is not None:
                shapes.add((stream, sh))
            if len(samples) < 4 and st['cases'] in (1, 7) and len(canon(r['case'])) < 4000:
                samples.append({'stream': stream, 'case': r['case'], 'impl': r['impl']})
            if r.get('fatal'):
                r['failed'] = []
                disagreements.append((stream, r))
                st['disagreements'] += 1
                continue
            if r['failed']:
                k = prop.known(r['case'], r['impl'], r['failed'], known_entries)
                if k is not None:
                    for kk in (k if isinstance(k, list) else [k]):
                        known_hits.setdefault(kk['id'], (kk, r))
                    continue
                st['monitor_failures'] += 1
                failures.append((stream, r))
            elif not r['agree']:
                st['disagreements'] += 1
                disagreements.append((stream, r))

    if driver_ok:
        for fid, case in prop.witnesses():
            consume('witness:' + fid, evaluate(prop, [case]))
        for stream, cases in prop.streams(rng, tier):
            consume(stream, evaluate(prop, cases))
    extra_cov = {}
    if driver_ok:
        ex = prop.extra({'tier': tier, 'seed': seed, 'rng': rng, 'known': known_entries,
                         'stream_disagreements': [r for (_s, r) in disagreements]})
        if ex:
            extra_cov = ex.get('coverage', {})
            evaluations += ex.get('evaluations', 0)
            for sh in ex.get('shapes', []):
                shapes.add(('extra', sh))
            for (k, r) in ex.get('known_hits', []):
                known_hits.setdefault(k['id'], (k, r))
            for r in ex.get('failures', []):
                failures.append(('extra', r))
            for r in ex.get('disagreements', []):
                disagreements.append(('extra', r))

    # ---- 3. verdict ----------------------------------------------------------------------------
    violations = []
    for kid, (k, r) in sorted(known_hits.items()):
        print(f"KNOWN-FINDING: property={prop.id} {k['id']} {k['what']}")

    def model_class(m):
        return ('err:' + str(m['err'])) if isinstance(m, dict) and 'err' in m else 'ok'

    def still_fails_factory(clauses, orig_model=None):
        def f(c):
            if not prop.valid(c):
                return False
            rs = evaluate(prop, [c])
            if rs and harness_rejected(rs[0]):
                return False
            # a shrinking step keeps the model's verdict on the case (accepted / refused with which error): labels
            # the generator attached to the case (`expect`) speak about the original, not about a shrunk case
            if rs and orig_model is not None and model_class(rs[0].get('model')) != model_class(orig_model):
                return False
            return bool(rs and set(rs[0]['failed']) & set(clauses)
                        and prop.known(c, rs[0]['impl'], rs[0]['failed'], known_entries) is None)
        return f

    if failures:
        stream, r = failures[0]
        if 'case' in r and r.get('case') is not None and not r.get('noshrink') and not r['case'].get('noshrink'):
            try:
                small = shrink_json(r['case'], still_fails_factory(r['failed'], r.get('model')))
                rs = evaluate(prop, [small])
                if rs and rs[0]['failed']:
                    if canon(small) == canon(r['case']) and r.get('_hist'):
                        rs[0]['_hist'] = r['_hist']
                    r = rs[0]
            except Exception:
                pass
        path = write_replay(prop, 'monitor-failure', seed, tier, r, {'stream': stream})
        violations.append(f'VIOLATION property={prop.id} replay={path}')
    elif broken or disagreements:
        # the tie / proof no longer shows the property: search for a failing input
        found = None
        if driver_ok:
            rng2 = random.Random(seed + 7919)
            budget_t = time.time() + (60 if tier == 'quick' else 600)
            seeds = [r['case'] for _s, r in disagreements[:20] if r.get('case')]
            pool = evaluate(prop, seeds) if seeds else []
            for r in pool:
                if r['failed'] and prop.known(r['case'], r['impl'], r['failed'], known_entries) is None:
                    found = r
                    break
            rounds = 0
            while found is None and time.time() < budget_t and rounds < 10:
                rounds += 1
                for stream, cases in prop.streams(rng2, tier):
                    for r in evaluate(prop, cases):
                        if r['failed'] and not r.get('fatal') and \
                                prop.known(r['case'], r['impl'], r['failed'], known_entries) is None:
                            found = r
                            break
                    if found or time.time() > budget_t:
                        break
            # properties whose tie is a compiled program (or another `extra` pass): run that pass again
            # on fresh inputs and look for a failing monitor clause there
            passes = 0
            while found is None and driver_ok and time.time() < budget_t and passes < (2 if tier == 'quick' else 6):
                passes += 1
                try:
                    ex2 = prop.extra({'tier': tier, 'seed': seed, 'rng': rng2, 'known': known_entries})
                except Exception:
                    ex2 = None
                if not ex2:
                    break
                for r in ex2.get('failures', []):
                    found = r
                    break
        if found is not None:
            if not found.get('noshrink'):
                try:
                    small = shrink_json(found['case'], still_fails_factory(found['failed'], found.get('model')))
                    rs = evaluate(prop, [small])
                    if rs and rs[0]['failed']:
                        if canon(small) == canon(found['case']) and found.get('_hist'):
                            rs[0]['_hist'] = found['_hist']
                        found = rs[0]
                except Exception:
                    pass
            path = write_replay(prop, 'monitor-failure-after-broken-tie', seed, tier, found,
                                {'broken': broken})
            violations.append(f'VIOLATION property={prop.id} replay={path}')
        else:
            rec = None
            extra = {'broken': broken, 'theorems': prop.theorems}
            if disagreements:
                stream, rec = disagreements[0]
                if rec.get('case') is not None and not rec.get('noshrink'):
                    def disagrees(c):
                        if not prop.valid(c):
                            return False
                        rs = evaluate(prop, [c])
                        if rs and harness_rejected(rs[0]):
                            return False
                        return bool(rs and not rs[0]['agree'])
                    try:
                        small = shrink_json(rec['case'], disagrees)
                        rs = evaluate(prop, [small])
                        if rs and not rs[0]['agree']:
                            rec = rs[0]
                    except Exception:
                        pass
                extra['correspondence_stream'] = stream
                extra['no_longer_checks'] = f'correspondence stream {stream} of {prop.id}'
            else:
                extra['no_longer_checks'] = '; '.join(b['what'] for b in broken)
            path = write_replay(prop, 'broken-tie', seed, tier, rec, extra)
            violations.append(f'VIOLATION property={prop.id} replay={path} no-failing-input-found')

    for v in violations:
        print(v)

    # ---- 4. evidence ------------------------------------------------------------------------------
    obligations = len(prop.theorems)
    discharged = len([t for t in prop.theorems if t in axioms
                      and all(a in ALLOWED_AXIOMS for a in axioms[t])]) if build.ok else 0
    cov = {
        'obligations': max(obligations, 1),
        'discharged': discharged,
        'checker_cmd': 'cd /verif/lean && lake build && lake env lean <#print axioms of the property theorems>'
                       + (' && lake env leanchecker ' + ' '.join(prop.proof_modules) if tier == 'thorough' else ''),
        'trusted_base': TRUSTED_BASE + prop.assumptions,
        'axioms': axioms,
        'partial': [{'theorem': n, 'missing': w} for n, w in prop.partial],
        'evaluations': evaluations,
        'distinct_nontrivial': len(shapes),
        'rule': prop.level_rule,
        'samples': samples,
        'correspondence': stats,
        'monitor': {'failures': len(failures), 'known_findings_hit': sorted(known_hits)},
        'disagreements_checked': len(disagreements),
        'build': {'ok': build.ok, 'wall_s': round(build.wall, 1)},
        'broken': [b['what'] for b in broken],
    }
    cov.update(extra_cov)
    ev = {'property_id': prop.id, 'tier': tier, 'seed': seed, 'level': 'proof', 'coverage': cov,
          'assumptions': prop.assumptions, 'wall_s': round(time.time() - t0, 2),
          'violations': len(violations)}
    # evidence/ only ever holds what a run against /repo itself covered; a run against a scratch worktree
    # (VERIF_REPO, used to try seeded changes and harmless refactorings) writes elsewhere
    evdir = os.path.join(VERIF, 'evidence') if REPO == '/repo' else os.path.join(VERIF, 'replays', 'evidence_scratch')
    os.makedirs(evdir, exist_ok=True)
    json.dump(ev, open(os.path.join(evdir, f'{prop.id}.json'), 'w'), indent=1,
              ensure_ascii=False)
    print(f'{prop.id} tier={tier} seed={seed} evaluations={evaluations} distinct={len(shapes)} '
          f'theorems={discharged}/{obligations} disagreements={len(disagreements)} '
          f'monitor_failures={len(failures)} known={sorted(known_hits)} '
          f'wall={time.time() - t0:.1f}s')
    return 1 if violations else 0
