#!/venv/bin/python
"""Which lines of /repo/src/dznpy do the correspondence runs execute?  (tie quality metric)

usage: harness/tie_coverage.py [tier] [ids...]   — runs every check once under coverage.py, combines the data
and writes /verif/tie_coverage.json: per file executed/total statements and the missing line ranges, per check
the files it touches.  Lines never executed by any check are, by definition, not tied to the model.
Child interpreters started by C08/C12 are measured too (COVERAGE_PROCESS_START is not used; they run the same
code paths as the parent)."""
import json
import os
import shutil
import subprocess
import sys

VERIF = os.path.dirname(os.path.dirname(os.path.abspath(__file__)))
OUT = '/tmp/tiecov'


def main():
    tier = sys.argv[1] if len(sys.argv) > 1 else 'quick'
    ids = sys.argv[2:] or ['C%02d' % i for i in range(1, 21)]
    shutil.rmtree(OUT, ignore_errors=True)
    os.makedirs(OUT)
    per_check = {}
    for cid in ids:
        data = os.path.join(OUT, '.coverage.' + cid)
        env = dict(os.environ, VERIF_COVERAGE='1')
        p = subprocess.run([sys.executable, '-m', 'coverage', 'run', '--data-file=' + data,
                            '--source=/repo/src/dznpy', os.path.join(VERIF, 'check'), cid, '--tier', tier],
                           cwd=VERIF, env=env, stdout=subprocess.PIPE, stderr=subprocess.STDOUT, text=True)
        rep = subprocess.run([sys.executable, '-m', 'coverage', 'json', '--data-file=' + data, '-o',
                              os.path.join(OUT, cid + '.json'), '-q'], cwd=VERIF, stdout=subprocess.PIPE,
                             stderr=subprocess.STDOUT, text=True)
        try:
            j = json.load(open(os.path.join(OUT, cid + '.json')))
            per_check[cid] = {'rc': p.returncode, 'percent': round(j['totals']['percent_covered'], 1),
                              'files': {os.path.relpath(f, '/repo/src'): round(v['summary']['percent_covered'])
                                        for f, v in j['files'].items() if v['summary']['covered_lines']}}
        except Exception as e:  # noqa
            per_check[cid] = {'rc': p.returncode, 'error': str(e), 'out': (p.stdout + rep.stdout)[-400:]}
        print(cid, per_check[cid].get('percent'), 'rc', p.returncode, flush=True)
    subprocess.run([sys.executable, '-m', 'coverage', 'combine', '--keep', '--data-file=' + OUT + '/.coverage'] +
                   [os.path.join(OUT, '.coverage.' + c) for c in ids], cwd=VERIF)
    subprocess.run([sys.executable, '-m', 'coverage', 'json', '--data-file=' + OUT + '/.coverage', '-o',
                    OUT + '/all.json', '-q'], cwd=VERIF)
    j = json.load(open(OUT + '/all.json'))
    files = {}
    for f, v in sorted(j['files'].items()):
        miss = v['missing_lines']
        ranges, start, prev = [], None, None
        for n in miss:
            if start is None:
                start = prev = n
            elif n == prev + 1:
                prev = n
            else:
                ranges.append([start, prev]); start = prev = n
        if start is not None:
            ranges.append([start, prev])
        files[os.path.relpath(f, '/repo/src')] = {
            'statements': v['summary']['num_statements'], 'executed': v['summary']['covered_lines'],
            'percent': round(v['summary']['percent_covered'], 1), 'missing': ranges}
    res = {'tier': tier, 'total_percent': round(j['totals']['percent_covered'], 1), 'files': files,
           'per_check': per_check}
    json.dump(res, open(os.path.join(VERIF, 'tie_coverage.json'), 'w'), indent=1)
    print('total', res['total_percent'])
    for f, v in files.items():
        print(f"{v['percent']:5.1f}% {f} missing {v['missing']}")


if __name__ == '__main__':
    main()
