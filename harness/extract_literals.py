#!/venv/bin/python
"""Translator: regenerates lean/DznModel/Generated/Literals.lean from the *current* /repo/src.

Walks the Python `ast` of dznpy_version.py, text_gen.py, adv_shell/common.py and the six
support_files/*.py modules and emits Lean definitions for the literal texts and tables the
generator prints.  Only a small set of AST shapes is accepted (constants, implicit concatenation /
f-strings over the single parameter `cpp_ns`, list displays of constants, `Enum` class bodies with
constant values, the list comprehension `[f'{file_ns}_{x}.hh' for x in [...]]`); anything else makes
the translator fail, which the checks report as a broken tie.
"""
import ast
import os
import sys

REPO = os.environ.get('VERIF_REPO', '/repo')
SRC = os.path.join(REPO, 'src', 'dznpy')
OUT = os.path.join(os.path.dirname(os.path.dirname(os.path.abspath(__file__))), 'lean', 'DznModel',
                   'Generated', 'Literals.lean')


class TranslateError(Exception):
    pass


def lean_str(s):
    out = []
    for ch in s:
        if ch == '\\':
            out.append('\\\\')
        elif ch == '"':
            out.append('\\"')
        elif ch == '\n':
            out.append('\\n')
        elif ch == '\t':
            out.append('\\t')
        elif ch == '\r':
            out.append('\\r')
        elif ord(ch) < 32 or ord(ch) == 127:
            out.append('\\x%02x' % ord(ch))
        else:
            out.append(ch)
    return '"' + ''.join(out) + '"'


def parse(path):
    with open(path, encoding='utf-8') as f:
        return ast.parse(f.read(), path)


def module_constant(tree, name):
    for node in tree.body:
        if isinstance(node, ast.Assign) and len(node.targets) == 1 and isinstance(node.targets[0], ast.Name) \
                and node.targets[0].id == name:
            if isinstance(node.value, ast.Constant):
                return node.value.value
            raise TranslateError(f'{name}: not a constant')
    raise TranslateError(f'{name}: not found')


def find_func(tree, name):
    for node in tree.body:
        if isinstance(node, ast.FunctionDef) and node.name == name:
            return node
    return None


def textblock_arg(fn):
    """`return TextBlock(<expr>)` -> <expr>"""
    rets = [n for n in fn.body if isinstance(n, ast.Return)]
    if len(rets) != 1:
        raise TranslateError(f'{fn.name}: expected one return')
    call = rets[0].value
    if not (isinstance(call, ast.Call) and isinstance(call.func, ast.Name) and call.func.id == 'TextBlock'
            and len(call.args) == 1 and not call.keywords):
        raise TranslateError(f'{fn.name}: expected return TextBlock(<literal>)')
    return call.args[0]


def str_parts(expr, param):
    """constant or f-string over the single parameter -> list of ('s', text) | ('p',)"""
    if isinstance(expr, ast.Constant) and isinstance(expr.value, str):
        return [('s', expr.value)]
    if isinstance(expr, ast.JoinedStr):
        parts = []
        for v in expr.values:
            if isinstance(v, ast.Constant) and isinstance(v.value, str):
                parts.append(('s', v.value))
            elif isinstance(v, ast.FormattedValue) and isinstance(v.value, ast.Name) and v.value.id == param \
                    and v.conversion == -1 and v.format_spec is None:
                parts.append(('p',))
            else:
                raise TranslateError('unsupported f-string part')
        return parts
    raise TranslateError(f'unsupported string expression {ast.dump(expr)[:80]}')


def lean_parts(parts, pname):
    if not parts:
        return '[]'
    return ' ++ '.join(('Ls ' + lean_str(p[1])) if p[0] == 's' else pname for p in parts)


def const_list(expr):
    if isinstance(expr, ast.List) and all(isinstance(e, ast.Constant) and isinstance(e.value, str) for e in expr.elts):
        return [e.value for e in expr.elts]
    raise TranslateError('expected a list of string constants')


def find_calls(fn, name):
    return [n for n in ast.walk(fn) if isinstance(n, ast.Call) and isinstance(n.func, ast.Name) and n.func.id == name]


def enum_values(tree, cls):
    for node in tree.body:
        if isinstance(node, ast.ClassDef) and node.name == cls:
            vals = []
            for st in node.body:
                if isinstance(st, ast.Assign) and isinstance(st.value, ast.Constant):
                    vals.append((st.targets[0].id, st.value.value))
            return vals
    raise TranslateError(f'enum {cls} not found')


SUPPORT = [('strict_port', 'StrictPort'), ('ilog', 'ILog'), ('misc_utils', 'MiscUtils'),
           ('meta_helpers', 'MetaHelpers'), ('multi_client_selector', 'MultiClientSelector'),
           ('mutex_wrapped', 'MutexWrapped')]


DYNAMIC = r"""
import inspect, json, re, sys
import dznpy
assert dznpy.__file__.startswith(sys.argv[1]), dznpy.__file__
from dznpy import dznpy_version, text_gen
from dznpy.adv_shell.common import FacilitiesOrigin
from dznpy.scoping import NamespaceIds
import importlib
S = '\x01NS\x01'
res = {'VERSION': dznpy_version.VERSION, 'COPYRIGHT': dznpy_version.COPYRIGHT,
       'DO_NOT_MODIFY': text_gen.DO_NOT_MODIFY, 'EOL': text_gen.EOL,
       'DEFAULT_INDENT_NR_SPACES': text_gen.DEFAULT_INDENT_NR_SPACES,
       'IMPORT': FacilitiesOrigin.IMPORT.value, 'CREATE': FacilitiesOrigin.CREATE.value, 'support': {}}
for mod in sys.argv[2:]:
    m = importlib.import_module('dznpy.support_files.' + mod)
    hfn = getattr(m, 'header_hh_template', None) or getattr(m, 'header_hh')
    takes = len(inspect.signature(hfn).parameters) >= 1
    hdr = hfn(S) if takes else hfn()
    body = m.body_hh()
    plain = m.create_header(None)
    pref = m.create_header(NamespaceIds(['Zq7']))
    assert plain.filename.startswith('Dzn') and pref.filename.startswith('Zq7_Dzn'), (plain.filename, pref.filename)
    suffix = plain.filename[len('Dzn'):]
    assert pref.filename == 'Zq7_Dzn' + suffix
    sysinc = re.findall(r'^#include <([^>]*)>$', plain.contents, re.M)
    proj = re.findall(r'^#include "Dzn_([^"]*)\.hh"$', plain.contents, re.M)
    proj2 = re.findall(r'^#include "Zq7_Dzn_([^"]*)\.hh"$', pref.contents, re.M)
    assert proj == proj2, (proj, proj2)
    assert len(re.findall(r'^#include ', plain.contents, re.M)) == len(sysinc) + len(proj)
    res['support'][mod] = {'header_lines': list(hdr.lines), 'header_param': takes, 'body_lines': list(body.lines),
                           'sys': sysinc, 'proj': proj, 'suffix': suffix}
print(json.dumps(res))
"""


def dynamic_extract():
    """the literal texts and tables as the CURRENT code computes them (the functions are run, so any
    text-preserving restructuring of how they are assembled is followed)"""
    import json
    import subprocess
    src = os.path.join(REPO, 'src')
    env = dict(os.environ, PYTHONPATH=src, PYTHONHASHSEED='0')
    r = subprocess.run(['/venv/bin/python', '-c', DYNAMIC, src] + [m for m, _ in SUPPORT], capture_output=True,
                       text=True, env=env, timeout=120)
    if r.returncode != 0:
        raise TranslateError('dynamic extraction failed: ' + r.stderr.strip().splitlines()[-1] if r.stderr.strip() else 'rc')
    return json.loads(r.stdout)


def text_of_lines(lines):
    """a text whose TextBlock has exactly these lines"""
    return ''.join(l + '\n' for l in lines)


def parts_of(text, sentinel='\x01NS\x01'):
    out = []
    for i, piece in enumerate(text.split(sentinel)):
        if i:
            out.append(('p',))
        if piece:
            out.append(('s', piece))
    return out


def main_dynamic():
    d = dynamic_extract()
    out = ['/- GENERATED by harness/extract_literals.py from /repo/src on every run. DO NOT EDIT. -/',
           'import DznModel.Py', 'open Py', '', 'namespace Lit', '']
    out.append(f'def version : Str := Ls {lean_str(d["VERSION"])}')
    out.append(f'def copyright : Str := Ls {lean_str(d["COPYRIGHT"])}')
    out.append(f'def doNotModify : Str := Ls {lean_str(d["DO_NOT_MODIFY"])}')
    out.append(f'def eol : Str := Ls {lean_str(d["EOL"])}')
    out.append(f'def defaultIndentNrSpaces : Nat := {int(d["DEFAULT_INDENT_NR_SPACES"])}')
    out.append(f'def originImport : Str := Ls {lean_str(d["IMPORT"])}')
    out.append(f'def originCreate : Str := Ls {lean_str(d["CREATE"])}')
    out.append('')
    for mod, suffix in SUPPORT:
        e = d['support'][mod]
        if any('\x01' in l for l in e['body_lines']):
            raise TranslateError(f'{mod}: body must be constant')
        hparts = parts_of(text_of_lines(e['header_lines']))
        bparts = parts_of(text_of_lines(e['body_lines']))
        name = suffix[0].lower() + suffix[1:]
        out.append(f'def {name}Header (cppNs : Str) : Str := {lean_parts(hparts, "cppNs")}')
        out.append(f'def {name}Body : Str := {lean_parts(bparts, "cppNs")}')
        out.append(f'def {name}SysIncludes : List Str := [{", ".join("L " + lean_str(x) for x in e["sys"])}]')
        out.append(f'def {name}ProjIncludes : List Str := [{", ".join("L " + lean_str(x) for x in e["proj"])}]')
        out.append(f'def {name}FileSuffix : Str := L {lean_str(e["suffix"])}')
        out.append('')
    out.append('end Lit')
    return '\n'.join(out) + '\n'


def write_out(text):
    os.makedirs(os.path.dirname(OUT), exist_ok=True)
    old = open(OUT, encoding='utf-8').read() if os.path.exists(OUT) else None
    if old != text:
        with open(OUT, 'w', encoding='utf-8') as f:
            f.write(text)
        print('Literals.lean regenerated')
    return 0


def main():
    # primary: run the current code's own functions; fallback: read the syntax tree (for a tree whose
    # package cannot be imported the checks fail anyway)
    try:
        return write_out(main_dynamic())
    except Exception as e:  # noqa
        print('TRANSLATOR: dynamic path failed (%s); falling back to the syntax tree' % e)
        return write_out(main_static())


def main_static():
    out = ['/- GENERATED by harness/extract_literals.py from /repo/src on every run. DO NOT EDIT. -/',
           'import DznModel.Py', 'open Py', '', 'namespace Lit', '']
    ver = parse(os.path.join(SRC, 'dznpy_version.py'))
    out.append(f'def version : Str := Ls {lean_str(module_constant(ver, "VERSION"))}')
    out.append(f'def copyright : Str := Ls {lean_str(module_constant(ver, "COPYRIGHT"))}')
    tg = parse(os.path.join(SRC, 'text_gen.py'))
    out.append(f'def doNotModify : Str := Ls {lean_str(module_constant(tg, "DO_NOT_MODIFY"))}')
    out.append(f'def eol : Str := Ls {lean_str(module_constant(tg, "EOL"))}')
    out.append(f'def defaultIndentNrSpaces : Nat := {int(module_constant(tg, "DEFAULT_INDENT_NR_SPACES"))}')
    common = parse(os.path.join(SRC, 'adv_shell', 'common.py'))
    fo = dict(enum_values(common, 'FacilitiesOrigin'))
    out.append(f'def originImport : Str := Ls {lean_str(fo["IMPORT"])}')
    out.append(f'def originCreate : Str := Ls {lean_str(fo["CREATE"])}')
    out.append('')
    for mod, suffix in SUPPORT:
        tree = parse(os.path.join(SRC, 'support_files', mod + '.py'))
        hfn = find_func(tree, 'header_hh_template') or find_func(tree, 'header_hh')
        if hfn is None:
            raise TranslateError(f'{mod}: no header function')
        param = hfn.args.args[0].arg if hfn.args.args else None
        hparts = str_parts(textblock_arg(hfn), param)
        bfn = find_func(tree, 'body_hh')
        bparts = str_parts(textblock_arg(bfn), None)
        if any(p[0] == 'p' for p in bparts):
            raise TranslateError(f'{mod}: body must be constant')
        ch = find_func(tree, 'create_header')
        sysinc = find_calls(ch, 'SystemIncludes')
        sys_list = const_list(sysinc[0].args[0]) if sysinc else []
        projinc = find_calls(ch, 'ProjectIncludes')
        proj_list = []
        if projinc:
            lc = projinc[0].args[0]
            if not (isinstance(lc, ast.ListComp) and len(lc.generators) == 1 and isinstance(lc.elt, ast.JoinedStr)):
                raise TranslateError(f'{mod}: unsupported ProjectIncludes argument')
            tmpl = lc.elt.values
            ok = (len(tmpl) == 4 and isinstance(tmpl[0], ast.FormattedValue) and tmpl[0].value.id == 'file_ns'
                  and isinstance(tmpl[1], ast.Constant) and tmpl[1].value == '_'
                  and isinstance(tmpl[2], ast.FormattedValue) and tmpl[2].value.id == lc.generators[0].target.id
                  and isinstance(tmpl[3], ast.Constant) and tmpl[3].value == '.hh')
            if not ok:
                raise TranslateError(f'{mod}: unsupported ProjectIncludes template')
            proj_list = const_list(lc.generators[0].iter)
        gc = find_calls(ch, 'GeneratedContent')
        fname = None
        for kw in gc[0].keywords:
            if kw.arg == 'filename':
                v = kw.value
                if isinstance(v, ast.JoinedStr) and len(v.values) == 2 and isinstance(v.values[0], ast.FormattedValue) \
                        and v.values[0].value.id == 'file_ns' and isinstance(v.values[1], ast.Constant):
                    fname = v.values[1].value
        if fname is None:
            raise TranslateError(f'{mod}: unsupported filename expression')
        name = suffix[0].lower() + suffix[1:]
        out.append(f'def {name}Header (cppNs : Str) : Str := {lean_parts(hparts, "cppNs")}')
        out.append(f'def {name}Body : Str := {lean_parts(bparts, "cppNs")}')
        # short table entries are emitted as explicit character lists (macro `L`) so that theorems can
        # compare them structurally; the long texts stay `String` literals (`Ls`)
        out.append(f'def {name}SysIncludes : List Str := [{", ".join("L " + lean_str(x) for x in sys_list)}]')
        out.append(f'def {name}ProjIncludes : List Str := [{", ".join("L " + lean_str(x) for x in proj_list)}]')
        out.append(f'def {name}FileSuffix : Str := L {lean_str(fname)}')
        out.append('')
    out.append('end Lit')
    return '\n'.join(out) + '\n'


if __name__ == '__main__':
    try:
        sys.exit(main())
    except TranslateError as e:
        print('TRANSLATOR: ' + str(e))
        sys.exit(1)
