#!/bin/bash
# usage: harness/refcheck.sh <worktree> [check ids…] — run checks against a worktree holding a HARMLESS refactoring;
# every check must stay quiet (exit 0, no VIOLATION)
wt=$1; shift
ids=("$@"); [ ${#ids[@]} -eq 0 ] && ids=(C01 C02 C03 C04 C05 C06 C07 C08 C09 C10 C11 C12 C13 C14 C15 C16 C17 C18 C19 C20)
cd /verif
for c in "${ids[@]}"; do
  out=$(VERIF_REPO=$wt ./check $c 2>&1); rc=$?
  echo "$c rc=$rc $(echo "$out" | grep -E 'VIOLATION' | cut -c1-200) | $(echo "$out" | grep -E 'tier=' | cut -c1-160)"
done
/venv/bin/python harness/extract_literals.py > /dev/null
