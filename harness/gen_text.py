"""Generators and implementation runners for the text layer (C17, C18, C19)."""
from harness.common import use_repo_src

BREAKS = ['\n', '\r', '\r\n', '\x0b', '\x0c', '\x1c', '\x1d', '\x1e', '\x85', ' ', ' ']
WS = [' ', '\t', '\xa0', '\x1f', ' ', '  ']
WORDS = ['a', 'b', 'xy', 'Hello', '//', '*/', '#include <x>', 'int x;', '\\', 'é', '-', '0', 'q r']


def gen_str(rng, hostile=True):
    k = rng.random()
    if k < 0.12:
        return ''
    if k < 0.2:
        return rng.choice(WS)
    n = rng.randint(1, 6)
    parts = []
    for _ in range(n):
        r = rng.random()
        if r < 0.25 and hostile:
            parts.append(rng.choice(BREAKS))
        elif r < 0.45:
            parts.append(rng.choice(WS))
        else:
            parts.append(rng.choice(WORDS))
    return ''.join(parts)


def gen_line(rng):
    """a string without line boundaries"""
    s = gen_str(rng, hostile=False)
    return s


def gen_content(rng, depth=0, maxdepth=5, objects=True):
    r = rng.random()
    if depth >= maxdepth or r < 0.42:
        return {'s': gen_str(rng)}
    if r < 0.48:
        return {'i': rng.choice([0, 1, -7, 42, 123456789012345678901])}
    if r < 0.51:
        return {'b': rng.random() < 0.5}
    if r < 0.58:
        return {'n': None}
    if r < 0.74:
        return {'l': [gen_content(rng, depth + 1, maxdepth, objects) for _ in range(rng.randint(0, 4))]}
    if r < 0.78:
        # ONE list/dict object that occurs several times in the tree (a separator kept in a variable, [[row]] * 3)
        inner = rng.choice([{'l': [gen_content(rng, depth + 2, maxdepth, objects) for _ in range(rng.randint(1, 3))]},
                            {'d': [[f'k{i}', gen_content(rng, depth + 2, maxdepth, objects)] for i in range(rng.randint(1, 2))]}])
        return {'shared': inner, 'times': rng.randint(2, 3)}
    if r < 0.85:
        n = rng.randint(0, 3)
        return {'d': [[f'k{i}', gen_content(rng, depth + 1, maxdepth, objects)] for i in range(n)]}
    if not objects:
        return {'s': gen_str(rng)}
    if r < 0.93:
        tb = {'c': gen_content(rng, depth + 1, maxdepth, objects)}
        if rng.random() < 0.3:
            tb['h'] = gen_content(rng, depth + 2, maxdepth, objects)
        return {'tb': tb}
    if r < 0.97:
        return {'cm': gen_content(rng, depth + 1, maxdepth, objects)}
    return {'o': gen_str(rng)}


def count_leaves(c):
    if 'shared' in c:
        return c['times'] * count_leaves(c['shared'])
    if 'l' in c:
        return sum(count_leaves(x) for x in c['l'])
    if 'd' in c:
        return sum(count_leaves(v) for _k, v in c['d'])
    if 'tb' in c:
        return count_leaves(c['tb']['c']) + (count_leaves(c['tb']['h']) if 'h' in c['tb'] else 0)
    if 'cm' in c:
        return count_leaves(c['cm'])
    return 1


def gen_hist(rng, comment=False, max_steps=7):
    """one TextBlock (or Comment) object under a history of operations; every step is observed
    (lines, str) so that state which outlives a call (caches, shared buffers) is seen"""
    case = {'op': 'tb.hist', 'content': gen_content(rng, 1), 'comment': comment}
    if not comment and rng.random() < 0.35:
        case['header'] = gen_content(rng, 3)
    kinds = ['append', 'iadd', 'trim', 'trim', 'add', 'pour', 'pour', 'obs', 'obs', 'setlines']
    if comment:
        kinds += ['indent_none'] if rng.random() < 0.3 else []
    else:
        kinds += ['indent', 'indent', 'indent_none', 'set_indentor']
    steps = []
    for _ in range(rng.randint(1, max_steps)):
        k = rng.choice(kinds)
        if k in ('append', 'iadd', 'add'):
            steps.append({'k': k, 'c': gen_content(rng, 2)})
        elif k == 'trim':
            steps.append({'k': 'trim', 'end_only': rng.random() < 0.5})
        elif k == 'indent':
            steps.append({'k': 'indent', 'ind': gen_indentizer(rng)})
        elif k == 'indent_none':
            steps.append({'k': 'indent'})
        elif k == 'set_indentor':
            steps.append({'k': 'set_indentor', 'ind': gen_indentizer(rng)})
        elif k == 'setlines':
            steps.append({'k': 'setlines', 'ls': [rng.choice(['', '', ' ', 'a', '  b', 'c  ', '\t']) if rng.random() < 0.6
                                                   else gen_line(rng) for _ in range(rng.randint(0, 5))]})
        elif k == 'pour':
            steps.append({'k': 'pour', 'in_list': rng.random() < 0.6})
        else:
            steps.append({'k': 'obs'})
    case['steps'] = steps
    return case


def gen_hist2(rng, max_steps=8):
    """2-3 block objects (TextBlock / Comment) that are handed to one another (append(other), other's lines,
    TextBlock(other), +) between ordinary in-place operations; after every step ALL objects are observed"""
    nobj = rng.randint(2, 3)
    objects = []
    for _ in range(nobj):
        o = {'content': gen_content(rng, 2), 'comment': rng.random() < 0.25}
        if not o['comment'] and rng.random() < 0.3:
            o['header'] = gen_content(rng, 4)
        objects.append(o)
    steps = []
    for _ in range(rng.randint(2, max_steps)):
        o, j = rng.randrange(nobj), rng.randrange(nobj)
        k = rng.choice(['append_ref', 'iadd_ref', 'add_ref', 'new_from', 'new_with_header', 'clone', 'clone', 'append_lines_of', 'append', 'append', 'trim', 'indent', 'indent', 'setlines', 'obs'])
        st = {'k': k, 'o': o}
        if k in ('append_ref', 'iadd_ref', 'add_ref', 'append_lines_of', 'clone'):
            st['j'] = j
        elif k == 'new_from':
            st['j'] = j
            st['comment'] = rng.random() < 0.3
        elif k == 'new_with_header':
            st['j'] = j
            st['h'] = rng.randrange(nobj)
        elif k == 'append':
            st['c'] = gen_content(rng, 3)
        elif k == 'trim':
            st['end_only'] = rng.random() < 0.5
        elif k == 'setlines':
            st['ls'] = [gen_line(rng) for _ in range(rng.randint(0, 3))]
        elif k == 'indent':
            pass          # the stored indenter (a Comment: the // indenter, a plain block: the default)
        steps.append(st)
    return {'op': 'tb.hist2', 'objects': objects, 'steps': steps}


class _Obj:
    def __init__(self, s):
        self.s = s

    def __str__(self):
        return self.s


def to_py(c):
    """build the Python value for a content JSON (fresh objects on every call)"""
    use_repo_src()
    from dznpy.text_gen import TextBlock
    from dznpy.cpp_gen import Comment
    if 's' in c:
        return c['s']
    if 'i' in c:
        return c['i']
    if 'b' in c:
        return c['b']
    if 'n' in c:
        return None
    if 'shared' in c:
        obj = to_py(c['shared'])
        return [obj] * c['times']          # the very same object at every position
    if 'l' in c:
        return [to_py(x) for x in c['l']]
    if 'd' in c:
        return {k: to_py(v) for k, v in c['d']}
    if 'tb' in c:
        h = to_py(c['tb']['h']) if 'h' in c['tb'] else None
        return TextBlock(to_py(c['tb']['c']), header=h)
    if 'cm' in c:
        return Comment(to_py(c['cm']))
    if 'o' in c:
        return _Obj(c['o'])
    raise ValueError(c)


def gen_indentizer(rng):
    tab = rng.random() < 0.25
    mode = rng.choice(['none', 'none', 'all', 'first'])
    glyph = rng.choice(['-', '', '*', '>>>', '//', '->->->', 'o', '- '])
    return {'tab': tab, 'n': rng.choice([0, 1, 2, 3, 4, 4, 5, 8, 9]), 'mode': mode, 'glyph': glyph}


def to_indentizer(d):
    use_repo_src()
    from dznpy.text_gen import Indentizer, Indentor, BulletList, BulletListMode
    bl = None
    if d['mode'] == 'all':
        bl = BulletList(mode=BulletListMode.ALL, glyph=d['glyph'])
    elif d['mode'] == 'first':
        bl = BulletList(mode=BulletListMode.FIRST_ONLY, glyph=d['glyph'])
    return Indentizer(indentor=Indentor.TAB if d['tab'] else Indentor.SPACES,
                      spaces_count=d['n'], bullet_list=bl)


def err_tag(e):
    """map an exception to the small error enum of the model"""
    use_repo_src()
    name = type(e).__name__
    lib = {'DznJsonError', 'NamespaceIdsTypeError', 'AdvShellError', 'MultiClientCfgError',
           'FindError', 'CppGenError'}
    if name in lib:
        return 'lib:' + name
    if name in ('KeyError', 'AttributeError', 'IndexError', 'RecursionError'):
        return 'internal:' + name
    import traceback
    tb = traceback.extract_tb(e.__traceback__)
    # a TypeError/ValueError raised by an explicit `raise` inside dznpy is 'deliberate'
    last = tb[-1] if tb else None
    if name in ('TypeError', 'ValueError'):
        if last is not None and '/dznpy/' in last.filename and (last.line or '').lstrip().startswith('raise'):
            return 'deliberate:' + name
        return 'internal:TypeError' if name == 'TypeError' else 'deliberate:ValueError'
    return 'other:' + name


def run_text_op(case):
    use_repo_src()
    from dznpy.text_gen import TextBlock, chunk, cond_chunk
    from dznpy.cpp_gen import Comment
    op = case['op']
    if op == 'tb.new':
        h = to_py(case['header']) if 'header' in case else None
        t = TextBlock(to_py(case['content']), header=h)
        t2 = TextBlock(to_py(case['content']))
        rt = TextBlock(str(t2)).lines
        return {'lines': list(t.lines), 'str': str(t), 'rt': list(rt)}
    if op in ('tb.append', 'tb.iadd', 'tb.add'):
        t = TextBlock(to_py(case['a']))
        b = to_py(case['b'])
        if op == 'tb.append':
            r = t.append(b)
        elif op == 'tb.iadd':
            t += b
            r = t
        else:
            r = t + b
        return {'lines': list(r.lines)}
    if op == 'tb.trim':
        t = TextBlock(to_py(case['content']))
        return {'lines': list(t.trim(case.get('end_only', False)).lines)}
    if op == 'chunk':
        if 'appendix' in case:
            r = chunk(to_py(case['content']), to_py(case['appendix']))
        else:
            r = chunk(to_py(case['content']))
        return None if r is None else list(r.lines)
    if op == 'cond_chunk':
        kw = {}
        if 'appendix' in case:
            kw['appendix'] = to_py(case['appendix'])
        r = cond_chunk(to_py(case['preamble']), to_py(case['content']), to_py(case['empty']),
                       all_or_nothing=case.get('aon', False), **kw)
        return None if r is None else list(r.lines)
    if op == 'tb.hist':
        if case.get('comment'):
            t = Comment(to_py(case['content']))
        else:
            h = to_py(case['header']) if 'header' in case else None
            t = TextBlock(to_py(case['content']), header=h)
        out = []
        for st in case['steps']:
            k = st['k']
            extra = None
            if k == 'append':
                r = t.append(to_py(st['c']))
                assert r is t
            elif k == 'iadd':
                t0 = t
                t += to_py(st['c'])
                if t is not t0:
                    out.append({'lines': ['<+= returned another object>'], 'str': '', 'extra': None})
                    continue
            elif k == 'trim':
                t.trim(st.get('end_only', False))
            elif k == 'indent':
                t.indent(to_indentizer(st['ind']) if 'ind' in st else None)
            elif k == 'set_indentor':
                t.set_indentor(to_indentizer(st['ind']))
            elif k == 'setlines':
                t.lines = list(st['ls'])
            elif k == 'add':
                extra = list((t + to_py(st['c'])).lines)
            elif k == 'pour':
                extra = list(TextBlock([t]).lines) if st.get('in_list') else list(TextBlock(t).lines)
            out.append({'lines': list(t.lines), 'str': str(t), 'extra': extra})
        return out
    if op == 'tb.hist2':
        objs = []
        for o in case['objects']:
            if o.get('comment'):
                objs.append(Comment(to_py(o['content'])))
            else:
                objs.append(TextBlock(to_py(o['content']), header=to_py(o['header']) if 'header' in o else None))
        out = []
        for st in case['steps']:
            k, i = st['k'], st['o']
            extra = None
            if k == 'append_ref':
                objs[i].append(objs[st['j']])
            elif k == 'iadd_ref':
                x = objs[i]
                x += objs[st['j']]
                objs[i] = x
            elif k == 'add_ref':
                extra = list((objs[i] + objs[st['j']]).lines)
            elif k == 'new_from':
                objs[i] = Comment(objs[st['j']]) if st.get('comment') else TextBlock(objs[st['j']])
            elif k == 'append_lines_of':
                objs[i].append(objs[st['j']].lines)
            elif k == 'new_with_header':
                objs[i] = TextBlock(objs[st['j']], header=objs[st['h']])
            elif k == 'clone':
                import copy
                objs[i] = copy.deepcopy(objs[st['j']])
            elif k == 'append':
                objs[i].append(to_py(st['c']))
            elif k == 'trim':
                objs[i].trim(st.get('end_only', False))
            elif k == 'indent':
                objs[i].indent()
            elif k == 'setlines':
                objs[i].lines = list(st['ls'])
            out.append({'objs': [{'lines': list(o.lines), 'str': str(o)} for o in objs], 'extra': extra})
        return out
    if op == 'ind.to_list':
        return to_indentizer(case['ind']).to_list(to_py(case['content']))
    if op == 'ind.to_str':
        try:
            return {'ok': to_indentizer(case['ind']).to_str(to_py(case['content']))}
        except RecursionError:
            return {'err': 'internal:RecursionError'}
    if op == 'tb.indent':
        h = to_py(case['header']) if 'header' in case else None
        t = TextBlock(to_py(case['content']), header=h)
        steps = []
        for d in case['inds']:
            t.indent(to_indentizer(d))
            steps.append(list(t.lines))
        return {'steps': steps, 'str': str(t), 'header': list(t._header)}
    if op == 'comment.str':
        cm = Comment(to_py(case['content']))
        before = list(cm.lines)
        s = str(cm)
        after = list(cm.lines)
        s2 = str(cm)
        out = {'before': before, 'str': s, 'after': after, 'str2': s2}
        if 'extend' in case:
            # "... so that it can be rendered or extended again": extended in place (+=) and by append, after a rendering
            c3 = Comment(to_py(case['content']))
            str(c3)
            c3 += to_py(case['extend'])
            out['str3'] = str(c3)
            c4 = Comment(to_py(case['content']))
            str(c4)
            c4.append(to_py(case['extend']))
            out['str4'] = str(c4)
        return out
    if op == 'py.splitlines':
        return case['s'].splitlines()
    if op == 'py.strip':
        return case['s'].strip()
    raise ValueError(op)
