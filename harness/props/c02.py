from harness.progprop import ProgProp, parse_obs, parse_ret, configured_sem
from harness import cxx_run as X


class C02(ProgProp):
    id = 'C02'
    theorems = ['C02.mts_provides_in_runs_in_dispatcher', 'C02.mts_requires_out_is_queued_by_value', 'C02.by_reference_capture_dangles', 'C02.generated_post_captures_by_value', 'C02.sts_passthrough', 'C02.accessor_type', 'C02.partition', 'C02.build_mts_in_event_in_dispatcher', 'C02.build_mts_requires_out_queued', 'C02.sts_port_untouched', 'C02.build_sts_port_bypasses_dispatcher']
    proof_modules = ['DznProofs.C02', 'DznProofs.C01Gen', 'DznProofs.C02Gen']
    level_rule = ('compiled programs over every way the configuration language assigns STS/MTS (presets, explicit '
                  'sets, remaining/all/none) and both facility origins; per stimulus: dispatcher flag, posted/shell '
                  'counters, observation before/after return, values seen after the caller frame is gone, accessor '
                  'type (static_assert generated from the model prediction) and address identity; non-trivial = '
                  'script with an event on an exposed port; distinct = distinct (model, cfg, script)')

    def monitor(self, case, spec, script, segs):
        info = case['_info']
        cfgp = case['cfg']['ports']
        ports = {p['name']: p for p in spec['encapsulee']['ports']}
        failed = []
        sfns = '::' + '::'.join(spec['support_ns'])
        # accessor type and identity follow the *configured* semantics (oracle: explicit name, else wildcard)
        for name, p in ports.items():
            if p['sem'] is None:
                continue
            want = configured_sem(cfgp, name, p['dir'])
            if p['sem'] != want:
                failed.append(f'port {name}: configured {want}, shell built with {p["sem"]}')
            at = spec['predict']['accessor_types'][name]
            itf = '::' + '::'.join(p['itf'])
            want_t = f'{sfns}::{"Sts" if want == "sts" else "Mts"}<{itf}>'
            if at != want_t:
                failed.append(f'port {name}: accessor type {at} instead of {want_t}')
        world_ok = bound = False
        pending = []
        for op, pre, term, post in segs:
            t = op.split(' ')
            if t[0] == 'world':
                world_ok = term == 'world ok'
                pending, bound = [], False
                if world_ok:
                    for l in post:
                        if l.startswith('ident '):
                            _i, name, v = l.split(' ')
                            p = ports[name]
                            want = 'na' if p['multiclient'] else ('1' if configured_sem(cfgp, name, p['dir']) == 'sts' else '0')
                            if v != want:
                                failed.append(f'ident {name} {v} (want {want})')
                continue
            if t[0] == 'bind':
                bound = True
            if not world_ok or not bound or t[0] not in ('call', 'pump') or term is None:
                continue
            obs = [parse_obs(l) for l in pre if l.startswith('obs ')]
            if t[0] == 'pump':
                for o in obs:
                    if o['disp'] != 1:
                        failed.append(f'pump: closure ran outside dispatcher context {o}')
                pending = []
                continue
            if not term.startswith('ret'):
                continue
            r = parse_ret(term)
            pname = t[1].split('@')[0]
            p, itf = X.port_events(info, pname)
            ev = next(e for e in itf['events'] if e['name'] == t[2])
            sp = ports[pname]
            sem = configured_sem(cfgp, pname, sp['dir'])
            mine = [o for o in obs if o['who'] == 'comp' and o['port'] == pname and o['ev'] == ev['name']]
            want_pump = 'proto' if case['cfg']['origin'] == 'import' else 'other'
            if sem == 'sts':
                if r['posted'] != 0 or r['shell'] != 0 or r['pump'] != 'none':
                    failed.append(f'{op}: STS event touched the dispatcher ({term})')
                if len(mine) != 1 or mine[0]['disp'] != 0:
                    failed.append(f'{op}: STS event not executed directly in the caller context {mine}')
            elif sp['dir'] == 'provides':
                if r['shell'] != 1 or r['posted'] != 0 or r['pump'] != want_pump:
                    failed.append(f'{op}: MTS provides in-event did not block on the dispatcher ({term})')
                if len(mine) != 1 or mine[0]['disp'] != 1:
                    failed.append(f'{op}: MTS provides in-event not executed in dispatcher context {mine}')
            else:
                if r['posted'] != 1 or r['shell'] != 0 or r['pump'] != want_pump:
                    failed.append(f'{op}: MTS requires out-event not queued ({term})')
                if mine:
                    failed.append(f'{op}: MTS requires out-event executed before return')
        return failed


    def extra(self, ctx):
        res = super().extra(ctx)
        # text level, with extern data types the mock runtime cannot carry (references, pointers,
        # templates): every closure handed to the dispatcher must capture each of its `in` arguments by value
        import re
        from harness import gen_build as GB
        from harness.common import evaluate, case_hash, scale
        rng, tier = ctx['rng'], ctx['tier']
        n = 60 if tier == 'quick' else scale(4000)
        saved = GB.CTYPES
        GB.CTYPES = ['int', 'const Payload&', 'Frame*', 'std::shared_ptr<X>', 'My::T<int>', 'char const *', 'std::string']
        try:
            cases = [GB.gen_case(rng) for _ in range(n)]
        finally:
            GB.CTYPES = saved
        recs = evaluate(_TextProp(), [{k: v for k, v in c.items() if k != '_info'} for c in cases])
        post = re.compile(r'return m_dispatcher\(\[&(.*?)\] \{ return m_encapsulee\.(\w+)\.out\.(\w+)\((.*?)\); \}\);')
        for c, r in zip(cases, recs):
            res['evaluations'] += 1
            res['shapes'].append(case_hash([c['src'], c['cfg']]))
            io = r['impl']
            if 'ok' not in io:
                continue
            cc = io['ok']['files'][1]['contents']
            bad = []
            for m in post.finditer(cc):
                caps = [x.strip() for x in m.group(1).split(',') if x.strip()]
                args = [x.strip() for x in m.group(4).split(',') if x.strip()]
                if caps != args:
                    bad.append(f'{m.group(2)}.out.{m.group(3)}: captured by value {caps}, arguments {args}')
            rec = {'case': r['case'], 'impl': bad or 'ok', 'model': None, 'failed': bad, 'noshrink': True}
            if bad:
                res['failures'].append(rec)
            elif not r['agree']:
                rec['model'] = 'generated text differs from the model'
                res['disagreements'].append(rec)
        return res


class _TextProp:
    """evaluate() adapter: real build vs model build, projected on the shell source file"""
    id = 'C02'

    def impl(self, case):
        from harness import gen_build as GB
        return GB.build_impl(case)

    def project(self, case, out):
        if isinstance(out, dict) and 'ok' in out:
            from harness.common import code_of
            return {'ok': [code_of(f['contents']) for f in out['ok']['files'][:2]]}
        return out


PROP = C02()
