from harness.common import Prop, canon, scale
from harness import gen_build as G


class C13(Prop):
    id = 'C13'
    theorems = ['C13.trichotomy', 'C13.valid_succeeds', 'C13.complete_file_set', 'C13.wf_needed', 'C13.wf_of_mk', 'C13.invalid_fails', 'C13.unknown_encapsulee', 'C13.ambiguous_encapsulee', 'C13.non_component_encapsulee', 'C13.selection_rejected', 'C13.port_type_unresolved', 'C13.uncovered_port', 'C13.multiclient_invalid', 'C13.multiclient_port_unknown']
    proof_modules = ['DznProofs.C13', 'DznProofs.C13Invalid', 'DznProofs.C13Valid']
    level_rule = ('buildable models (1-3 interfaces, externs, enums, nested/re-opened namespaces, 0-5 ports, '
                  'multi-client) x configurations (all presets, explicit sets, wildcards, both origins, prefixes) '
                  '+ every applicable single-fault variation of each valid case (unknown/non-component '
                  'encapsulee, unknown/overlapping/uncovered selections, mixed provides, missing/wrong-kind/'
                  'ambiguous port type, each multi-client setting wrong in turn, multi-client on STS); the '
                  'generator labels each case with the expected outcome; non-trivial = >=1 port; distinct = '
                  'distinct (model, configuration)')

    def _strip(self, c):
        return {k: v for k, v in c.items() if k != '_info'}

    def streams(self, rng, tier):
        n = 300 if tier == 'quick' else scale(8000)
        valid, faulty = [], []
        for _ in range(n):
            c = G.gen_case(rng)
            valid.append(self._strip(c))
            fs = G.faults(rng, c)
            if tier == 'quick' and len(fs) > 5:
                fs = rng.sample(fs, 5)
            faulty.extend(fs)
        yield 'valid', valid
        yield 'single-fault', faulty

    def impl(self, case):
        return G.build_impl(case)

    def project(self, case, out):
        # C13 speaks about the outcome class and the file-name list
        if isinstance(out, dict) and 'ok' in out:
            return {'ok': [f['name'] for f in out['ok']['files']]}
        return out

    def shape(self, case, impl_out):
        return canon([case['src'], case['cfg']])

    def classify(self, case, impl_out):
        return case.get('fault', 'valid') + '→' + impl_out.get('err', 'ok')


PROP = C13()
