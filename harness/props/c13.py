from harness.common import Prop, canon, scale
from harness import gen_build as G


class C13(Prop):
    id = 'C13'
    theorems = ['C13.trichotomy', 'C13.valid_succeeds', 'C13.complete_file_set', 'C13.wf_needed', 'C13.wf_of_mk', 'C13.invalid_fails', 'C13.unknown_encapsulee', 'C13.ambiguous_encapsulee', 'C13.non_component_encapsulee', 'C13.selection_rejected', 'C13.port_type_unresolved', 'C13.uncovered_port', 'C13.multiclient_invalid', 'C13.multiclient_port_unknown']
    proof_modules = ['DznProofs.C13', 'DznProofs.C13Invalid', 'DznProofs.C13Valid']
    level_rule = ('buildable models (1-3 interfaces, externs, enums, nested/re-opened namespaces, 0-5 ports, '
                  'multi-client) x configurations (all presets, explicit sets, wildcards, both origins, prefixes) '
                  '+ every applicable single-fault variation of each valid case (unknown/non-component '
                  'encapsulee, unknown/overlapping/uncovered selections, mixed provides, missing/wrong-kind/'
                  'ambiguous port type, each multi-client setting wrong in turn, multi-client on STS); the '
                  'generator labels each case with the expected outcome; non-trivial = >=1 port; distinct = '
                  'distinct (model, configuration)')

    def _strip(self, c):
        return {k: v for k, v in c.items() if k != '_info'}

    def streams(self, rng, tier):
        n = 300 if tier == 'quick' else scale(8000)
        valid, faulty = [], []
        for _ in range(n):
            c = G.gen_case(rng)
            valid.append(self._strip(c))
            fs = G.faults(rng, c)
            if tier == 'quick' and len(fs) > 5:
                fs = rng.sample(fs, 5)
            faulty.extend(fs)
        yield 'valid', valid
        yield 'single-fault', faulty
        # a valid input stays valid: the same parsed model and the same configuration values, built again with the
        # same Builder (twice in a row, through the session), are accepted again
        again = []
        for _ in range(n // 3):
            c = self._strip(G.gen_case(rng, want_mc=rng.random() < 0.7))
            c['force_session'] = True
            again += [c, dict(c), dict(c)]
        yield 'valid-again', again

    def impl(self, case):
        if case.get('force_session'):
            return G.build_impl(case, fresh=False)
        return G.build_impl(case)

    def extra(self, ctx):
        """"never hangs": unusual model file names (leading dots, stacked extensions, directories, no extension),
        each build in its own child interpreter under a 20 s watchdog; the outcome is compared with the model"""
        import json
        import os
        import subprocess
        import sys
        from concurrent.futures import ThreadPoolExecutor
        from harness.common import VERIF, run_driver, case_hash
        rng = ctx['rng']
        names = ['.Toaster.dzn', 'models/.Toaster.dzn', '.dzn', '..', 'Toaster.dzn.json', 'a.b.c.dzn', 'dir.d/Toaster',
                 'Toaster.', '/abs/.hidden/x.dzn', './x.dzn', 'x', '...dzn', 'dir/', '.a.b']
        base = None
        for _ in range(50):
            c = G.gen_case(rng, want_mc=False)
            if c['_info']['ports']:
                base = self._strip(c)
                break
        if base is None:
            return None
        cases = []
        for nm in names:
            c = json.loads(json.dumps(base))
            c['cfg']['filename'] = nm
            c['expect'] = 'any'
            cases.append(c)

        def child(c):
            env = dict(os.environ, PYTHONHASHSEED='0', VERIF_CHILD_SHUFFLE='0', VERIF_CHILD_CWD='0')
            try:
                p = subprocess.run([sys.executable, os.path.join(VERIF, 'harness', 'child_build.py')],
                                   input=json.dumps([c]).encode(), stdout=subprocess.PIPE, stderr=subprocess.PIPE,
                                   env=env, timeout=20)
            except subprocess.TimeoutExpired:
                return {'hang': True}
            if p.returncode != 0:
                return {'crash': p.stderr.decode()[-300:]}
            return json.loads(p.stdout)[0]
        with ThreadPoolExecutor(max_workers=8) as ex:
            outs = list(ex.map(child, cases))
        models = run_driver(cases)
        failures, disagreements, shapes = [], [], []
        for c, o, m in zip(cases, outs, models):
            shapes.append(case_hash(['filename', c['cfg']['filename']]))
            rec = {'case': c, 'impl': o, 'model': m.get('model'), 'failed': [], 'noshrink': True}
            if o.get('hang'):
                rec['failed'] = ['the build did not return within 20 s (file name %r)' % c['cfg']['filename']]
                failures.append(rec)
                continue
            mm = m.get('model') or {}
            if 'files' in o and 'ok' in mm:
                if [f[0] for f in o['files']] != [f['name'] for f in mm['ok']['files']]:
                    disagreements.append(rec)
            elif not ('err' in o and 'err' in mm and o['err'] == mm['err']):
                disagreements.append(rec)
        return {'failures': failures, 'disagreements': disagreements, 'evaluations': len(cases), 'shapes': shapes,
                'coverage': {'watchdog_builds': len(cases)}}

    def project(self, case, out):
        # C13 speaks about the outcome class and the file-name list
        if isinstance(out, dict) and 'ok' in out:
            return {'ok': [f['name'] for f in out['ok']['files']]}
        return out

    def shape(self, case, impl_out):
        return canon([case['src'], case['cfg']])

    def classify(self, case, impl_out):
        return case.get('fault', 'valid') + '→' + impl_out.get('err', 'ok')


PROP = C13()
