from harness.progprop import ProgProp, parse_obs, parse_ret, rewrite_args
from harness import cxx_run as X


class C01(ProgProp):
    id = 'C01'
    theorems = ['C01.store_after_assigns', 'C01.env_to_comp_mts_provides', 'C01.env_to_comp_sts', 'C01.comp_to_env_mts_provides', 'C01.requires_out_posted_then_delivered', 'C01.lambdaParams_names', 'C01.args_declared_order', 'C01.runAssigns_get_of', 'C01.compBind_get', 'C01.constructed_store', 'C01.constructed_forwards_in_event', 'C01.assign_origin', 'C01.in_event_assigned', 'C01.generated_forwards_in_event', 'C01.generated_forwards_requires_out', 'C01.generated_forwards_provides_out', 'C01.buildShell_inv', 'C01.elements_in_allPorts', 'C01.build_forwards_in_event', 'C01.build_forwards_requires_out', 'C01.build_forwards_provides_out', 'C01.ex_forwarded', 'C01.parseSlot_str', 'C01.slot_str_injective', 'SemReact.invokeR_nil', 'SemReact.drainR_nil']
    proof_modules = ['DznProofs.C01', 'DznProofs.C01Gen', 'DznProofs.C01Example', 'DznProofs.C01Parse', 'DznProofs.SemReact']
    level_rule = ('compiled programs: real generator output + mock runtime; models with ports sharing an interface, '
                  '0-5 events x 0-3 formals (in/out/inout), valued in-events, multi-client ports, namespace nesting; '
                  'random scripts of ~30 call/raise/reply/pump ops; the program trace is compared with the Lean '
                  'model trace and every stimulus is checked for exactly one matching observation with equal '
                  'arguments and the scripted reply/out-values; non-trivial = script with >=1 event; distinct = '
                  'distinct (model, cfg, script)')

    def gen_scripts(self, rng, case, spec):
        scripts = super().gen_scripts(rng, case, spec)
        # one more script per program: the component reacts to an in-event of a (plain) provides port by raising
        # an out-event of that port before the in-event returns - that event, too, is forwarded exactly once
        info = case['_info']
        origin = case['cfg']['origin']
        ls = ['world pump=1 runtime=1 extra=0 name=re' if origin == 'import' else 'world pump=0 runtime=0 extra=0 name=re']
        mc = spec['multiclient']
        if mc:
            ls.append(f'client {mc["port"]} alice')
        ls += ['bind', 'final 0']
        n = 0
        for p in spec['encapsulee']['ports']:
            if p['dir'] != 'provides' or p['sem'] is None or p['multiclient']:
                continue
            _p, itf = X.port_events(info, p['name'])
            ins = [e for e in itf['events'] if e['dir'] == 'in']
            outs = [e for e in itf['events'] if e['dir'] == 'out']
            if not ins or not outs:
                continue
            for ev in rng.sample(ins, min(2, len(ins))):
                ls.append(f'react {p["name"]} {ev["name"]} {p["name"]} {rng.choice(outs)["name"]}')
                ls.append(' '.join(['call', p['name'], ev['name']] + X.gen_args(rng, ev)))
                n += 1
        if n:
            ls.append('pump')
            scripts.append(ls)
        return scripts

    def monitor(self, case, spec, script, segs):
        info = case['_info']
        ports = {p['name']: p for p in spec['encapsulee']['ports']}
        failed = []
        replies = {}
        pending = []      # posted requires-out events not yet observed: (port, ev, args)
        world_ok = False
        bound = False
        reactions = {}
        for op, pre, term, post in segs:
            t = op.split(' ')
            if t[0] == 'world':
                world_ok = term == 'world ok'
                replies, pending, bound = {}, [], False
                reactions = {}
                continue
            if not world_ok:
                continue
            if t[0] == 'react':
                reactions[(t[1], t[2])] = (t[3], t[4])
                continue
            if t[0] == 'reply':
                replies[(t[1], t[2], t[3])] = int(t[4])
                continue
            if t[0] == 'bind':
                bound = True
                continue
            obs = [parse_obs(l) for l in pre if l.startswith('obs ')]
            if t[0] == 'pump' or (t[0] == 'call' and term and term.startswith('ret') and parse_ret(term)['shell'] > 0):
                # a drain: every pending post is observed exactly once, in order, with the call-time values
                flushed = [o for o in obs if o['who'] == 'comp' and any(o['port'] == p and o['ev'] == e for p, e, _a in pending)]
                want = [(p, e, a) for p, e, a in pending]
                got = [(o['port'], o['ev'], o['args']) for o in flushed][:len(want)]
                if got != want:
                    failed.append(f'posted-events-not-delivered-once-in-order: want {want} got {got}')
                pending = []
            if t[0] not in ('call', 'raise') or not bound:
                continue
            if term is None or term.startswith('err') or term.startswith('noworld'):
                continue
            pname = t[1].split('@')[0]
            p, itf = X.port_events(info, pname)
            ev = next(e for e in itf['events'] if e['name'] == t[2])
            args = [int(x) for x in t[3:3 + len(ev['formals'])]]
            args += [0] * (len(ev['formals']) - len(args))
            sp = ports[pname]
            if t[0] == 'call' and (pname, ev['name']) in reactions and not sp['multiclient']:
                op_, oe_ = reactions[(pname, ev['name'])]
                nested = [o for o in obs if o['who'].startswith('env') and o['port'] == op_ and o['ev'] == oe_]
                if len(nested) != 1:
                    failed.append(f'{op}: the out-event {op_}.{oe_} the component raised while handling the call was observed {len(nested)} times')
                elif any(a != 0 for a in nested[0]['args']):
                    failed.append(f'{op}: the nested out-event arrived with arguments {nested[0]["args"]}')
                stray = [o for o in obs if o['who'].startswith('env') and o not in nested]
                if stray:
                    failed.append(f'{op}: stray observation {stray}')
            if t[0] == 'call':
                who = 'comp'
                if sp['dir'] == 'requires' and sp['sem'] == 'mts':
                    # queued: nothing observed now
                    if any(o['port'] == pname and o['ev'] == ev['name'] and o['who'] == 'comp' for o in obs):
                        failed.append('mts-requires-out-event-ran-before-the-pump')
                    if not term.startswith('ret'):
                        failed.append('call-failed:' + term)
                    pending.append((pname, ev['name'], args))
                    continue
                mine = [o for o in obs if o['who'] == who and o['port'] == pname and o['ev'] == ev['name']]
                side = 'comp'
            else:
                if sp['multiclient']:
                    continue      # delivery to the claim holder is C04's subject
                if sp['sem'] is None:
                    continue      # injected port: not exposed
                mine = [o for o in obs if o['who'].startswith('env') and o['port'] == pname and o['ev'] == ev['name']]
                side = 'env'
            if not term.startswith('ret'):
                failed.append(f'{op}: {term}')
                continue
            if len(mine) != 1:
                failed.append(f'{op}: observed {len(mine)} times')
                continue
            if mine[0]['args'] != args:
                failed.append(f'{op}: arguments arrived as {mine[0]["args"]}')
            others = [o for o in obs if o not in mine and not (o['who'] == 'comp' and t[0] == 'call')]
            if t[0] == 'raise' and others:
                failed.append(f'{op}: stray observation {others}')
            r = parse_ret(term)
            want_ret = None if ev['_reply']['kind'] == 'void' else replies.get((side, pname, ev['name']), 0)
            if r['ret'] != want_ret:
                failed.append(f'{op}: reply {r["ret"]} instead of {want_ret}')
            if r['args'] != rewrite_args(ev, args):
                failed.append(f'{op}: out/inout values {r["args"]} instead of {rewrite_args(ev, args)}')
        return failed


PROP = C01()
