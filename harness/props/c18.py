from harness.common import Prop, canon, scale
from harness import gen_text as G


class C18(Prop):
    id = 'C18'
    theorems = ['C17.hist_indent', 'C17.toListFlat_breakFree', 'C17.step2_frame', 'C18.step_spec', 'C18.length_preserved', 'C18.plain_text_preserved',
                'C18.no_trailing_ws_introduced', 'C18.bullet_width', 'C18.header_untouched',
                'C18.repeated_is_composition', 'C18.to_str_agrees']
    proof_modules = ['DznProofs.C18', 'DznProofs.C17Hist']
    level_rule = ('line sequences (break-free strings incl. blank / whitespace-only / leading and '
                  'trailing whitespace) x indenter configurations (spaces 0-9 or tab x none/all/'
                  'first x glyphs of length 0-6) x 1-3 repeated indents through Indentizer.to_list, '
                  'to_str and TextBlock.indent with a header; non-trivial = >=1 non-blank line; '
                  'distinct = distinct case hash')

    def streams(self, rng, tier):
        n = 2400 if tier == 'quick' else scale(200000)
        corpus = [
            {'op': 'ind.to_list', 'ind': {'tab': False, 'n': 4, 'mode': 'none', 'glyph': '-'}, 'content': {'l': [{'s': 'a'}, {'s': ' '}, {'s': '\tb'}]}},
            {'op': 'ind.to_list', 'ind': {'tab': False, 'n': 2, 'mode': 'all', 'glyph': ''}, 'content': {'l': [{'s': 'a  '}, {'s': ''}, {'s': ' b'}]}},
            {'op': 'ind.to_list', 'ind': {'tab': False, 'n': 2, 'mode': 'first', 'glyph': '>>>'}, 'content': {'l': [{'s': 'a'}, {'s': 'b'}, {'s': ''}]}},
            {'op': 'ind.to_list', 'ind': {'tab': True, 'n': 4, 'mode': 'all', 'glyph': '-'}, 'content': {'l': [{'s': 'a'}, {'s': ''}, {'s': 'b '}]}},
            {'op': 'ind.to_str', 'ind': {'tab': False, 'n': 4, 'mode': 'none', 'glyph': '-'}, 'content': {'l': [{'s': 'a'}, {'s': 'b'}]}},
            {'op': 'tb.indent', 'content': {'s': 'x'}, 'header': {'s': 'H'}, 'inds': [{'tab': False, 'n': 4, 'mode': 'none', 'glyph': '-'}]},
        ]
        yield 'corpus', corpus
        a, b, c = [], [], []
        for _ in range(n):
            lines = {'l': [{'s': G.gen_line(rng)} for _ in range(rng.randint(0, 6))]}
            a.append({'op': 'ind.to_list', 'ind': G.gen_indentizer(rng), 'content': lines})
        for _ in range(n // 4):
            lines = {'l': [{'s': G.gen_line(rng)} for _ in range(rng.randint(0, 5))]}
            b.append({'op': 'ind.to_str', 'ind': G.gen_indentizer(rng), 'content': lines})
        for _ in range(n // 2):
            lines = {'l': [{'s': G.gen_line(rng)} for _ in range(rng.randint(0, 6))]}
            cc = {'op': 'tb.indent', 'content': lines,
                  'inds': [G.gen_indentizer(rng) for _ in range(rng.randint(1, 3))]}
            if rng.random() < 0.5:
                cc['header'] = {'l': [{'s': G.gen_line(rng)} for _ in range(rng.randint(1, 2))]}
            c.append(cc)
        yield 'to_list', a
        yield 'to_str', b
        yield 'tb.indent', c
        yield 'tb.hist', [G.gen_hist(rng) for _ in range(n // 2)]
        # blocks handed to one another (one block as another's header): indenting one never shows in another
        yield 'tb.hist2', [G.gen_hist2(rng) for _ in range(n // 4)]

    def impl(self, case):
        return G.run_text_op(case)

    def shape(self, case, impl_out):
        s = canon(case.get('content'))
        return canon(case) if any(ch.isalnum() for ch in s.replace('"s"', '').replace('"l"', '')) else None

    def classify(self, case, impl_out):
        ind = case.get('ind') or (case.get('inds') or [{}])[0]
        return f"{case['op']}:{'tab' if ind.get('tab') else 'sp'}:{ind.get('mode')}"

    def known(self, case, impl_out, failed, findings):
        return None


PROP = C18()
