import itertools
from harness.common import Prop, canon, use_repo_src, scale
from harness.gen_text import err_tag


def mk_select(d):
    use_repo_src()
    from dznpy.adv_shell.port_selection import PortSelect, PortWildcard
    if 'w' in d:
        return PortSelect({'all': PortWildcard.ALL, 'none': PortWildcard.NONE, 'remaining': PortWildcard.REMAINING}[d['w']])
    s = set()
    for n in d['names']:      # construction order as given
        s.add(n)
    return PortSelect(s)


def mk_portscfg(cfg, multiclient=None, select=None):
    use_repo_src()
    from dznpy.adv_shell.port_selection import PortsSemanticsCfg, PortsCfg
    a, b, c, d = ((select or mk_select)(cfg[k]) for k in ('psts', 'pmts', 'rsts', 'rmts'))
    return PortsCfg(provides=PortsSemanticsCfg(sts=a, mts=b), requires=PortsSemanticsCfg(sts=c, mts=d),
                    multiclient=multiclient)


def selection_snapshot(cfg):
    """the user's four selection objects as values (wildcard name or sorted names)"""
    out = []
    for side in (cfg.provides, cfg.requires):
        for sel in (side.sts, side.mts):
            v = sel.value
            out.append(sorted(v) if isinstance(v, (set, frozenset, list)) else str(v))
    return out


def selections(names):
    """every wildcard and every non-empty subset of names"""
    out = [{'w': 'all'}, {'w': 'none'}, {'w': 'remaining'}]
    for r in range(1, len(names) + 1):
        for sub in itertools.combinations(names, r):
            out.append({'names': list(sub)})
    return out


class C03(Prop):
    id = 'C03'
    theorems = ['C03.semOf_eq_spec', 'C03.total', 'C03.reject', 'C03.order_free', 'C03.order_free_expected', 'C03.at_most_one',
                'C03.exposed_port_semantics', 'C03.injected_needs_no_semantics', 'C13.uncovered_port',
                'C13.selection_rejected']
    proof_modules = ['DznProofs.C03', 'DznProofs.C03Build', 'DznProofs.C13Invalid']
    level_rule = ('pairs of port selections (wildcard or any non-empty name set incl. unknown names) on the '
                  'provides and the requires side against every set of provides/requires port names: '
                  'exhaustive up to 2 names per side + 1 unknown in quick, 3 per side in thorough, sampled '
                  'beyond (up to 6); through PortsCfg.match directly and through Builder.build; '
                  'non-trivial = at least one named port; distinct = distinct case')

    def streams(self, rng, tier):
        k = 2 if tier == 'quick' else 3
        pn = ['p1', 'p2', 'p3'][:k]
        rn = ['r1', 'r2', 'r3'][:k]
        cases = []
        psel = selections(pn + ['zz'])
        rsel = selections(rn + ['p1'])
        # exhaustive over selections on each side separately (other side fixed), then sampled products
        for np_, nr in itertools.product(range(0, k + 1), repeat=2):
            prov, req = pn[:np_], rn[:nr]
            for a in psel:
                for b in psel:
                    cases.append({'op': 'portsel.match', 'cfg': {'psts': a, 'pmts': b, 'rsts': {'w': 'all'}, 'rmts': {'w': 'none'}}, 'prov': prov, 'req': req})
            for c in rsel:
                for d in rsel:
                    cases.append({'op': 'portsel.match', 'cfg': {'psts': {'w': 'none'}, 'pmts': {'w': 'all'}, 'rsts': c, 'rmts': d}, 'prov': prov, 'req': req})
        if tier == 'quick' and len(cases) > 6000:
            cases = rng.sample(cases, 6000)
        yield 'exhaustive', cases
        big = []
        names = ['a', 'b', 'c', 'd', 'e', 'f', 'api', 'Api', '']
        for _ in range(1500 if tier == 'quick' else scale(100000)):
            def sel():
                r = rng.random()
                if r < 0.4:
                    return {'w': rng.choice(['all', 'none', 'remaining'])}
                return {'names': rng.sample(names, rng.randint(0 if r > 0.97 else 1, 5))}
            prov = rng.sample(names[:8], rng.randint(0, 6))
            req = [x for x in rng.sample(names[:8], rng.randint(0, 6)) if x not in prov]
            big.append({'op': 'portsel.match', 'cfg': {'psts': sel(), 'pmts': sel(), 'rsts': sel(), 'rmts': sel()}, 'prov': prov, 'req': req})
        yield 'sampled', big
        # the predefined configurations (all_mts, all_sts, …): the real helper against the explicit selection
        # its documentation states
        NONE, ALL = {'w': 'none'}, {'w': 'all'}
        helpers = []
        for _ in range(200 if tier == 'quick' else scale(5000)):
            prov = rng.sample(names[:8], rng.randint(0, 4))
            req = [x for x in rng.sample(names[:8], rng.randint(0, 5)) if x not in prov]
            def rsel():
                r = rng.random()
                if r < 0.45 or not req:
                    return {'w': rng.choice(['all', 'none', 'remaining'])}
                return {'names': rng.sample(req + ['zz'], rng.randint(1, len(req)))}
            a, b = rsel(), rsel()
            h = rng.choice(['all_mts', 'all_sts', 'all_sts_all_mts', 'all_mts_all_sts', 'all_mts_mixed_ts', 'all_sts_mixed_ts'])
            cfg = {'all_mts': {'psts': NONE, 'pmts': ALL, 'rsts': NONE, 'rmts': ALL},
                   'all_sts': {'psts': ALL, 'pmts': NONE, 'rsts': ALL, 'rmts': NONE},
                   'all_sts_all_mts': {'psts': ALL, 'pmts': NONE, 'rsts': NONE, 'rmts': ALL},
                   'all_mts_all_sts': {'psts': NONE, 'pmts': ALL, 'rsts': ALL, 'rmts': NONE},
                   'all_mts_mixed_ts': {'psts': NONE, 'pmts': ALL, 'rsts': a, 'rmts': b},
                   'all_sts_mixed_ts': {'psts': ALL, 'pmts': NONE, 'rsts': a, 'rmts': b}}[h]
            helpers.append({'op': 'portsel.match', 'helper': h, 'cfg': cfg, 'prov': prov, 'req': req})
        yield 'predefined-configurations', helpers
        yield 'through-build', self.build_stream(rng, tier)

    def build_stream(self, rng, tier):
        """the same rules observed through Builder.build: valid selections (injected requires ports are
        never named) must build and expose exactly the non-injected ports; selection faults must be
        rejected with the configuration error and produce no files"""
        from harness import gen_build as G
        n = 60 if tier == 'quick' else scale(6000)
        out = []
        sel_faults = ('unknown-port-name', 'provides-name-on-requires-side', 'named-under-both', 'all-with-names',
                      'uncovered-requires-port', 'mixed-provides', 'uncovered-provides-port',
                      'mc-mixed-provides-names', 'mc-mixed-provides-both-named')
        for i in range(n):
            # one case in four has a multi-client configuration: the selection rules hold next to it unchanged
            c = G.gen_case(rng, want_mc=(i % 4 == 3))
            if i % 2 == 0:
                # injected requires ports together with explicit-only selections (no wildcard): the
                # injected port is never named and must not need a semantics
                req_all = [p for p in c['_info']['ports'] if p['dir'] == 'requires']
                if req_all:
                    inj = req_all[0]
                    inj['injected'] = True
                    comp = G.find_elem(c['src'], lambda e: e['k'] in ('component', 'system'))
                    for p in comp['ports']:
                        if p['name'] == inj['name']:
                            p['injected'] = True
                    from harness import gen_models as M
                    c['ast'] = M.enc_root(c['src'])
                    rest = [p['name'] for p in req_all if not p['injected']]
                    if rest:
                        k = rng.randint(0, len(rest))
                        a, b = rest[:k], rest[k:]
                        c['cfg']['ports']['rsts'] = {'names': a} if a else {'w': 'none'}
                        c['cfg']['ports']['rmts'] = {'names': b} if b else {'w': 'none'}
                    else:
                        c['cfg']['ports']['rsts'], c['cfg']['ports']['rmts'] = {'w': 'none'}, {'w': 'remaining'}
            out.append({k: v for k, v in c.items() if k != '_info'})
            out.extend(f for f in G.faults(rng, c) if f.get('fault') in sel_faults)
        return out

    def impl(self, case):
        if case['op'] == 'build':
            from harness import gen_build as G
            return G.build_impl(case)
        use_repo_src()
        try:
            if case.get('helper'):
                import dznpy.adv_shell as A
                h = case['helper']
                if h.endswith('mixed_ts'):
                    cfg = getattr(A, h)(mk_select(case['cfg']['rsts']), mk_select(case['cfg']['rmts']))
                else:
                    cfg = getattr(A, h)()
            else:
                cfg = mk_portscfg(case['cfg'])
            before = selection_snapshot(cfg)
            m = cfg.match(set(case['prov']), set(case['req']))
        except Exception as e:  # noqa
            return {'err': err_tag(e)}
        first = sorted([[k, v.name] for k, v in m.value.items()])
        # the resolution is a function of the configuration and the port names: the user's selection objects are
        # the same after a match, and the same (reused) configuration object resolves the same ports the same way
        after = selection_snapshot(cfg)
        if after != before:
            return {'ok': first, 'selection_changed_by_match': {'before': before, 'after': after}}
        try:
            m2 = cfg.match(set(case['prov']), set(case['req']))
            second = sorted([[k, v.name] for k, v in m2.value.items()])
        except Exception as e:  # noqa
            second = {'err': err_tag(e)}
        if second != first:
            return {'ok': first, 'second_match_of_same_configuration': second}
        return {'ok': first}

    def valid(self, case):
        if case['op'] != 'build':
            for k in ('psts', 'pmts', 'rsts', 'rmts'):
                d = case.get('cfg', {}).get(k)
                if not isinstance(d, dict) or ('w' in d and d['w'] not in ('all', 'none', 'remaining')) or \
                        ('w' not in d and 'names' not in d):
                    return False
        return True

    def project(self, case, out):
        if case['op'] == 'build' and isinstance(out, dict) and 'ok' in out:
            # what C03 speaks about: which ports got an accessor, and of which strict-port type
            import re
            hh = out['ok']['files'][0]['contents']
            return {'ok': sorted(re.findall(r'::(Sts|Mts)<[^>]*> ((?:Provides|Requires)\w+)\(', hh))}
        return out

    def shape(self, case, impl_out):
        if case['op'] == 'build':
            return canon([case['src'], case['cfg']])
        return canon(case) if any('names' in v for v in case['cfg'].values()) else None

    def classify(self, case, impl_out):
        if case['op'] == 'build':
            return 'build:' + case.get('fault', 'valid') + '→' + impl_out.get('err', 'ok')
        return impl_out.get('err', 'ok:%d' % min(len(impl_out.get('ok', [])), 4))


PROP = C03()
