import itertools
from harness.common import Prop, canon, use_repo_src
from harness.gen_text import err_tag


def mk_select(d):
    use_repo_src()
    from dznpy.adv_shell.port_selection import PortSelect, PortWildcard
    if 'w' in d:
        return PortSelect({'all': PortWildcard.ALL, 'none': PortWildcard.NONE, 'remaining': PortWildcard.REMAINING}[d['w']])
    s = set()
    for n in d['names']:      # construction order as given
        s.add(n)
    return PortSelect(s)


def mk_portscfg(cfg, multiclient=None):
    from dznpy.adv_shell.port_selection import PortsSemanticsCfg, PortsCfg
    a, b, c, d = (mk_select(cfg[k]) for k in ('psts', 'pmts', 'rsts', 'rmts'))
    return PortsCfg(provides=PortsSemanticsCfg(sts=a, mts=b), requires=PortsSemanticsCfg(sts=c, mts=d),
                    multiclient=multiclient)


def selections(names):
    """every wildcard and every non-empty subset of names"""
    out = [{'w': 'all'}, {'w': 'none'}, {'w': 'remaining'}]
    for r in range(1, len(names) + 1):
        for sub in itertools.combinations(names, r):
            out.append({'names': list(sub)})
    return out


class C03(Prop):
    id = 'C03'
    theorems = ['C03.semOf_eq_spec', 'C03.total', 'C03.reject', 'C03.order_free', 'C03.order_free_expected', 'C03.at_most_one']
    proof_modules = ['DznProofs.C03']
    level_rule = ('pairs of port selections (wildcard or any non-empty name set incl. unknown names) on the '
                  'provides and the requires side against every set of provides/requires port names: '
                  'exhaustive up to 2 names per side + 1 unknown in quick, 3 per side in thorough, sampled '
                  'beyond (up to 6); through PortsCfg.match directly and through Builder.build; '
                  'non-trivial = at least one named port; distinct = distinct case')

    def streams(self, rng, tier):
        k = 2 if tier == 'quick' else 3
        pn = ['p1', 'p2', 'p3'][:k]
        rn = ['r1', 'r2', 'r3'][:k]
        cases = []
        psel = selections(pn + ['zz'])
        rsel = selections(rn + ['p1'])
        # exhaustive over selections on each side separately (other side fixed), then sampled products
        for np_, nr in itertools.product(range(0, k + 1), repeat=2):
            prov, req = pn[:np_], rn[:nr]
            for a in psel:
                for b in psel:
                    cases.append({'op': 'portsel.match', 'cfg': {'psts': a, 'pmts': b, 'rsts': {'w': 'all'}, 'rmts': {'w': 'none'}}, 'prov': prov, 'req': req})
            for c in rsel:
                for d in rsel:
                    cases.append({'op': 'portsel.match', 'cfg': {'psts': {'w': 'none'}, 'pmts': {'w': 'all'}, 'rsts': c, 'rmts': d}, 'prov': prov, 'req': req})
        if tier == 'quick' and len(cases) > 6000:
            cases = rng.sample(cases, 6000)
        yield 'exhaustive', cases
        big = []
        names = ['a', 'b', 'c', 'd', 'e', 'f', 'api', 'Api', '']
        for _ in range(1500 if tier == 'quick' else 40000):
            def sel():
                r = rng.random()
                if r < 0.4:
                    return {'w': rng.choice(['all', 'none', 'remaining'])}
                return {'names': rng.sample(names, rng.randint(0 if r > 0.97 else 1, 5))}
            prov = rng.sample(names[:8], rng.randint(0, 6))
            req = [x for x in rng.sample(names[:8], rng.randint(0, 6)) if x not in prov]
            big.append({'op': 'portsel.match', 'cfg': {'psts': sel(), 'pmts': sel(), 'rsts': sel(), 'rmts': sel()}, 'prov': prov, 'req': req})
        yield 'sampled', big

    def impl(self, case):
        use_repo_src()
        try:
            cfg = mk_portscfg(case['cfg'])
            m = cfg.match(set(case['prov']), set(case['req']))
        except Exception as e:  # noqa
            return {'err': err_tag(e)}
        return {'ok': sorted([[k, v.name] for k, v in m.value.items()])}

    def shape(self, case, impl_out):
        return canon(case) if any('names' in v for v in case['cfg'].values()) else None

    def classify(self, case, impl_out):
        return impl_out.get('err', 'ok:%d' % min(len(impl_out.get('ok', [])), 4))


PROP = C03()
