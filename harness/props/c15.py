import json
from harness.common import Prop, canon, scale
from harness import gen_models as M


class C15(Prop):
    id = 'C15'
    theorems = ['C15.no_internal', 'C15.out_event_refused', 'C15.parse_event_out_ok', 'C15.bad_event_refused', 'C15.bad_interface_refused', 'C15.bad_document_refused', 'C15.jBadElems_le']
    proof_modules = ['DznProofs.C15', 'DznProofs.C15Input']
    level_rule = ('mutation stream: 1-3 faults (delete / retype / retag / re-direct any node) applied to '
                  'well-formed documents, plus arbitrary JSON values as root; non-trivial = the mutated '
                  'document differs from its well-formed origin; distinct = distinct document')
    assumptions = ['orjson as loader: 64-bit integers, nesting <= 1024 (A-5)',
                   'interpreter stack depth is not modelled: generators keep namespace nesting <= 40 '
                   '(see known finding K-1)']

    def streams(self, rng, tier):
        n = 3000 if tier == 'quick' else scale(150000)
        roots = [None, True, 0, 1.5, 'x', [], {}, {'<class>': 'root'}, {'<class>': 'root', 'elements': []},
                 {'<class>': 'root', 'elements': [], 'working-directory': 5},
                 {'<class>': 'root', 'elements': [{'<class>': 5}], 'working-directory': ''},
                 {'<class>': 'root', 'elements': [{}], 'working-directory': ''},
                 {'<class>': 'root', 'comment': 3, 'elements': [], 'working-directory': ''},
                 {'<class>': 'root', 'comment': {'<class>': 'comment', 'string': 's'}, 'elements': [[], 3, None], 'working-directory': ''}]
        yield 'roots', [{'op': 'parse', 'ast': r} for r in roots]
        # deepest namespace nesting the JSON loader accepts (orjson refuses > ~509 levels)
        deep = [{'k': 'enum', 'name': ['E'], 'fields': []}]
        for _ in range(505):
            deep = [{'k': 'namespace', 'name': ['N'], 'elems': deep}]
        yield 'deep', [{'op': 'parse', 'ast': M.enc_root(deep), 'noshrink': True}]
        muts = []
        for _ in range(n):
            doc = M.enc_root(M.gen_file(rng, maxdepth=rng.choice([1, 2, 4]), n=rng.randint(1, 5)))
            muts.append({'op': 'parse', 'ast': M.mutate(rng, doc, rng.randint(1, 3)), 'mutated': True})
        yield 'mutations', muts
        # an element the parser skips (unknown <class>) must be skipped whatever else is wrong with it: every field of
        # a declaration retyped in turn, on an element retagged to something the parser does not know
        skipped = []
        import copy as _copy
        for _ in range(n // 4):
            doc = M.enc_root(M.gen_file(rng, maxdepth=rng.choice([1, 2]), n=rng.randint(1, 4)))
            paths = [p for p in M.all_paths(doc) if p and p[-1] != '<class>' and len(p) >= 2 and p[-2] == 'elements'
                     and isinstance(M.get_at(doc, p), dict) and '<class>' in M.get_at(doc, p)]
            if not paths:
                continue
            p = rng.choice(paths)
            el = M.get_at(doc, p)
            for key in [k for k in el if k != '<class>']:
                d2 = _copy.deepcopy(doc)
                e2 = M.get_at(d2, p)
                e2['<class>'] = rng.choice(['bogus', 'import', 'file-name', 'comment', 'Component'])
                e2[key] = _copy.deepcopy(rng.choice(M.RETYPES))
                skipped.append({'op': 'parse', 'ast': d2, 'mutated': True})
        yield 'skipped-elements', skipped
        outs = []
        for _ in range(n // 5):
            ev = {'name': 'E', 'reply': rng.choice([['void'], ['void'], ['bool'], ['A', 'B'], ['void', 'x'], ['x', 'void'], ['void', 'void'], ['My', 'Ns', 'void'], ['Void'], ['void_t']]),
                  'formals': [M.gen_formal(rng, M.IDS) for _ in range(rng.randint(0, 3))], 'dir': 'out'}
            src = [{'k': 'namespace', 'name': ['N'], 'elems': [{'k': 'interface', 'name': ['I'], 'types': [], 'events': [ev]}]}]
            outs.append({'op': 'parse', 'ast': M.enc_root(src)})
        yield 'out-events', outs

    def impl(self, case):
        return M.parse_real(case['ast'])

    def shape(self, case, impl_out):
        return canon(case['ast'])

    def classify(self, case, impl_out):
        return impl_out.get('err', 'ok')

    def witnesses(self):
        return []


PROP = C15()
