import hashlib
import json
import os
import subprocess
import sys
from concurrent.futures import ThreadPoolExecutor

from harness.common import Prop, canon, VERIF, evaluate, scale
from harness import gen_build as G
from harness import gen_models as M


def strip(c):
    return {k: v for k, v in c.items() if k != '_info'}


def run_child(cases, hashseed, shuffle, cwd_mode=0):
    env = dict(os.environ)
    env['PYTHONHASHSEED'] = str(hashseed)
    env['VERIF_CHILD_SHUFFLE'] = str(shuffle)
    env['VERIF_CHILD_CWD'] = str(cwd_mode)
    p = subprocess.run([sys.executable, os.path.join(VERIF, 'harness', 'child_build.py')],
                       input=json.dumps(cases).encode(), stdout=subprocess.PIPE, stderr=subprocess.PIPE, env=env,
                       timeout=600)
    if p.returncode != 0:
        raise RuntimeError('child failed: ' + p.stderr.decode()[-400:])
    return json.loads(p.stdout)


class C08(Prop):
    id = 'C08'
    theorems = ['C08.sorted_perm', 'C08.semcfg_str_perm', 'C08.semOf_perm', 'C08.strLines_perm', 'C08.matchAll_perm', 'C08.build_cfg_order_free', 'C08.ports_order_free', 'C08.matchPorts_ok_order_free', 'C08.md5_rfc1321_vectors']
    proof_modules = ['DznProofs.C08']
    level_rule = ('configurations whose port selections name 2-5 ports, built in child interpreters with '
                  'PYTHONHASHSEED 0..15 (quick) / 0..127 (thorough), each with a different construction order of '
                  'the equal sets, its own order of the builds within the process and its own working directory (model file absent / regular file / symbolic link to another name); sha256 of all files compared across children and with the Lean model; '
                  'GeneratedContent.hash compared with the model MD5; non-trivial = >=2 names in a selection; '
                  'distinct = distinct (model, configuration)')
    assumptions = ['determinism "across processes" is the absence of any other input of the model function; '
                   'the children exercise hash seed, set construction order and process identity']

    def widen(self, rng, c):
        """many ports of one direction: an existing port is cloned under further names, selections name 5-9 of them
        (long lists are where an abbreviation, a slice or a dict/set round trip of the names shows)"""
        side = rng.choice(['requires', 'provides'])
        src_ports = [p for p in c['_info']['ports'] if p['dir'] == side and not p['injected']]
        if not src_ports:
            return c
        comp = G.find_elem(c['src'], lambda e: e['k'] in ('component', 'system'))
        have = {p['name'] for p in c['_info']['ports']}
        extra = [n for n in rng.sample(['buzzer', 'fan', 'heater', 'lamp', 'sensor', 'timer', 'valve', 'zz9', 'Alpha', 'b_2', 'motor'], 9)
                 if n not in have][:rng.randint(4, 8)]
        proto_i = src_ports[0]
        proto_s = next(p for p in comp['ports'] if p['name'] == proto_i['name'])
        for n in extra:
            comp['ports'].append(dict(proto_s, name=n))
            c['_info']['ports'].append(dict(proto_i, name=n))
        c['ast'] = M.enc_root(G.strip_private(c['src']))
        names = [p['name'] for p in c['_info']['ports'] if p['dir'] == side and not p['injected']]
        k = rng.randint(5, len(names)) if len(names) >= 5 else len(names)
        a = rng.sample(names, k)
        b = [x for x in names if x not in a]
        ks, km = ('rsts', 'rmts') if side == 'requires' else ('psts', 'pmts')
        if side == 'requires' and b and rng.random() < 0.5:
            c['cfg']['ports'][ks], c['cfg']['ports'][km] = {'names': a}, {'names': b}
        elif side == 'requires':
            c['cfg']['ports'][ks], c['cfg']['ports'][km] = rng.choice([({'names': a}, {'w': 'remaining'}), ({'w': 'remaining'}, {'names': a})])
        else:
            c['cfg']['ports'][ks], c['cfg']['ports'][km] = rng.choice([({'names': names}, {'w': 'none'}), ({'w': 'none'}, {'names': names})])
        return c

    def gen_named_case(self, rng):
        if rng.random() < 0.3:
            for _ in range(50):
                c = G.gen_case(rng, want_mc=False)
                if c['_info']['ports']:
                    return strip(self.widen(rng, c))
        for _ in range(200):
            c = G.gen_case(rng, want_mc=False)
            if rng.random() < 0.5:
                # port names that differ only in case / sort differently under other collations
                ren = dict(zip([p['name'] for p in c['_info']['ports'] if p['dir'] == 'requires'],
                               rng.sample(['logOut', 'logout', 'LOGOUT', 'Zeta', 'alpha', 'a_b', 'aB'], 7)))
                comp = G.find_elem(c['src'], lambda e: e['k'] in ('component', 'system'))
                for p in comp['ports']:
                    p['name'] = ren.get(p['name'], p['name'])
                for p in c['_info']['ports']:
                    p['name'] = ren.get(p['name'], p['name'])
                c['ast'] = M.enc_root(c['src'])
                for k in ('rsts', 'rmts'):
                    if 'names' in c['cfg']['ports'][k]:
                        c['cfg']['ports'][k]['names'] = [ren.get(x, x) for x in c['cfg']['ports'][k]['names']]
            req = [p['name'] for p in c['_info']['ports'] if p['dir'] == 'requires' and not p['injected']]
            prov = [p['name'] for p in c['_info']['ports'] if p['dir'] == 'provides']
            if len(req) >= 2:
                k = rng.randint(1, len(req) - 1) if len(req) > 2 else 1
                a = rng.sample(req, k)
                b = [x for x in req if x not in a]
                if rng.random() < 0.5 and len(b) >= 1:
                    c['cfg']['ports']['rsts'], c['cfg']['ports']['rmts'] = {'names': a}, {'names': b}
                else:
                    big = a + b if rng.random() < 0.5 else a
                    if len(big) < 2:
                        big = a + b
                    c['cfg']['ports']['rsts'], c['cfg']['ports']['rmts'] = {'names': big}, {'w': 'remaining'}
                if len(prov) >= 2 and rng.random() < 0.7:
                    if rng.random() < 0.5:
                        c['cfg']['ports']['psts'], c['cfg']['ports']['pmts'] = {'names': list(prov)}, {'w': 'none'}
                    else:
                        c['cfg']['ports']['psts'], c['cfg']['ports']['pmts'] = {'w': 'none'}, {'names': list(prov)}
                return strip(c)
        return strip(c)

    def streams(self, rng, tier):
        n = 40 if tier == 'quick' else scale(800)
        self._cases = [self.gen_named_case(rng) for _ in range(n)]
        yield 'in-process', self._cases
        md5 = []
        special = []
        for k, c in enumerate(self._cases[:2]):
            # contents outside ASCII: the hash is the MD5 of the UTF-8 bytes, nothing more
            c2 = json.loads(json.dumps(c))
            c2['cfg']['copyright'] = ['Copyright \u00a9 2024 Zo\u00eb M\u00fcller', '\u7248\u6743 \U0001F600'][k]
            c2['cfg']['creator'] = 'cr\u00e9ateur'
            special.append(c2)
        for c in special + self._cases[:10]:
            r = G.build_real(c)
            if isinstance(r, tuple):
                for f in r[1].files[:3]:
                    md5.append({'op': 'build.md5', 's': f.contents, '_hash': f.hash})
        md5 += [{'op': 'build.md5', 's': s, '_hash': hashlib.md5(s.encode()).hexdigest()} for s in ['', 'abc', 'é€😀', 'x' * 200]]
        yield 'md5', md5
        # equal inputs, another past: the same Builder object (and parsed model) was first asked for something it
        # refused - a faulty variation of the same case - and is then asked for the valid case
        after = []
        for c in self._cases[:max(10, n // 2)]:
            for kind in rng.sample(['unknown-encapsulee', 'unknown-port-name', 'bogus-multiclient'], 2):
                f = json.loads(json.dumps(c))
                if kind == 'unknown-encapsulee':
                    f['cfg']['encapsulee'] = f['cfg']['encapsulee'] + ['Nope']
                elif kind == 'unknown-port-name':
                    f['cfg']['ports']['rsts'] = {'names': ['nope_port']}
                else:
                    f['cfg']['multiclient'] = {'port': 'nope', 'claim': 'c', 'grant': ['X'], 'release': 'r'}
                f['expect'] = 'any'
                d = json.loads(json.dumps(c))
                d['after_refused'] = f
                after.append(d)
        yield 'after-a-refusal', after

    def impl(self, case):
        if case['op'] == 'build.md5':
            return case['_hash']
        if case.get('after_refused'):
            shared = {}
            G.build_impl(case['after_refused'], shared=shared)       # refused (or not): its outcome is not the point
            return G.build_impl(case, shared=shared)
        return G.build_impl(case)

    def project(self, case, out):
        # the byte-for-byte comparison is the one across child interpreters (extra); against the Lean model the
        # code of the files is compared
        from harness.common import code_projection
        return code_projection(out) if case.get('op') == 'build' else out

    def shape(self, case, impl_out):
        if case['op'] != 'build':
            return canon(case)[:200]
        named = [v for v in case['cfg']['ports'].values() if 'names' in v and len(v['names']) >= 2]
        return canon([case['src'], case['cfg']]) if named else None

    def classify(self, case, impl_out):
        if case['op'] != 'build':
            return 'md5'
        return impl_out.get('err', 'ok')

    def extra(self, ctx):
        tier = ctx['tier']
        seeds = list(range(16 if tier == 'quick' else 128))
        cases = self._cases
        with ThreadPoolExecutor(max_workers=16) as ex:
            results = list(ex.map(lambda h: run_child(cases, h, h, h % 3), seeds))
        # model output (order as given in the case)
        recs = evaluate(self, cases)
        failures, disagreements, shapes = [], [], []
        orders_seen = set()
        for i, c in enumerate(cases):
            per_child = [r[i] for r in results]
            sigs = set(canon(pc.get('files', pc.get('err'))) for pc in per_child)
            for pc in per_child:
                orders_seen.add(canon([i, pc['orders']]))
            if len(sigs) > 1:
                # find two children that differ and the first differing file
                a = per_child[0]
                b = next(pc for pc in per_child if canon(pc.get('files', pc.get('err'))) != canon(a.get('files', a.get('err'))))
                failures.append({'case': c, 'impl': {'child_a': a, 'child_b': b}, 'model': None,
                                 'failed': ['output-depends-on-hash-seed-set-order-or-process-history'], 'noshrink': True})
                continue
            m = recs[i]['model']
            if m is None or 'ok' not in m:
                if 'err' in per_child[0] and m is not None and m.get('err') == per_child[0]['err']:
                    continue
                disagreements.append({'case': c, 'impl': per_child[0], 'model': m, 'failed': [], 'noshrink': True})
                continue
            # the children (hash seeds, orders, working directories) are compared byte for byte above; the Lean model is
            # an extra witness, compared on the code of the files (a reworded comment in the generator is no deviation)
            from harness.common import code_of
            msig = [[f['name'], hashlib.sha256('\n'.join(code_of(f['contents'])).encode('utf-8')).hexdigest()] for f in m['ok']['files']]
            isig = [[f[0], f[3]] if len(f) > 3 else [f[0], f[1]] for f in per_child[0].get('files', [])]
            if msig != isig:
                disagreements.append({'case': c, 'impl': per_child[0], 'model': 'sha256 of model files differs', 'failed': [], 'noshrink': True})
            shapes.append(canon(['children', i]))
        return {'failures': failures, 'disagreements': disagreements, 'evaluations': len(cases) * len(seeds),
                'shapes': shapes,
                'coverage': {'hash_seeds': len(seeds), 'child_interpreters': len(seeds),
                             'distinct_set_iteration_orders_observed': len(orders_seen)}}


PROP = C08()
