import re
from concurrent.futures import ThreadPoolExecutor

from harness.common import Prop, canon, case_hash, run_driver, scale
from harness.progprop import ProgProp
from harness import gen_build as G
from harness import cxx_run as X


class C11(ProgProp):
    id = 'C11'
    want_mc = True
    wrapper_stream = (150, 4000)
    theorems = ['C11.minv_step', 'C11.mutex_reachable', 'C11.selection_access_under_lock', 'C11.acquire_exclusive',
                'C11.raii', 'C11.winv_step', 'C11.no_deadlock', 'C11.holder_witness', 'C11.wrapper_order',
                'C11.hinv_step', 'C11.holder_specified', 'C04.release_reaction_reaches_holder']
    partial = [('C11.holder', 'a granted client receives the out-events until it releases: false of the current code under '
                'the schedule in which another client\'s delayed Deselect runs after the new holder\'s Select (finding D-9; '
                'negation proved on a 19-step schedule by decide); for the specified Deselect (clear only the '
                'caller\'s own selection) the clause is proved for every number of threads and every schedule: '
                'C11.holder_specified'),
               ('C11.memory_model', 'C++ memory model, std::mutex itself, the real dzn::pump and blocking user handlers are '
                'not exhibited by the model; data-race freedom is sampled with ThreadSanitizer on the real shell')]
    proof_modules = ['DznProofs.C11', 'DznProofs.C11Holder', 'DznProofs.C04React']
    level_rule = ('real multi-client shells compiled with a threaded mock pump (-DVT_THREADED), 2-3 client threads running '
                  'claim/use/release cycles against an arbiter component while the dispatcher thread raises out-events; '
                  'random schedules from the OS with seeded pauses; g++ runs checked against the holder specification on '
                  'the log, clang++ ThreadSanitizer runs checked for data races; timeouts count as deadlock; '
                  'non-trivial = run with >=1 granted claim and >=1 delivered out-event; distinct = distinct (program, seed); '
                  'plus a text-level stream over generated multi-client shells (release events with a reply included, which '
                  'cannot be compiled on the current tree: K-5): full-text correspondence with the model and the '
                  'step-order clauses of the per-client wrappers (forward to the component first, then Select on a '
                  'granting reply / Deselect) that the interleaving model is built on')
    assumptions = ProgProp.assumptions + [
        'the OS scheduler chooses the interleavings (seeded pauses only bias it): the runs sample schedules, the '
        'theorems cover all of them for the model']

    def extra(self, ctx):
        rng, tier = ctx['rng'], ctx['tier']
        known = {k['id']: k for k in ctx['known']}
        nprog = 4 if tier == 'quick' else scale(32)
        runs_per = 6 if tier == 'quick' else scale(60)
        cases = []
        tries = 0
        while len(cases) < nprog and tries < 2000:
            tries += 1
            c = self.gen_case(rng)
            mc = c['cfg']['multiclient']
            if not mc:
                continue
            p, itf = X.port_events(c['_info'], mc['port'])
            if not [e for e in itf['events'] if e['dir'] == 'out']:
                continue
            claim = next(e for e in itf['events'] if e['name'] == mc['claim'])
            if len(claim['_reply']['fields']) < 2:
                continue          # the arbiter needs a denying value different from the granting one
            cases.append(c)
        irs = [X.model_ir(c) for c in cases]
        progs_g = [X.Program(c, extra_flags=['-DVT_THREADED']) for c in cases]
        progs_t = [X.Program(c, sanitize='tsan', extra_flags=['-DVT_THREADED']) for c in cases[:max(1, nprog // 2)]]
        with ThreadPoolExecutor(max_workers=16) as ex:
            list(ex.map(lambda pi: pi[0].build(pi[1]), list(zip(progs_g, irs)) + list(zip(progs_t, irs))))
        failures, disagreements, known_hits, shapes = [], [], [], []
        nruns = delivered_total = 0
        try:
            for kind, progs in (('g++', progs_g), ('tsan', progs_t)):
                for c, p in zip(cases, progs):
                    if not p.ok:
                        disagreements.append({'case': X.strip(c), 'impl': {'build_ok': False, 'log': p.log[-1200:]}, 'model': None,
                                              'failed': [], 'noshrink': True})
                        continue
                    mc = p.spec['multiclient']
                    info = c['_info']
                    port, itf = X.port_events(info, mc['port'])
                    claim = next(e for e in itf['events'] if e['name'] == mc['claim'])
                    g = claim['_reply']['fields'].index(mc['grant'][-1])
                    deny = next(i for i in range(len(claim['_reply']['fields'])) if i != g)
                    for r in range(runs_per if kind == 'g++' else max(2, runs_per // 3)):
                        seed = rng.randint(1, 10 ** 6)
                        clients = rng.sample(['alice', 'bob', 'carol'], rng.choice([2, 2, 3]))
                        origin = c['cfg']['origin']
                        script = ['world pump=1 runtime=1 extra=0 name=mc' if origin == 'import' else 'world pump=0 runtime=0 extra=0 name=mc']
                        script += [f'client {mc["port"]} {x}' for x in clients]
                        script += ['bind', 'final 0', f'arbiter {mc["port"]} {mc["claim"]} {mc["release"]} {g} {deny}',
                                   f'conc cycles={rng.choice([5, 20, 40])} outs={rng.choice([10, 40, 80])} seed={seed} clients={",".join(clients)}']
                        rc, tr, err = p.run(script, timeout=60.0)
                        nruns += 1
                        shapes.append(case_hash([c['src'], c['cfg'], seed, kind]))
                        failed, known_msgs, ndel = self.check_log(tr, rc, err, g, kind)
                        delivered_total += ndel
                        rec = {'case': dict(X.strip(c), script=script, build=kind), 'impl': {'rc': rc, 'stderr': err[-800:], 'trace_tail': tr[-30:]},
                               'model': None, 'failed': failed, 'noshrink': True}
                        if failed:
                            failures.append(rec)
                        for m in known_msgs[:1]:
                            if 'D-9c' in known:
                                known_hits.append((known['D-9c'], dict(rec, what=m)))
                            else:
                                rec2 = dict(rec)
                                rec2['failed'] = [m]
                                failures.append(rec2)
        finally:
            for p in progs_g + progs_t:
                p.cleanup()
        # the proved witness schedule of the model is replayed through the driver-independent model only;
        # the recorded race is additionally searched for on real threads above (known_hits)
        return self.add_wrapper_stream(ctx, {
                'failures': failures, 'disagreements': disagreements, 'known_hits': known_hits, 'evaluations': nruns,
                'shapes': shapes, 'coverage': {'programs': len(cases), 'threaded_runs': nruns,
                                                'tsan_programs': len(progs_t), 'out_events_delivered': delivered_total}})

    @staticmethod
    def check_log(tr, rc, err, grant, kind):
        failed, known = [], []
        if rc is None:
            return ['deadlock-or-livelock: the run did not finish within the time limit'], known, 0
        if rc != 0:
            failed.append(f'program crashed rc={rc}: {err[-200:]}')
        if 'ThreadSanitizer' in err:
            failed.append('data race reported by ThreadSanitizer: ' + err[err.find('WARNING'):][:300])
        if not any(l.startswith('conc done') for l in tr):
            failed.append('conc did not complete: ' + ' | '.join(tr[-3:]))
        if any(re.match(r't \w+ exc ', l) or re.match(r'o \d+ exc ', l) for l in tr):
            failed.append('exception in a thread: ' + next(l for l in tr if ' exc ' in l))
        # windows in which a client definitely holds the claim (log-conservative)
        holding = {}      # id -> index of the claim-granted line
        windows = []      # (id, start, end)
        for i, l in enumerate(tr):
            m = re.match(r't (\w+) claim ret=(-?\d+)$', l)
            if m and int(m.group(2)) == grant:
                holding[m.group(1)] = i
            m = re.match(r't (\w+) release-begin$', l)
            if m and m.group(1) in holding:
                windows.append((m.group(1), holding.pop(m.group(1)), i))
        # a client can only be the recipient of an out-event while it possibly holds the claim: from the start of a
        # claim call until that claim was refused, or until the release of the granted claim has returned
        possibly = {}     # id -> list of (start, end)
        open_at = {}
        for i, l in enumerate(tr):
            m = re.match(r't (\w+) claim-begin$', l)
            if m:
                open_at[m.group(1)] = i
            m = re.match(r't (\w+) claim ret=(-?\d+)$', l)
            if m and int(m.group(2)) != grant and m.group(1) in open_at:
                possibly.setdefault(m.group(1), []).append((open_at.pop(m.group(1)), i))
            m = re.match(r't (\w+) release-end$', l)
            if m and m.group(1) in open_at:
                possibly.setdefault(m.group(1), []).append((open_at.pop(m.group(1)), i))
        for cid, a in open_at.items():
            possibly.setdefault(cid, []).append((a, len(tr)))
        if any(re.match(r't \w+ claim-begin$', l) for l in tr):
            for i, l in enumerate(tr):
                mm = re.match(r'obs env@(\w+) ', l)
                if mm and not any(a <= i <= b for a, b in possibly.get(mm.group(1), [])):
                    failed.append(f'an out-event was delivered to {mm.group(1)} (trace line {i}) although it certainly did not hold the '
                                  'claim at that moment: no claim of it was in progress or granted-and-not-yet-released')
                    break
        ndel = 0
        i = 0
        while i < len(tr):
            m = re.match(r'o (\d+) begin$', tr[i])
            if m:
                j = i + 1
                rcpt = []
                while j < len(tr) and not re.match(r'o %s end$' % m.group(1), tr[j]):
                    mm = re.match(r'obs env@(\w+) ', tr[j])
                    if mm:
                        rcpt.append(mm.group(1))
                    j += 1
                ndel += len(rcpt)
                if len(rcpt) > 1:
                    failed.append(f'out-event {m.group(1)} delivered to more than one client: {rcpt}')
                for (cid, a, b) in windows:
                    if a < i and j < b:
                        if rcpt == [cid]:
                            pass
                        elif rcpt == []:
                            # who cleared the selection?  The recorded race D-9c is exactly: another client x is inside
                            # its RELEASE (between `t x release-begin` and `t x release-end`; the selector logs
                            # `Deselect/x` at entry, the reset happens later under the lock) at some moment after the
                            # holder's own `Select/<cid>` log line and before the lost out-event.  Anything else - a
                            # Deselect that is not part of a release (e.g. after a refused claim), or no foreign
                            # release in flight at all - is not the recorded finding.
                            sel_at = a
                            for k in range(a, -1, -1):
                                if re.match(r'log (?:.*/)?Select/%s$' % cid, tr[k]):
                                    sel_at = k
                                    break
                            foreign_release = False
                            open_rel = {}
                            for k in range(0, i):
                                mm = re.match(r't (\w+) release-begin$', tr[k])
                                if mm:
                                    open_rel[mm.group(1)] = k
                                mm = re.match(r't (\w+) release-end$', tr[k])
                                if mm and mm.group(1) in open_rel:
                                    if mm.group(1) != cid and k > sel_at:
                                        foreign_release = True
                                    del open_rel[mm.group(1)]
                            if any(x != cid for x in open_rel):
                                foreign_release = True
                            if foreign_release:
                                known.append(f'out-event {m.group(1)} raised while {cid} held the claim reached nobody (a delayed Deselect of another client cleared the selection)')
                            else:
                                failed.append(f'out-event {m.group(1)} raised while {cid} held the claim reached nobody although no other client '
                                              'was releasing: the selection was cleared outside a release')
                        else:
                            failed.append(f'out-event {m.group(1)} raised while {cid} held the claim was delivered to {rcpt}')
                i = j
            i += 1
        return failed, known, ndel


PROP = C11()
