from harness.common import Prop, canon
from harness import gen_text as G


class C19(Prop):
    id = 'C19'
    theorems = ['C19.line_spec', 'C19.prefix_spec', 'C19.render_spec', 'C19.starts_with_slashes',
                'C19.content_rendering', 'C19.length_preserved']
    proof_modules = ['DznProofs.C19']
    level_rule = ('hostile comment text: every Python line separator, leading/trailing whitespace, '
                  '*/, trailing backslash, #include lines, NBSP, nested content incl. nested '
                  'TextBlock/Comment objects; non-trivial = text with a separator, code-like token '
                  'or nesting; distinct = distinct case hash')

    def streams(self, rng, tier):
        n = 800 if tier == 'quick' else 30000
        corpus = [
            {'op': 'comment.str', 'content': {'l': [{'s': 'a  '}, {'s': ''}, {'s': '  b'}, {'s': ' '}]}},
            {'op': 'comment.str', 'content': {'s': 'Copyright\n\n  (c) me\r\n#include <evil>\x0bint main(){}\x85*/ x \\'}},
            {'op': 'comment.str', 'content': {'n': None}},
            {'op': 'comment.str', 'content': {'l': [{'cm': {'s': 'nested'}}, {'tb': {'c': {'s': 'x\n'}, 'h': {'s': 'H'}}}]}},
        ]
        yield 'corpus', corpus
        yield 'comment', [{'op': 'comment.str', 'content': G.gen_content(rng, rng.choice([0, 2, 4]))}
                          for _ in range(n)]

    def impl(self, case):
        return G.run_text_op(case)

    def shape(self, case, impl_out):
        s = canon(case)
        return s if any(b in s for b in ['\\n', '\\r', '\\u', '{"l"', '#', '*/', '\\\\']) else None

    def classify(self, case, impl_out):
        n = len(impl_out.get('before', []))
        return 'lines:' + ('0' if n == 0 else '1' if n == 1 else 'n')


PROP = C19()
