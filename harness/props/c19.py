from harness.common import Prop, canon, scale
from harness import gen_text as G


class C19(Prop):
    id = 'C19'
    theorems = ['C17.hist_comment', 'C17.observation_is_pure', 'C17.step2_frame', 'C17.clone_equal', 'C17.clone_independent', 'C19.files_code_independent', 'C19.code_ignores_leading_comment', 'C19.line_spec', 'C19.prefix_spec', 'C19.render_spec', 'C19.starts_with_slashes',
                'C19.content_rendering', 'C19.length_preserved']
    proof_modules = ['DznProofs.C19', 'DznProofs.C19Files', 'DznProofs.C17Hist']
    level_rule = ('hostile comment text: every Python line separator, leading/trailing whitespace, '
                  '*/, trailing backslash, #include lines, NBSP, nested content incl. nested '
                  'TextBlock/Comment objects; non-trivial = text with a separator, code-like token '
                  'or nesting; distinct = distinct case hash')

    def streams(self, rng, tier):
        n = 2000 if tier == 'quick' else scale(120000)
        corpus = [
            {'op': 'comment.str', 'content': {'l': [{'s': 'a  '}, {'s': ''}, {'s': '  b'}, {'s': ' '}]}},
            {'op': 'comment.str', 'content': {'s': 'Copyright\n\n  (c) me\r\n#include <evil>\x0bint main(){}\x85*/ x \\'}},
            {'op': 'comment.str', 'content': {'n': None}},
            {'op': 'comment.str', 'content': {'l': [{'cm': {'s': 'nested'}}, {'tb': {'c': {'s': 'x\n'}, 'h': {'s': 'H'}}}]}},
        ]
        yield 'corpus', corpus
        yield 'comment', [{'op': 'comment.str', 'content': G.gen_content(rng, rng.choice([0, 2, 4]))}
                          for _ in range(n)]
        yield 'extended', [{'op': 'comment.str', 'content': G.gen_content(rng, rng.choice([0, 2])),
                            'extend': G.gen_content(rng, rng.choice([0, 1, 2]))} for _ in range(n // 2)]
        yield 'comment.hist', [G.gen_hist(rng, comment=True) for _ in range(n // 2)]
        yield 'blocks.hist2', [G.gen_hist2(rng) for _ in range(n // 4)]

    def impl(self, case):
        return G.run_text_op(case)

    def extra(self, ctx):
        """generated files: changing only copyright / creator information changes nothing but comment lines"""
        from harness import gen_build as GB
        from harness.common import case_hash
        rng, tier = ctx['rng'], ctx['tier']
        n = 100 if tier == 'quick' else scale(4000)
        hostile = ['', 'Copyright (c) X', 'a\n\n  b  \n', '*/ int evil();', '#include <evil>\x0bint main(){}\x85x',
                   'line1\rline2\r\nline3', '  \t ', 'trailing backslash \\', '\u2028x\u2029y', '// already',
                   '// first line only\nint evil();', '  // x\n#define final\n', '//\n};struct Oops{', '/* a */\nint y;', '//a\r\nint z;']
        from harness import gen_text as GT
        hostile = hostile + [GT.gen_str(rng) for _ in range(12)] + ['//' + GT.gen_str(rng) for _ in range(6)]

        def code(contents):
            return [l for l in contents.splitlines() if l.strip() and not l.lstrip().startswith('//')]
        failures, shapes = [], []
        evals = 0
        for _ in range(n):
            c = GB.gen_case(rng)
            a = {k: v for k, v in c.items() if k != '_info'}
            b = __import__('json').loads(__import__('json').dumps(a))
            b['cfg']['copyright'] = rng.choice(hostile)
            b['cfg']['creator'] = rng.choice(hostile + [None])
            ra, rb = GB.build_impl(a), GB.build_impl(b)
            evals += 1
            shapes.append(case_hash([a['ast'], a['cfg'], b['cfg']['copyright'], b['cfg']['creator']]))
            if 'ok' not in ra or 'ok' not in rb:
                if ('ok' in ra) != ('ok' in rb):
                    failures.append({'case': b, 'impl': {'a': ra.get('err', 'ok'), 'b': rb.get('err', 'ok')}, 'model': None,
                                     'failed': ['copyright/creator text changes the outcome of the build'], 'noshrink': True})
                continue
            for fa, fb in zip(ra['ok']['files'], rb['ok']['files']):
                if fa['name'] != fb['name'] or code(fa['contents']) != code(fb['contents']):
                    failures.append({'case': b, 'impl': {'file': fa['name'], 'code_a': code(fa['contents'])[:5], 'code_b': code(fb['contents'])[:5]},
                                     'model': None, 'failed': ['copyright/creator text changed non-comment lines of ' + fa['name']],
                                     'noshrink': True})
                    break
        return {'failures': failures, 'disagreements': [], 'evaluations': evals, 'shapes': shapes,
                'coverage': {'build_pairs': evals}}

    def shape(self, case, impl_out):
        s = canon(case)
        return s if any(b in s for b in ['\\n', '\\r', '\\u', '{"l"', '#', '*/', '\\\\']) else None

    def classify(self, case, impl_out):
        if isinstance(impl_out, list):
            return 'hist:%d' % len(impl_out)
        n = len(impl_out.get('before', []))
        return 'lines:' + ('0' if n == 0 else '1' if n == 1 else 'n')


PROP = C19()
