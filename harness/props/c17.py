from harness.common import Prop, canon, scale
from harness import gen_text as G


class C17(Prop):
    id = 'C17'
    theorems = ['C17.lines_eq_pieces', 'C17.no_break', 'C17.splitlines_no_break',
                'C17.splitlines_join', 'C17.str_spec', 'C17.roundtrip', 'C17.append_concat',
                'C17.add_concat', 'C17.trim_spec', 'C17.chunk_spec', 'C17.cond_chunk_spec',
                'C17.step_inv', 'C17.new_inv', 'C17.hist_no_break', 'C17.hist_str', 'C17.observation_is_pure',
                'C17.hist_append', 'C17.hist_trim', 'C17.step2_frame', 'C17.appendRef_lines', 'C17.clone_equal', 'C17.clone_independent']
    proof_modules = ['DznProofs.C17', 'DznProofs.C17Hist']
    level_rule = ('content trees from one PRNG: depth<=5 over str/int/bool/None/list/dict/TextBlock/'
                  'Comment/other objects, strings over an alphabet with every Python line boundary, '
                  'NBSP, tabs, empty and whitespace-only strings; ops tb.new/append/iadd/add/trim/'
                  'chunk/cond_chunk + raw splitlines/strip; one list/dict OBJECT occurring several times in a tree; histories of operations on one block object (tb.hist) and on 2-3 block objects handed to one another (tb.hist2), every step observed; a case is non-trivial when its content '
                  'has >=2 leaves or a line boundary; distinct = distinct case hash')
    assumptions = ['floats, tuples and lone surrogates are outside the modelled content domain '
                   '(generators never produce them)']

    def streams(self, rng, tier):
        n = 2000 if tier == 'quick' else scale(150000)
        corpus = [
            {'op': 'tb.new', 'content': {'s': ''}},
            {'op': 'tb.new', 'content': {'l': [{'s': 'a'}, {'s': ''}, {'n': None}, {'l': []}, {'d': []}, {'i': 0}, {'b': False}]}},
            {'op': 'tb.new', 'content': {'s': 'a\r\nb\rc\x0bd\x0ce\x1cf\x85g h'}},
            {'op': 'tb.new', 'content': {'l': [{'tb': {'c': {'l': []}}}, {'s': ' '}]}},
            {'op': 'tb.new', 'content': {'l': [{'cm': {'s': 'c'}}]}},
            {'op': 'tb.new', 'content': {'cm': {'s': 'c'}}},
            {'op': 'tb.new', 'content': {'s': 'x'}, 'header': {'s': 'H\nI'}},
            {'op': 'chunk', 'content': {'l': [{'s': ''}]}},
            {'op': 'chunk', 'content': {'tb': {'c': {'l': [{'s': ''}]}}}},
            {'op': 'chunk', 'content': {'s': 'a'}, 'appendix': {'n': None}},
            {'op': 'cond_chunk', 'preamble': {'cm': {'s': 'p'}}, 'content': {'l': [{'s': 's'}]}, 'empty': {'n': None}, 'aon': True},
            {'op': 'cond_chunk', 'preamble': {'s': 'p'}, 'content': {'l': []}, 'empty': {'s': 'e'}},
            {'op': 'tb.trim', 'content': {'l': [{'s': ''}, {'s': 'a'}, {'s': ''}, {'s': ''}]}},
            {'op': 'tb.trim', 'content': {'l': [{'s': ' '}, {'s': 'a'}, {'s': ' '}]}},
        ]
        yield 'corpus', corpus
        new, ops, chunks, py = [], [], [], []
        for _ in range(n):
            c = {'op': 'tb.new', 'content': G.gen_content(rng)}
            if rng.random() < 0.3:
                c['header'] = G.gen_content(rng, 2)
            new.append(c)
        for _ in range(n // 2):
            op = rng.choice(['tb.append', 'tb.iadd', 'tb.add'])
            ops.append({'op': op, 'a': G.gen_content(rng, 1), 'b': G.gen_content(rng, 1)})
        for _ in range(n // 4):
            ops.append({'op': 'tb.trim', 'content': {'l': [{'s': rng.choice(['', '', ' ', 'a', '\n', 'b\n\n'])} for _ in range(rng.randint(0, 6))]},
                        'end_only': rng.random() < 0.5})
        for _ in range(n // 2):
            c = {'op': 'chunk', 'content': G.gen_content(rng, 2)}
            if rng.random() < 0.5:
                c['appendix'] = G.gen_content(rng, 3)
            chunks.append(c)
            cc = {'op': 'cond_chunk', 'preamble': G.gen_content(rng, 3), 'content': G.gen_content(rng, 3),
                  'empty': G.gen_content(rng, 3), 'aon': rng.random() < 0.5}
            if rng.random() < 0.4:
                cc['appendix'] = G.gen_content(rng, 4)
            chunks.append(cc)
        for _ in range(n // 2):
            py.append({'op': rng.choice(['py.splitlines', 'py.strip']), 's': G.gen_str(rng)})
        yield 'tb.new', new
        yield 'tb.ops', ops
        yield 'chunk', chunks
        yield 'py', py
        yield 'tb.hist', [G.gen_hist(rng) for _ in range(n // 2)]
        yield 'tb.hist2', [G.gen_hist2(rng) for _ in range(n // 4)]

    def impl(self, case):
        return G.run_text_op(case)

    def shape(self, case, impl_out):
        s = canon(case)
        nontrivial = any(b in s for b in ['\\n', '\\r', '\\u', '{"l"', '{"tb"'])
        return s if nontrivial else None

    def classify(self, case, impl_out):
        if impl_out is None:
            return 'none'
        if isinstance(impl_out, dict) and 'lines' in impl_out:
            return 'lines:' + ('0' if not impl_out['lines'] else '1' if len(impl_out['lines']) == 1 else 'n')
        return 'value'


PROP = C17()
