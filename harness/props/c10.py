from harness.progprop import ProgProp
from harness import cxx_run as X


class C10(ProgProp):
    id = 'C10'
    theorems = ['C10.checkPort_none_iff', 'C10.checkPort_error', 'C10.detect_unbound_boundary', 'C10.detect_unbound_component', 'C10.detect_unbound_client', 'C10.locked_after_success', 'C10.all_bound_ok', 'C10.createFinalConstructFn_stmts', 'C10.stmtStep_cb', 'C10.stmtStep_fc', 'C10.build_final_stmts', 'C10.build_detects_unbound_boundary', 'C10.build_detects_unbound_component', 'C10.build_detects_unbound_client']
    proof_modules = ['DznProofs.C10', 'DznProofs.C10Gen']
    scripts_per_program = 1
    level_rule = ('compiled programs; scenarios: everything bound (final succeeds, parent recorded) and, for EVERY '
                  'event of every exposed port in its environment-duty direction, every registered client and every '
                  'component-side slot, that single slot left unbound (final must fail with a binding error); after '
                  'success no client can be registered; non-trivial = every scenario; distinct = distinct '
                  '(model, cfg, slot)')

    def gen_case(self, rng):
        # every second program: three or more exposed requires ports whose semantics alternate in
        # declaration order (MTS, STS, MTS, …) — FinalConstruct must still check each of them
        self._k = getattr(self, '_k', 0) + 1
        if self._k % 2:
            return super().gen_case(rng)
        for _ in range(400):
            c = super().gen_case(rng)
            req = [p['name'] for p in c['_info']['ports'] if p['dir'] == 'requires' and not p['injected']]
            if len(req) >= 3 and not c['cfg']['multiclient']:
                sts = req[1::2]
                c['cfg']['ports']['rsts'], c['cfg']['ports']['rmts'] = {'names': sts}, {'w': 'remaining'}
                return c
        return c

    def scenarios(self, case, spec):
        info = case['_info']
        origin = case['cfg']['origin']
        w = 'world pump=1 runtime=1 extra=0' if origin == 'import' else 'world pump=0 runtime=0 extra=0'
        mc = spec['multiclient']
        clients = ['alice', 'bob'] if mc else []
        out = []

        def base(world=w, skip=None, parent=1):
            ls = [world + ' name=inst']
            for c in clients:
                ls.append(f'client {mc["port"]} {c}')
            ls.append('bind' + (f' skip={skip}' if skip else ''))
            ls.append(f'final {parent}')
            if skip or 'skipcomp' in world:
                # "detects EVERY unbound event": a second attempt on the still unbound shell must fail again
                ls.append(f'final {parent}')
            return ls
        out.append(('all-bound', base()))
        out.append(('all-bound-noparent', base(parent=0)))
        for p in spec['encapsulee']['ports']:
            _p, itf = X.port_events(info, p['name'])
            for ev in itf['events']:
                comp_side = (p['dir'] == 'provides') == (ev['dir'] == 'in')
                if comp_side:
                    out.append((f'comp:{p["name"]}.{ev["dir"]}.{ev["name"]}', base(world=w + f' skipcomp={p["name"]}.{ev["dir"]}.{ev["name"]}')))
                elif p['sem'] is not None:
                    if p['multiclient']:
                        for c in clients:
                            out.append((f'env:{p["name"]}.{ev["dir"]}.{ev["name"]}@{c}', base(skip=f'{p["name"]}.{ev["dir"]}.{ev["name"]}@{c}')))
                    else:
                        out.append((f'env:{p["name"]}.{ev["dir"]}.{ev["name"]}', base(skip=f'{p["name"]}.{ev["dir"]}.{ev["name"]}')))
        return out

    def gen_scripts(self, rng, case, spec):
        self._sc = self.scenarios(case, spec)
        lines = []
        for _label, ls in self._sc:
            lines.extend(ls)
        mc = spec['multiclient']
        if mc:
            # after a successful final construction no client can be registered, existing ones still resolve
            lines.extend(self._sc[0][1])
            lines.append(f'client {mc["port"]} alice')
            lines.append(f'client {mc["port"]} zed')
            lines.append(f'ids {mc["port"]}')
        return [lines]

    def monitor(self, case, spec, script, segs):
        failed = []
        cur = None
        nfinal = 0
        labels = iter([l for l, _ls in self._sc])
        label = None
        tail = False
        for op, pre, term, post in segs:
            t = op.split(' ')
            if t[0] == 'world':
                nfinal = 0
                label = next(labels, None)
                if label is None:
                    tail = True
                if term != 'world ok':
                    failed.append(f'{op}: {term}')
            elif t[0] == 'final':
                if tail:
                    continue
                if label is not None and label.startswith('all-bound'):
                    want = 'final ok parent=' + t[1]
                    if term != want:
                        failed.append(f'[{label}] {term} (want {want})')
                elif nfinal >= 1:
                    # the retry on the still unbound shell: it must not report success (on the unchanged code a
                    # multi-client selector that was already locked answers "Already final constructed")
                    if not (term or '').startswith('final exc '):
                        failed.append(f'[{label}] still unbound, but a second FinalConstruct() returned: {term}')
                else:
                    nfinal += 1
                    if not (term or '').startswith('final exc binding_error'):
                        failed.append(f'[{label}] left unbound but: {term}')
                    else:
                        slot = label.split(':', 1)[1].split('@')[0]
                        port, d, ev = slot.split('.')
                        if not term.endswith(f'.{d}.{ev}'):
                            failed.append(f'[{label}] binding error names another slot: {term}')
            elif tail and t[0] == 'client':
                if t[2] == 'alice' and term != 'client ok':
                    failed.append(f'existing client no longer resolves after final construction: {term}')
                if t[2] == 'zed' and not (term or '').startswith('client exc runtime_error'):
                    failed.append(f'a client could be registered after final construction: {term}')
        return failed


PROP = C10()
