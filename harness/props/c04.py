from harness.progprop import ProgProp, parse_obs, parse_ret
from harness import cxx_run as X


class C04(ProgProp):
    id = 'C04'
    want_mc = True
    wrapper_stream = (150, 4000)
    theorems = ['C04.refines_partial', 'C04.sound', 'C04.claim_not_granted_keeps_selection', 'C04.foreign_release_witness', 'C04.deliver_to_selected_only', 'C04.names_from_configuration', 'C04.cfg_checked', 'C04.refines_specified', 'C04.rules_agree', 'C04.frame_invoke_drain', 'C04.client_claim', 'C04.client_release', 'C04.deliver_to_selected', 'C04.deliver_to_nobody', 'C04.runOp_step', 'C04.history_refines', 'C04.history_delivery', 'C04.history_holder', 'C04.mc_wired', 'C04.mc_example', 'C04.createHelpers_inits', 'C04.registered', 'C04.register_all', 'C04.generated_mc_in_slots', 'C04.build_initPort', 'C04.build_mc_wired', 'C04.build_history_holder', 'SemReact.invokeR_nil', 'SemReact.drainR_nil', 'C04.release_reaction_reaches_holder']
    partial = [('C04.refines', 'full refinement fails while Deselect(id) clears a selection held by another client '
                '(known finding D-9); proved under NoForeignRelease, negation proved on a concrete history')]
    proof_modules = ['DznProofs.C04', 'DznProofs.C04Spec', 'DznProofs.C04Gen', 'DznProofs.C04Example', 'DznProofs.C04Build', 'DznProofs.SemReact', 'DznProofs.C04React']
    level_rule = ('compiled multi-client programs with 1-3 registered clients; histories of ~40 claim/release/other '
                  'in-events by random clients with scripted claim replies over all enum fields, component out-events '
                  'in between; monitor: every out-event is delivered to exactly the holder of the abstract '
                  'specification (or to nobody); non-trivial = history with >=1 granted claim; distinct = distinct '
                  '(model, cfg, history)')

    def gen_scripts(self, rng, case, spec):
        info = case['_info']
        mc = spec['multiclient']
        p, itf = X.port_events(info, mc['port'])
        claim = next(e for e in itf['events'] if e['name'] == mc['claim'])
        grant_idx = claim['_reply']['fields'].index(mc['grant'][-1])
        nfields = len(claim['_reply']['fields'])
        ins = [e for e in itf['events'] if e['dir'] == 'in']
        outs = [e for e in itf['events'] if e['dir'] == 'out']
        scripts = []
        for _ in range(self.scripts_per_program):
            origin = case['cfg']['origin']
            ls = ['world pump=1 runtime=1 extra=0 name=mc' if origin == 'import' else 'world pump=0 runtime=0 extra=0 name=mc']
            clients = rng.sample(['alice', 'bob', 'carol'], rng.randint(1, 3))
            for c in clients:
                ls.append(f'client {mc["port"]} {c}')
            ls += ['bind', 'final 0']
            # the component reacts: while it handles the release (a plain in-event, the claim) it raises an out-event
            # before the in-event returns
            if outs and rng.random() < 0.6:
                ls.append(f'react {mc["port"]} {mc["release"]} {mc["port"]} {rng.choice(outs)["name"]}')
                others = [e for e in ins if e['name'] not in (mc['claim'], mc['release'])]
                if others and rng.random() < 0.5:
                    ls.append(f'react {mc["port"]} {rng.choice(others)["name"]} {mc["port"]} {rng.choice(outs)["name"]}')
                if rng.random() < 0.3:
                    ls.append(f'react {mc["port"]} {mc["claim"]} {mc["port"]} {rng.choice(outs)["name"]}')
            for _i in range(40):
                r = rng.random()
                c = rng.choice(clients)
                if r < 0.3:
                    v = grant_idx if rng.random() < 0.6 else rng.randrange(nfields)
                    ls.append(f'reply comp {mc["port"]} {mc["claim"]} {v}')
                    ls.append(' '.join(['call', f'{mc["port"]}@{c}', mc['claim']] + X.gen_args(rng, claim)))
                elif r < 0.5:
                    rel = next(e for e in itf['events'] if e['name'] == mc['release'])
                    ls.append(' '.join(['call', f'{mc["port"]}@{c}', mc['release']] + X.gen_args(rng, rel)))
                elif r < 0.65 and ins:
                    ev = rng.choice(ins)
                    if ev['name'] == mc['claim']:
                        continue
                    ls.append(' '.join(['call', f'{mc["port"]}@{c}', ev['name']] + X.gen_args(rng, ev)))
                elif outs:
                    ev = rng.choice(outs)
                    ls.append(' '.join(['raise', mc['port'], ev['name']] + X.gen_args(rng, ev)))
            scripts.append(ls)
        # the recorded finding D-9 as a fixed witness history: claim A granted, release by B, out-event
        if outs:
            w = ['world pump=1 runtime=1 extra=0 name=mc' if case['cfg']['origin'] == 'import' else 'world pump=0 runtime=0 extra=0 name=mc',
                 f'client {mc["port"]} alice', f'client {mc["port"]} bob', 'bind', 'final 0',
                 f'reply comp {mc["port"]} {mc["claim"]} {grant_idx}',
                 ' '.join(['call', f'{mc["port"]}@alice', mc['claim']] + ['0'] * len(claim['formals'])),
                 ' '.join(['call', f'{mc["port"]}@bob', mc['release']] + ['0'] * len(next(e for e in itf['events'] if e['name'] == mc['release'])['formals'])),
                 ' '.join(['raise', mc['port'], outs[0]['name']] + ['0'] * len(outs[0]['formals']))]
            scripts.append(w)
        return scripts

    def monitor(self, case, spec, script, segs):
        """the abstract specification S: holder := c on a granted claim by c; holder := none when the
        holder releases; an out-event goes to the holder only"""
        info = case['_info']
        mc = spec['multiclient']
        p, itf = X.port_events(info, mc['port'])
        claim = next(e for e in itf['events'] if e['name'] == mc['claim'])
        grant_idx = claim['_reply']['fields'].index(mc['grant'][-1])
        holder = None
        foreign_release_seen = False
        failed = []
        known = []
        reactions = {}
        for op, pre, term, post in segs:
            t = op.split(' ')
            if t[0] == 'world':
                holder = None
                foreign_release_seen = False
                reactions = {}
                continue
            if t[0] == 'react':
                reactions[(t[1], t[2])] = (t[3], t[4])
                continue
            if t[0] == 'call' and term and term.startswith('ret'):
                port, cid = t[1].split('@')
                obs = [parse_obs(l) for l in pre if l.startswith('obs ')]
                fw = [o for o in obs if o['who'] == 'comp' and o['port'] == port and o['ev'] == t[2]]
                if len(fw) != 1 or fw[0]['disp'] != 1:
                    failed.append(f'{op}: client in-event not forwarded exactly once through the dispatcher {fw}')
                # out-events the component raises while it handles this in-event: at that moment the holder is
                # still the holder as of before this call (a claim is not granted yet, a release not completed)
                nested = [o['who'] for o in obs if o['who'].startswith('env')]
                want_nested = ([f'env@{holder}'] if holder is not None else []) if (port, t[2]) in reactions and port == mc['port'] else []
                if nested != want_nested:
                    msg = f'{op}: out-event raised by the component while handling the call was delivered to {nested}, specification says {want_nested}'
                    if foreign_release_seen and nested == []:
                        known.append(('D-9', msg))
                    else:
                        failed.append(msg)
                ev = next(e for e in itf['events'] if e['name'] == t[2])
                args = [int(x) for x in t[3:3 + len(ev['formals'])]] + [0] * max(0, len(ev['formals']) - len(t[3:]))
                from harness.progprop import rewrite_args
                r = parse_ret(term)
                if r['args'] != rewrite_args(ev, args):
                    failed.append(f'{op}: the component\'s out/inout values did not reach the calling client: {r["args"]}')
                if t[2] == mc['claim']:
                    if parse_ret(term)['ret'] == grant_idx:
                        holder = cid
                elif t[2] == mc['release']:
                    if holder == cid:
                        holder = None
                    elif holder is not None:
                        foreign_release_seen = True
            if t[0] == 'raise' and t[1] == mc['port'] and term and term.startswith('ret'):
                obs = [parse_obs(l) for l in pre if l.startswith('obs ')]
                got = [o['who'] for o in obs if o['who'].startswith('env')]
                want = [f'env@{holder}'] if holder is not None else []
                if got != want:
                    msg = f'{op}: delivered to {got}, specification says {want}'
                    if foreign_release_seen and got == []:
                        known.append(('D-9', msg))       # D-9: a foreign release cleared the holder's selection
                    else:
                        failed.append(msg)
        self._known_hits = known
        return failed


PROP = C04()
