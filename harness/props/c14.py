import itertools
from harness.common import Prop, canon, use_repo_src, scale
from harness import gen_models as M
from harness.gen_text import err_tag


def decl_list(items):
    use_repo_src()
    from dznpy import ast
    kinds = {ast.Component: 'component', ast.Enum: 'enum', ast.Extern: 'extern', ast.Foreign: 'foreign',
             ast.Interface: 'interface', ast.SubInt: 'subint', ast.System: 'system'}
    return [[kinds[type(x)], list(x.fqn.items)] for x in items]


class C14(Prop):
    id = 'C14'
    theorems = ['C14.order', 'C14.find_fqn_spec', 'C14.find_any_spec', 'C14.each_once',
                'C14.valid_ids', 'C14.notations', 'C14.getSingleH_ok_iff', 'C14.getSingleH_absent_ok_iff',
                'C14.getSingleH_err', 'C14.hasOne_iff_getSingle', 'C14.lookup_single']
    proof_modules = ['DznProofs.C14', 'DznProofs.C14Single']
    level_rule = ('declaration sets over a 3-identifier alphabet nested to depth 3 (through the real parser), '
                  'searched names of 1..3 identifiers, all calling scopes; sampled beyond (depth<=6); '
                  'identifier candidates: ASCII, Unicode letters/digits, trailing newline, empty, '
                  'separators and mixtures; every handed-out value is extended in place and the call repeated (no aliasing with library state); non-trivial = a lookup whose result is non-empty or an '
                  'identifier candidate with a separator; distinct = distinct case')

    def streams(self, rng, tier):
        n = 1200 if tier == 'quick' else scale(80000)
        A = M.NAMES3
        sro = []
        for ln in range(0, 4):
            for scope in itertools.product(A[:2], repeat=ln):
                for name in ([['A']], [['B', 'C']]):
                    sro.append({'op': 'sro', 'name': name[0], 'scope': list(scope)})
        sro.append({'op': 'sro', 'name': [], 'scope': ['A']})
        yield 'sro', sro
        finds = []
        for i in range(n):
            # every second document uses identifiers that are textual prefixes of one another
            A = M.NAMES3 if i % 2 == 0 else ['A', 'AB', 'A_', 'B']
            src = M.gen_file(rng, maxdepth=rng.choice([2, 3, 3, 6]), pool=A, n=rng.randint(1, 6))
            ast = M.enc_root(src)
            for _j in range(3):
                name = [rng.choice(A) for _ in range(rng.randint(1, 3))]
                if rng.random() < 0.6:
                    finds.append({'op': 'find_fqn', 'ast': ast, 'name': name,
                                  'scope': [rng.choice(A) for _ in range(rng.randint(0, 3))]})
                else:
                    finds.append({'op': 'find_any', 'ast': ast, 'name': name if rng.random() < 0.95 else []})
            # what a caller does with the result: exactly-one tests with every type hint
            finds.append({'op': 'find_single', 'ast': ast, 'name': [rng.choice(A) for _ in range(rng.randint(1, 2))],
                          'scope': [rng.choice(A) for _ in range(rng.randint(0, 2))]})
        yield 'find', finds
        cands = ['', 'a', 'My.Project', 'My::Project', 'My_Project', 'My__', '_My_', '.My', 'My.', 'My::Ns::', '::Root',
                 'My . Ns', '&x', 'a\n', 'é', 'a1', '1a', 'a.b::c', 'a::b.c', 'ab٣', 'a..b', ':', '::', '.', 'a:b', 'ǅx',
                 None, 1, 3.5, [], ['a'], ['a', 'b'], ['a', ''], ['a', 1], ['a.b'], [None], ['a\n'], {'a': 1}, True]
        yield 'ids_t', [{'op': 'ids_t', 'value': c} for c in cands] + \
            [{'op': 'ids_t', 'value': ''.join(rng.choice(['a', 'B', '_', '1', '.', '::', ':', ' ', '\n', 'é']) for _ in range(rng.randint(0, 6)))} for _ in range(n)]
        nots = []
        for _ in range(n // 2):
            ids = [rng.choice(['a', 'B1', '_x', 'My', '', '1a', 'a b', 'a.b', 'é']) if rng.random() < 0.3 else rng.choice(['a', 'B1', '_x', 'My'])
                   for _ in range(rng.randint(0, 4))]
            nots.append({'op': 'ids_notations', 'ids': ids})
        yield 'notations', nots

    def impl(self, case):
        use_repo_src()
        from dznpy.scoping import scope_resolution_order, namespaceids_t, NamespaceIds
        from dznpy.ast_view import find_fqn, find_any
        op = case['op']
        import copy

        def scribble(x):
            # the caller owns what it was handed: extend it in place (the public `+=`); a later, equal call
            # must not see that (no value handed out may be shared with the library's own state)
            try:
                x += NamespaceIds(['zz_scribbled'])
            except Exception:  # noqa
                pass
        if op == 'sro':
            r0 = scope_resolution_order(NamespaceIds(list(case['name'])), NamespaceIds(list(case['scope'])))
            for x in r0:
                scribble(x)
            r = scope_resolution_order(NamespaceIds(list(case['name'])), NamespaceIds(list(case['scope'])))
            return [list(x.items) for x in r]
        if op == 'find_single':
            from dznpy import ast as A_
            try:
                fc = M.parse_real_fc(case['ast'])
            except Exception as e:  # noqa
                return {'err': err_tag(e)}
            r = find_fqn(fc, NamespaceIds(list(case['name'])), NamespaceIds(list(case['scope'])))
            out = []
            for hint in (None, A_.Component, A_.Enum, A_.Extern, A_.Foreign, A_.Interface, A_.SubInt, A_.System, str):
                one = {}
                try:
                    one['has'] = {'ok': r.has_one_instance(hint)}
                except Exception as e:  # noqa
                    one['has'] = {'err': err_tag(e)}
                try:
                    one['get'] = {'ok': decl_list([r.get_single_instance(hint)])[0]}
                except Exception as e:  # noqa
                    one['get'] = {'err': err_tag(e)}
                out.append(one)
            return out
        if op in ('find_fqn', 'find_any'):
            try:
                fc = M.parse_real_fc(case['ast'])
            except Exception as e:  # noqa
                return {'err': err_tag(e)}
            if op == 'find_fqn':
                r = find_fqn(fc, NamespaceIds(list(case['name'])), NamespaceIds(list(case['scope'])))
            else:
                r = find_any(fc, NamespaceIds(list(case['name'])))
            return decl_list(r.items)
        if op == 'ids_t':
            try:
                v = case['value']
                scribble(namespaceids_t(copy.deepcopy(v)))
                return {'ok': list(namespaceids_t(copy.deepcopy(v)).items)}
            except Exception as e:  # noqa
                return {'err': err_tag(e)}
        if op == 'ids_notations':
            out = []
            for v in (list(case['ids']), '.'.join(case['ids']), '::'.join(case['ids'])):
                try:
                    scribble(namespaceids_t(copy.deepcopy(v)))
                    out.append({'ok': list(namespaceids_t(copy.deepcopy(v)).items)})
                except Exception as e:  # noqa
                    out.append({'err': err_tag(e)})
            return out
        raise ValueError(op)

    def shape(self, case, impl_out):
        if case['op'] == 'find_single':
            return canon(case)
        if case['op'] in ('find_fqn', 'find_any'):
            return canon(case) if impl_out else None
        return canon(case)

    def classify(self, case, impl_out):
        if case['op'] == 'find_single' and isinstance(impl_out, list):
            return 'find_single:' + ('one' if 'ok' in impl_out[0]['get'] else 'none-or-many')
        if case['op'] in ('find_fqn', 'find_any') and isinstance(impl_out, list):
            return f"{case['op']}:{min(len(impl_out), 3)}"
        if isinstance(impl_out, dict):
            return case['op'] + ':' + impl_out.get('err', 'ok')
        return case['op']


PROP = C14()
