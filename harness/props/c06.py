import json
import os
import shutil
import subprocess
import tempfile
from concurrent.futures import ThreadPoolExecutor

from harness.common import Prop, canon, VERIF, case_hash, run_driver, scale
from harness import gen_build as G
from harness import gen_models as M
from harness import cxx_run as X

CXX_INC = os.path.join(VERIF, 'harness', 'cxx')


def syntax_only(workdir, name, body, extra_inc=()):
    path = os.path.join(workdir, name)
    open(path, 'w').write(body)
    cmd = ['g++', '-std=c++17', '-fsyntax-only', '-Wall', '-Werror=return-type', '-I', workdir, '-I', CXX_INC] + list(extra_inc) + [path]
    p = subprocess.run(cmd, stdout=subprocess.PIPE, stderr=subprocess.STDOUT, text=True)
    return p.returncode == 0, p.stdout[-1500:]


class C06(Prop):
    id = 'C06'
    theorems = ['C06.eight_files', 'C06.support_files_named_by_prefix', 'C06.include_closure_support', 'C06.named_scope_partial', 'C06.named_scope_witness', 'C06.include_closure_shell', 'C06.shell_includes_selector_iff']
    partial = [('C06.compiler_acceptance', 'acceptance by a C++17 compiler is not expressible in the model; it is sampled '
                '(every header alone, twice, shell used from a second translation unit and linked, two prefixes in one '
                'program) as model validation and as oracle for the failing-input search'),
               ('C06.reincludable', 'false of the current code (no header has an include guard, finding D-7): negation '
                'proved on the translated header texts'),
               ('C06.named_scope', 'proved under scope ≠ [] (finding D-8: a global-namespace encapsulee is wrapped in an unnamed namespace)')]
    proof_modules = ['DznProofs.C06']
    level_rule = ('structural clauses (8 files, include closure, include guards, named scope, distinct member names, '
                  'every declared member defined once with matching signature, std:: names covered by includes) '
                  'evaluated on the real file set of random builds (incl. global-namespace encapsulees, empty '
                  'interfaces, components without ports, prefixes); sampled g++ validation of the verbatim files: every '
                  'support header alone / twice / two prefixes in one TU, shell header alone, shell used from a second '
                  'TU and linked; non-trivial = every build; distinct = distinct (model, cfg)')
    assumptions = ['A-1/A-2: mock Dezyne runtime headers with the include lists of the 2.17 runtime (DESIGN Appendix B)',
                   'compiler acceptance is sampled with g++ 12 -std=c++17, never proved']

    def _strip(self, c):
        d = {k: v for k, v in c.items() if k != '_info'}
        d['op'] = 'build.c06'
        return d

    def streams(self, rng, tier):
        n = 240 if tier == 'quick' else scale(6000)
        cases = []
        self._infos = {}
        saved_ct = G.CTYPES
        try:
            for k in range(n):
                # every third model has pointer-typed externs (compilable against the mock runtime): text pasted
                # around a C++ type must still be a type
                G.CTYPES = saved_ct if k % 3 else ['int', '::vt::Cell*', 'const ::vt::Cell*', '::vt::Ext<1>']
                c = G.gen_case(rng)
                self._infos[case_hash([c['src'], c['cfg']])] = c['_info']
                cases.append(self._strip(c))
        finally:
            G.CTYPES = saved_ct
        # witnesses of recorded findings: ports `api`/`Api`
        c = G.gen_case(rng, want_mc=False)
        for _ in range(50):
            if len([p for p in c['_info']['ports'] if p['dir'] == 'requires']) >= 2:
                break
            c = G.gen_case(rng, want_mc=False)
        req = [p for p in c['_info']['ports'] if p['dir'] == 'requires']
        if len(req) >= 2:
            ren = {req[0]['name']: 'api', req[1]['name']: 'Api'}
            comp = G.find_elem(c['src'], lambda e: e['k'] in ('component', 'system'))
            for p in comp['ports']:
                if p['name'] in ('api', 'Api') and p['name'] not in ren.values():
                    p['name'] = p['name'] + '9'
                if p['name'] in ren:
                    p['injected'] = False       # both ports are exposed: the witness must show the collision
                p['name'] = ren.get(p['name'], p['name'])
            c['ast'] = M.enc_root(c['src'])
            c['cfg']['ports']['rsts'], c['cfg']['ports']['rmts'] = {'w': 'all'}, {'w': 'none'}
            c['cfg']['ports']['psts'], c['cfg']['ports']['pmts'] = {'w': 'all'}, {'w': 'none'}
            c['cfg']['multiclient'] = None
            w = self._strip(c)
            w['witness'] = 'K-2'
            yield 'witness-K-2', [w]
        yield 'structural', cases
        # the theorems are about the byte-exact generator model: its text is compared with the real files
        yield 'text', [dict(c, op='build', expect='any') for c in cases]
        # a port type spelled by its simple name while an OUTER namespace (declared earlier in the file, as an imported
        # file would be) has an interface of the same name: no unique declaration on the scope chain - no file set
        amb = []
        import copy as _copy
        for c in cases[:max(20, len(cases) // 4)]:
            info = self._infos.get(case_hash([c['src'], c['cfg']]))
            if not info or not info['ports'] or not info['comp_ns']:
                continue
            d = _copy.deepcopy(c)
            p0 = info['ports'][0]
            itf_fq = p0['_itf']
            comp = G.find_elem(d['src'], lambda e: e['k'] in ('component', 'system'))
            comp['ports'][0]['type'] = [itf_fq[-1]]
            for ns in ([], info['comp_ns'][:-1]):
                if ns + [itf_fq[-1]] == itf_fq:
                    continue
                node = {'k': 'interface', 'name': [itf_fq[-1]], 'types': [], 'events': [
                    {'name': 'Ping', 'reply': ['void'], 'formals': [], 'dir': 'in'}]}
                for part in reversed(ns):
                    node = {'k': 'namespace', 'name': [part], 'elems': [node]}
                d['src'].insert(0, node)
            d.update(op='build', expect='any', ast=M.enc_root(d['src']), fault='ambiguous-port-type-outer-first')
            amb.append(d)
        yield 'ambiguous-port-type', amb

    def impl(self, case):
        return G.build_impl(case)

    def project(self, case, out):
        if case.get('op') == 'build':
            from harness.common import code_projection
            return code_projection(out)
        return out if not (isinstance(out, dict) and 'ok' in out and 'files' in (out['ok'] if isinstance(out['ok'], dict) else {})) else 'files'

    def shape(self, case, impl_out):
        return canon([case['src'], case['cfg']])

    def classify(self, case, impl_out):
        return impl_out.get('err', 'ok')

    def known(self, case, impl_out, failed, findings):
        by_id = {f['id']: f for f in findings}
        hits = []
        for cl in failed:
            if cl.startswith('reincludable:') and 'D-7' in by_id:
                hits.append(by_id['D-7'])
            elif cl.startswith('named-scope:') and 'D-8' in by_id and len(case['cfg']['encapsulee']) == 1:
                hits.append(by_id['D-8'])
            elif cl.startswith('std-name-without-header:') and cl.endswith('_ILog.hh:std::runtime_error:<stdexcept>') and 'K-4' in by_id:
                hits.append(by_id['K-4'])
            elif cl.startswith('std-name-without-header:') and cl.endswith('_MultiClientSelector.hh:std::map:<map>') and 'K-6' in by_id:
                hits.append(by_id['K-6'])
            elif cl.startswith('member-names-distinct:') and 'K-2' in by_id and case.get('witness') == 'K-2':
                hits.append(by_id['K-2'])
            elif cl.startswith(('declared-not-defined:', 'defined-not-declared:', 'defined-twice:')) and 'K-2' in by_id and case.get('witness') == 'K-2':
                hits.append(by_id['K-2'])
            else:
                return None          # an unexplained clause: a violation
        return hits

    # ---- sampled compiler validation ---------------------------------------------------------------
    def extra(self, ctx):
        rng, tier = ctx['rng'], ctx['tier']
        known = {k['id']: k for k in ctx['known']}
        failures, known_hits, shapes = [], [], []
        compiles = 0
        root = tempfile.mkdtemp(prefix='verif-c06-', dir=X.SCRATCH_ROOT)
        try:
            # A. support headers per prefix: alone, twice, coexisting prefixes
            from harness.common import use_repo_src
            use_repo_src()
            from dznpy.scoping import NamespaceIds
            from dznpy.support_files import strict_port, ilog, misc_utils, meta_helpers, multi_client_selector, mutex_wrapped
            mods = (strict_port, ilog, misc_utils, meta_helpers, multi_client_selector, mutex_wrapped)
            prefixes = [None, ['Pfx'], ['A', 'B'], ['A_B']]
            d = os.path.join(root, 'support')
            os.makedirs(d)
            per_prefix = {}
            collisions = {}
            for pfx in prefixes:
                files = [m.create_header(NamespaceIds(list(pfx)) if pfx else None) for m in mods]
                per_prefix[canon(pfx)] = files
                for f in files:
                    if f.filename in collisions and collisions[f.filename] != f.contents:
                        rec = {'case': {'prefixes': [prefixes[prefixes.index(pfx)], 'A.B vs A_B']}, 'impl': f.filename, 'model': None,
                               'failed': ['prefix-coexist: different prefixes yield the same file name ' + f.filename], 'noshrink': True}
                        if 'K-3' in known:
                            known_hits.append((known['K-3'], rec))
                        else:
                            failures.append(rec)
                        continue
                    collisions[f.filename] = f.contents
                    open(os.path.join(d, f.filename), 'w').write(f.contents)

            def hdr_job(args):
                fname, mode = args
                if mode == 'alone':
                    body = f'#include "{fname}"\nint main() {{ return 0; }}\n'
                else:
                    body = f'#include "{fname}"\n#include "{fname}"\nint main() {{ return 0; }}\n'
                ok, log = syntax_only(d, f'tu_{mode}_{fname}.cc', body)
                return fname, mode, ok, log
            jobs = [(f.filename, mode) for pfx in prefixes[:3] for f in per_prefix[canon(pfx)] for mode in ('alone', 'twice')]
            with ThreadPoolExecutor(max_workers=16) as ex:
                results = list(ex.map(hdr_job, jobs))
            compiles += len(results)
            for fname, mode, ok, log in results:
                shapes.append(case_hash([fname, mode]))
                if ok:
                    continue
                rec = {'case': {'header': fname, 'mode': mode}, 'impl': log[-600:], 'model': None,
                       'failed': [f'support header {fname} does not compile {mode}'], 'noshrink': True}
                kid = None
                if mode == 'twice' and 'redefinition' in log:
                    kid = 'D-7'
                elif mode == 'alone' and fname.endswith('_ILog.hh') and "'runtime_error' is not a member of 'std'" in log.replace('‘', "'").replace('’', "'"):
                    kid = 'K-4'
                elif mode == 'alone' and fname.endswith('_MultiClientSelector.hh'):
                    l2 = log.replace('‘', "'").replace('’', "'")
                    if "'runtime_error' is not a member of 'std'" in l2 or "'map' in namespace 'std'" in l2 or 'redefinition' in l2:
                        kid = 'K-6' if "'map'" in l2 else ('K-4' if 'runtime_error' in l2 else 'D-7')
                if kid and kid in known:
                    known_hits.append((known[kid], rec))
                else:
                    failures.append(rec)
            # two prefixes in one translation unit (K-4 neutralised by including <stdexcept> and <map> first)
            body = '#include <stdexcept>\n#include <map>\n' + ''.join(
                f'#include "{f.filename}"\n' for pfx in (None, ['Pfx']) for f in per_prefix[canon(pfx)]
                if not f.filename.endswith('_MultiClientSelector.hh')) + 'int main() { return 0; }\n'
            ok, log = syntax_only(d, 'tu_two_prefixes.cc', body)
            compiles += 1
            if not ok:
                failures.append({'case': {'prefixes': [None, ['Pfx']]}, 'impl': log[-800:], 'model': None,
                                 'failed': ['support headers with different prefixes do not coexist in one translation unit'], 'noshrink': True})
            # B0. cases of the text stream on which the generated text is not what the model says are compiled
            # first (verbatim): that is the search for a concrete uncompilable result
            focus = []
            # pointer-typed models first: they are where pasted qualifiers go wrong
            def suspicious(r):
                c = r.get('case') or {}
                cfg = c.get('cfg') or {}
                pfx = cfg.get('prefix') or []
                inner = (cfg.get('encapsulee') or [])[1:-1]
                # pointer-typed models (pasted qualifiers) and prefixes that also name an inner model namespace
                # (unqualified lookup) are where a deviating text is most likely not to compile
                return 0 if ('*' in json.dumps(c.get('src', '')) or (pfx and pfx[0] in inner)) else 1
            cands = sorted(ctx.get('stream_disagreements', []), key=suspicious)
            for r in cands:
                c = r.get('case') or {}
                info = getattr(self, '_infos', {}).get(case_hash([c.get('src'), c.get('cfg')]))
                if info is None or c['cfg'].get('multiclient') or not info['comp_ns']:
                    continue
                fc = dict(c, op='build', _info=info)
                if all(case_hash([fc['src'], fc['cfg']]) != case_hash([x['src'], x['cfg']]) for x in focus):
                    focus.append(fc)
                if len(focus) >= 6:
                    break
            if focus:
                firs = [X.model_ir(c) for c in focus]
                # the driver's static_asserts come from the model's prediction; a case the model refuses is skipped
                fprogs = X.build_programs([c for c, ir in zip(focus, firs) if ir is not None],
                                          [ir for ir in firs if ir is not None], guard_shim=False)
                compiles += len(fprogs)
                for c, p in zip([c for c, ir in zip(focus, firs) if ir is not None], fprogs):
                    try:
                        if p.ok or p.impl_err:
                            continue
                        failures.append({'case': X.strip(c), 'impl': p.log.replace('‘', "'").replace('’', "'")[-1500:], 'model': None,
                                         'failed': ['the returned files do not compile/link as they are'], 'noshrink': True})
                    finally:
                        p.cleanup()
            # B. whole programs, files verbatim (no guard shim): shell used from a second TU and linked
            nprog = 8 if tier == 'quick' else scale(160)
            cases = []
            have_k5 = False
            tries = 0
            while len(cases) < nprog and tries < 5000:
                tries += 1
                saved_ct = G.CTYPES
                if have_k5 and tries % 3 == 0:
                    # pointer-typed externs: text pasted around a C++ type (const, &) must still be a type
                    G.CTYPES = ['int', '::vt::Cell*', 'const ::vt::Cell*', '::vt::Ext<1>']
                try:
                    c = G.gen_case(rng, want_mc=True if not have_k5 else None)
                finally:
                    G.CTYPES = saved_ct
                mc = c['cfg']['multiclient']
                if mc:
                    p, itf = X.port_events(c['_info'], mc['port'])
                    rel = next(e for e in itf['events'] if e['name'] == mc['release'])
                    valued = rel['_reply']['kind'] != 'void'
                    if not have_k5:
                        if not valued or not c['_info']['comp_ns']:
                            continue      # first program: the witness of finding K-5 (valued release event)
                        have_k5 = True
                    elif valued:
                        continue
                elif not have_k5:
                    continue
                cases.append(c)
            irs = [X.model_ir(c) for c in cases]
            progs = X.build_programs(cases, irs, guard_shim=False)
            compiles += len(progs)
            # multi-client shells are uncompilable verbatim (D-7); with the guard shim every other defect shows
            mcs = [(c, ir) for c, ir in zip(cases, irs) if c['cfg']['multiclient']]
            shim = X.build_programs([c for c, _ in mcs], [ir for _, ir in mcs], guard_shim=True)
            compiles += len(shim)
            for (c, _ir), p in zip(mcs, shim):
                try:
                    if p.ok or p.impl_err:
                        continue
                    log = p.log.replace('‘', "'").replace('’', "'")
                    rec = {'case': X.strip(c), 'impl': log[-1200:], 'model': None,
                           'failed': ['multi-client shell does not compile even with include guards added'], 'noshrink': True}
                    p0, itf = X.port_events(c['_info'], c['cfg']['multiclient']['port'])
                    rel = next(e for e in itf['events'] if e['name'] == c['cfg']['multiclient']['release'])
                    if rel['_reply']['kind'] != 'void' and 'K-5' in known and \
                            ('could not convert' in log or 'no match for' in log or 'no known conversion' in log):
                        known_hits.append((known['K-5'], rec))
                    elif not c['_info']['comp_ns'] and 'undefined reference' in log and 'D-8' in known:
                        # global-namespace encapsulee: the shell sits in an unnamed namespace (finding D-8)
                        known_hits.append((known['D-8'], rec))
                    else:
                        failures.append(rec)
                finally:
                    p.cleanup()
            for c, p in zip(cases, progs):
                shapes.append(case_hash([c['src'], c['cfg']]))
                try:
                    if p.ok or p.impl_err:
                        continue
                    log = p.log.replace('‘', "'").replace('’', "'")
                    rec = {'case': X.strip(c), 'impl': log[-1200:], 'model': None,
                           'failed': ['the returned files do not compile/link as they are'], 'noshrink': True}
                    kid = None
                    if c['cfg']['multiclient'] and 'redefinition of' in log:
                        kid = 'D-7'
                    elif not c['_info']['comp_ns'] and 'undefined reference' in log:
                        kid = 'D-8'
                    elif c['cfg']['multiclient'] and ('could not convert' in log or 'no match for' in log or 'no known conversion' in log):
                        p0, itf = X.port_events(c['_info'], c['cfg']['multiclient']['port'])
                        rel = next(e for e in itf['events'] if e['name'] == c['cfg']['multiclient']['release'])
                        if rel['_reply']['kind'] != 'void':
                            kid = 'K-5'
                    if kid and kid in known:
                        known_hits.append((known[kid], rec))
                    else:
                        failures.append(rec)
                finally:
                    p.cleanup()
        finally:
            shutil.rmtree(root, ignore_errors=True)
        return {'failures': failures, 'disagreements': [], 'known_hits': known_hits, 'evaluations': compiles, 'shapes': shapes,
                'coverage': {'compile_variants': compiles, 'programs': len(cases)}}


PROP = C06()
