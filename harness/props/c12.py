import hashlib
import json

from harness.common import Prop, canon, use_repo_src, evaluate, case_hash, scale, code_of
from harness import gen_build as G
from harness import gen_models as M
from harness.gen_text import err_tag
from harness.props.c08 import run_child, strip


def deep_dump(x, seen=None, depth=0):
    """structural dump of an arbitrary object graph (dataclasses, enums, lists, sets, dicts)"""
    import dataclasses
    import enum
    if depth > 60:
        return '<deep>'
    if isinstance(x, (str, int, float, bool)) or x is None:
        return x
    if isinstance(x, enum.Enum):
        return 'enum:' + x.name
    if isinstance(x, (list, tuple)):
        return [deep_dump(v, seen, depth + 1) for v in x]
    if isinstance(x, (set, frozenset)):
        return {'set': sorted(json.dumps(deep_dump(v, seen, depth + 1), sort_keys=True) for v in x)}
    if isinstance(x, dict):
        return {'dict': [[deep_dump(k, seen, depth + 1), deep_dump(v, seen, depth + 1)] for k, v in x.items()]}
    if dataclasses.is_dataclass(x):
        return {type(x).__name__: {f.name: deep_dump(getattr(x, f.name), seen, depth + 1) for f in dataclasses.fields(x)}}
    if hasattr(x, '__dict__'):
        return {type(x).__name__: {k: deep_dump(v, seen, depth + 1) for k, v in vars(x).items()}}
    return repr(x)


def sig_of(res):
    return [[f.filename, hashlib.sha256(f.contents.encode('utf-8')).hexdigest(), f.hash] for f in res.files]


sibling_of = G.sibling_of


class C12(Prop):
    id = 'C12'
    theorems = ['C12.history_free', 'C12.build_is_a_function', 'C12.support_files_standalone',
                'C12.step_frame', 'C12.step_fresh', 'C12.step_grows', 'C12.run_frame', 'C12.sro_refines', 'C12.add_refines',
                'C12.iadd_in_place']
    proof_modules = ['DznProofs.C12', 'DznProofs.C12Heap']
    level_rule = ('heap histories of scoping operations on real NamespaceIds/NamespaceTree objects (contents of every live object and the sharing of list objects compared with DznModel.ScopingHeap after every step); histories of 2-12 builds in one interpreter (one Builder, one Configuration object edited in place, sibling models built right after the model they derive from, selections as explicit name sets built twice) over shared and distinct parsed models with valid and '
                  'invalid configurations; before/after deep structural snapshots of the parsed model and of the '
                  'configuration object; every result compared with a fresh interpreter per build and with the Lean '
                  'model; support files compared with stand-alone create_header(prefix); non-trivial = history with '
                  '>=2 builds on one shared model; distinct = distinct history')

    def streams(self, rng, tier):
        # the scoping layer as a heap of list objects: which operation writes to which existing object, which
        # results are new objects (DznModel.ScopingHeap; theorems C12.step_frame / step_fresh / run_frame)
        from harness import heap_ops as H
        n = 600 if tier == 'quick' else scale(20000)
        yield 'heap', [H.gen_case(rng) for _ in range(n)]

    def impl(self, case):
        if case.get('op') == 'heap':
            from harness import heap_ops as H
            return H.run(case)[0]
        return G.build_impl(case)

    def extra(self, ctx):
        use_repo_src()
        from dznpy.json_ast import DznJsonAst
        from dznpy.adv_shell import Builder
        from dznpy.adv_shell.common import Configuration, FacilitiesOrigin
        from dznpy.adv_shell.port_selection import MultiClientPortCfg
        from dznpy.scoping import NamespaceIds
        from dznpy.support_files import strict_port, ilog, misc_utils, meta_helpers, multi_client_selector, mutex_wrapped
        from harness.props.c03 import mk_portscfg
        rng, tier = ctx['rng'], ctx['tier']
        nhist = 45 if tier == 'quick' else scale(800)
        failures, disagreements, shapes = [], [], []
        evaluations = 0
        all_cases = []
        histories = []
        for _h in range(nhist):
            # 1-3 models; each parsed ONCE and shared by the builds of the history
            models = []
            for _m in range(rng.randint(1, 3)):
                base = G.gen_case(rng)
                if models and rng.random() < 0.5:
                    # a sibling of the first model: the same names everywhere, but every extern denotes another
                    # C++ type and every enum has other fields - what a cache keyed by names (not by model) mixes up
                    base = sibling_of(rng, models[0][0])
                    base['_sibling_of'] = 0
                variants = [strip(base)] + [f for f in G.faults(rng, base)]
                # more valid variants on the same model: other configurations
                for _v in range(3):
                    c2 = json.loads(json.dumps(strip(base)))
                    c2['cfg']['origin'] = rng.choice(['create', 'import'])
                    c2['cfg']['prefix'] = rng.choice([None, ['Pfx'], ['A', 'B'], ['A_B']])
                    c2['cfg']['copyright'] = rng.choice(['c1', 'c2\nline'])
                    variants.append(c2)
                # every selection spelled out as explicit name sets (the user's own set objects end up inside the
                # configuration: a build must not write to them)
                req = [p['name'] for p in base['_info']['ports'] if p['dir'] == 'requires' and not p['injected']]
                inj = [p['name'] for p in base['_info']['ports'] if p['dir'] == 'requires' and p['injected']]
                if len(req) >= 2 and not base['cfg'].get('multiclient'):
                    for _v in range(2):
                        c3 = json.loads(json.dumps(strip(base)))
                        k = rng.randint(1, len(req) - 1)
                        a = rng.sample(req, k)
                        b = [x for x in req if x not in a] + (inj[:1] if rng.random() < 0.5 else [])
                        c3['cfg']['ports']['rsts'], c3['cfg']['ports']['rmts'] = {'names': a}, {'names': b}
                        variants.append(c3)
                        variants.append(c3)       # twice: the second build sees what the first one left behind
                models.append((base, variants))
            steps = []
            # a sibling model is built right after the model it was derived from, under the same (valid) configuration
            # and once more with every port rerouted: whatever the first build left behind under a NAME meets another
            # meaning of that name
            for mi in range(1, len(models)):
                if models[mi][0].get('_sibling_of') == 0:
                    for all_mts in (False, True):
                        for k in (0, mi):
                            v = json.loads(json.dumps(models[k][1][0]))
                            v['cfg'] = json.loads(json.dumps(models[0][1][0]['cfg']))
                            if all_mts and not v['cfg'].get('multiclient'):
                                v['cfg']['ports'] = {'psts': {'w': 'none'}, 'pmts': {'w': 'all'}, 'rsts': {'w': 'none'}, 'rmts': {'w': 'all'}}
                            steps.append((k, v))
                    break
            # a build that fails LATE (after the Dezyne elements were put together), then the valid build of the same
            # model: whatever the failed build had noted on the way must not reach the next result
            for mi, (base, variants) in enumerate(models):
                late = [v for v in variants if v.get('fault') == 'formal-type-not-an-extern']
                if late and rng.random() < (0.9 if base['cfg'].get('multiclient') else 0.4):
                    steps.append((mi, late[0]))
                    steps.append((mi, variants[0]))
            for _s in range(rng.randint(2, 12)):
                mi = rng.randrange(len(models))
                steps.append((mi, rng.choice(models[mi][1])))
            histories.append((models, steps))
            all_cases.extend(s[1] for s in steps)
        # fresh interpreter per build (batched per child: each child builds ONE case)
        uniq = {}
        for c in all_cases:
            uniq.setdefault(case_hash([c['ast'], c['cfg']]), c)
        keys = list(uniq)
        from concurrent.futures import ThreadPoolExecutor
        with ThreadPoolExecutor(max_workers=16) as ex:
            fresh = dict(zip(keys, ex.map(lambda k: run_child([uniq[k]], 0, 0)[0], keys)))
        model_out = dict(zip(keys, evaluate(self, [uniq[k] for k in keys])))
        for models, steps in histories:
            builder = Builder()          # one Builder object for the whole history
            live = {}                    # ... and one Configuration object, edited in place from build to build
            in_place = rng.random() < 0.6
            parsed = [DznJsonAst(json_contents=json.dumps(m[0]['ast'])).process() for m in models]
            for mi, case in steps:
                evaluations += 1
                cfgj = case['cfg']
                fc = parsed[mi] if case['ast'] == models[mi][0]['ast'] else DznJsonAst(json_contents=json.dumps(case['ast'])).process()
                rec = {'case': case, 'noshrink': True}
                got_code = None
                try:
                    mc = None
                    if cfgj.get('multiclient'):
                        m = cfgj['multiclient']
                        mc = MultiClientPortCfg(m['port'], m['claim'], NamespaceIds(list(m['grant'])), m['release'])
                    pc = mk_portscfg(cfgj['ports'], mc)
                    conf = Configuration(dezyne_filename=cfgj['filename'], ast_fc=fc, output_basename_suffix=cfgj['suffix'],
                                         fqn_encapsulee_name=NamespaceIds(list(cfgj['encapsulee'])), ports_cfg=pc,
                                         facilities_origin=FacilitiesOrigin.IMPORT if cfgj['origin'] == 'import' else FacilitiesOrigin.CREATE,
                                         copyright=cfgj.get('copyright'),
                                         support_files_ns_prefix=NamespaceIds(list(cfgj['prefix'])) if cfgj.get('prefix') is not None else None,
                                         creator_info=cfgj.get('creator'))
                except Exception as e:  # noqa - configuration objects that cannot even be constructed
                    got = {'err': err_tag(e)}
                    conf = None
                if conf is not None and in_place:
                    conf = G.live_configuration(live, conf)
                if conf is not None:
                    before = canon([deep_dump(fc), deep_dump({k: v for k, v in vars(conf).items() if k != 'ast_fc'})])
                    try:
                        res = builder.build(conf)
                        got = {'files': sig_of(res)}
                        got_code = [[f.filename, code_of(f.contents)] for f in res.files]
                        pfx = conf.support_files_ns_prefix
                        alone = [m.create_header(pfx) for m in (strict_port, ilog, misc_utils, meta_helpers, multi_client_selector, mutex_wrapped)]
                        if [(f.filename, f.contents) for f in res.files[2:]] != [(f.filename, f.contents) for f in alone]:
                            rec.setdefault('failed', []).append('support-files-differ-from-standalone-generation')
                    except Exception as e:  # noqa
                        got = {'err': err_tag(e)}
                    after = canon([deep_dump(fc), deep_dump({k: v for k, v in vars(conf).items() if k != 'ast_fc'})])
                    if before != after:
                        rec.setdefault('failed', []).append('build-altered-its-inputs')
                key = case_hash([case['ast'], case['cfg']])
                fr = fresh[key]
                want = {'files': [f[:3] for f in fr['files']]} if 'files' in fr else {'err': fr['err']}
                rec['impl'] = {'in_history': got, 'fresh_process': want}
                if canon(got) != canon(want):
                    rec.setdefault('failed', []).append('result-depends-on-earlier-builds')
                mo = model_out[key]
                rec['model'] = None
                if rec.get('failed'):
                    failures.append(rec)
                else:
                    rec['failed'] = []
                    m = mo['model']
                    ok = (m is not None) and (('err' in m and 'err' in got and m['err'] == got['err']) or
                                             ('ok' in m and 'files' in got and
                                              [[f['name'], code_of(f['contents'])] for f in m['ok']['files']] == got_code))
                    if not ok:
                        rec['model'] = 'model output differs'
                        disagreements.append(rec)
                shapes.append(case_hash([case['ast'], case['cfg'], evaluations]))
        return {'failures': failures, 'disagreements': disagreements, 'evaluations': evaluations, 'shapes': shapes,
                'coverage': {'histories': len(histories), 'builds': evaluations, 'fresh_processes': len(keys)}}


PROP = C12()
