from harness.common import Prop, canon, use_repo_src, scale
from harness.gen_text import err_tag

TYPES = [['int'], ['void'], ['std', 'string'], ['My', 'Data'], ['size_t'], ['dzn', 'locator']]
NAMES = ['Calc', 'Process', 'f', 'DoIt', 'x', 'value', 'message', 'p1']
DEFAULTS = [None, '', '123u', '""', 'nullptr', '{}', 'true', '"    a  b"', "'\\t'", '" \\t "', '"x\\t\\ty"']      # whitespace that matters (inside literals); no , ( ) = (the reader's domain)


def gen_typedesc(rng, with_default=True):
    d = {'fqn': {'ids': rng.choice(TYPES), 'root': rng.random() < 0.3}, 'postfix': rng.choice(['', '', '&', '*']),
         'const': rng.random() < 0.3}
    if rng.random() < 0.2:
        d['targ'] = {'ids': rng.choice(TYPES), 'root': rng.random() < 0.5}
    if with_default:
        dv = rng.choice(DEFAULTS)
        if dv is not None:
            d['default'] = dv
    return d


def gen_param(rng):
    return {'type': gen_typedesc(rng), 'name': rng.choice(NAMES)}


def gen_contents(rng):
    return rng.choice(['', '', 'return 1;', 'a();\nb();', '  x;\n\n y; '])


def mk_typedesc(d):
    use_repo_src()
    from dznpy.cpp_gen import Fqn, TypeDesc, TypePostfix, TemplateArg
    from dznpy.scoping import NamespaceIds
    fq = Fqn(NamespaceIds(list(d['fqn']['ids'])), d['fqn'].get('root', False))
    targ = TemplateArg(Fqn(NamespaceIds(list(d['targ']['ids'])), d['targ'].get('root', False))) if 'targ' in d else None
    pf = {'': TypePostfix.NONE, '&': TypePostfix.REFERENCE, '*': TypePostfix.POINTER}[d.get('postfix', '')]
    return TypeDesc(fq, targ, pf, d.get('const', False), d.get('default'))


def mk_param(d):
    from dznpy.cpp_gen import Param
    return Param(mk_typedesc(d['type']), d['name'])


class C20(Prop):
    id = 'C20'
    theorems = ['C20.checked_function', 'C20.pure_specifier_is_virtual', 'C20.refused_function', 'C20.checked_constructor', 'C20.param_decl_is_def_plus_default', 'C20.decl_shape', 'C20.def_shape', 'C20.defSig_shape',
                'C20.def_ignores_decl_only_parts', 'C20.initialised_no_def',
                'C20.constructor_def_ignores_decl_only_parts', 'C20.destructor_initialised_no_def',
                'C20.namespace_balanced', 'C20.struct_balanced']
    partial = [('C20.compiler_acceptance', 'acceptance of arbitrary compositions by a C++ compiler is not '
                'expressible in the model; it is sampled with g++ -fsyntax-only as model validation')]
    proof_modules = ['DznProofs.C20']
    level_rule = ('random descriptors: return type x name x 0-5 params (with/without default, const/ref/'
                  'pointer/template argument) x prefix x cav x override x initialisation x contents x owner; '
                  'structs/classes/namespaces with random contents (with and without a header of their own) and identifier lists incl. the empty one; two blocks built without contents, one extended through its getter; parameter defaults with significant whitespace; '
                  'non-trivial = >=1 parameter or non-empty contents; distinct = distinct descriptor')

    def streams(self, rng, tier):
        n = 2400 if tier == 'quick' else scale(200000)
        fns, ctors, blocks, misc = [], [], [], []
        for _ in range(n):
            prefix = rng.choice(['', '', 'virtual', 'static'])
            init = rng.choice(['', '', '', 'default', 'delete', '0'])
            if init == '0':
                prefix = 'virtual'
            scope = rng.choice([None, 'MyToaster', 'S'])
            if prefix == 'virtual' and scope is None:
                scope = 'S'
            fns.append({'op': 'cpp.function', 'ret': gen_typedesc(rng, False), 'name': rng.choice(NAMES),
                        'params': [gen_param(rng) for _ in range(rng.randint(0, 5))], 'prefix': prefix,
                        'cav': rng.choice(['', '', 'const', 'const', 'volatile', 'const volatile', 'noexcept', 'const noexcept', '&', 'const &&']), 'override': rng.random() < 0.2, 'init': init,
                        'contents': gen_contents(rng), 'scope': scope, 'late': rng.choice([0, 0, 1, 2])})
        for _ in range(n // 3):
            init = rng.choice(['', '', 'default', 'delete'])
            mil = [] if init else [rng.choice(['m_a(1)', 'm_b{2 }', 'm_c ("x")']) for _ in range(rng.randint(0, 3))]
            ctors.append({'op': 'cpp.constructor', 'scope': rng.choice(['MyToaster', 'S']), 'explicit': rng.random() < 0.3,
                          'params': [gen_param(rng) for _ in range(rng.randint(0, 4))], 'init': init, 'mil': mil,
                          'contents': gen_contents(rng), 'late': rng.choice([0, 0, 1])})
            ctors.append({'op': 'cpp.destructor', 'scope': rng.choice(['MyToaster', 'S']), 'override': rng.random() < 0.3,
                          'init': rng.choice(['', '', 'default']), 'contents': gen_contents(rng), 'late': rng.choice([0, 0, 1])})
        for _ in range(n // 3):
            contents = [rng.choice(['int a;', '', '  b();', '// c', 'x']) for _ in range(rng.randint(0, 4))]
            blocks.append({'op': 'cpp.struct', 'kw': rng.choice(['struct', 'class']), 'name': rng.choice(['S', 'MyStruct']), 'contents': contents})
            blocks.append({'op': 'cpp.namespace', 'ids': [rng.choice(['My', 'Project', 'XY', '_a']) for _ in range(rng.randint(0, 3))], 'contents': contents})
            if rng.random() < 0.5:
                # the contents block carries a header of its own (an access specifier, a forward declaration)
                hdr = [rng.choice(['public:', 'struct Fwd;', '// h', 'private:']) for _ in range(rng.randint(1, 2))]
                blocks[-1] = dict(blocks[-1], header=hdr)
                blocks[-2] = dict(blocks[-2], header=hdr)
        for _ in range(n // 4):
            k = rng.choice(['sysinc', 'projinc', 'membervar', 'access', 'typedesc'])
            c = {'op': 'cpp.misc', 'kind': k}
            if k in ('sysinc', 'projinc'):
                c['incs'] = [rng.choice(['string', 'dzn/pump.hh', 'a.h']) for _ in range(rng.randint(0, 3))]
            elif k == 'membervar':
                c['type'] = gen_typedesc(rng, False)
                c['name'] = rng.choice(NAMES)
            elif k == 'access':
                c['spec'] = rng.choice([None, 'public:', 'private:', 'protected:'])
                c['contents'] = [rng.choice(['int a;', '', '  b();']) for _ in range(rng.randint(0, 3))]
            else:
                c['type'] = gen_typedesc(rng, False)
            misc.append(c)
        # the module's type-creation shortcuts, against the explicit descriptors they stand for
        fact = []
        for _ in range(max(40, n // 8)):
            ids = rng.choice(TYPES + [[]])
            root = rng.random() < 0.4
            nm = rng.choice(NAMES)
            dv = rng.choice(['', '123u', 'nullptr', '{}'])
            fact.append(rng.choice([
                {'op': 'cpp.misc', 'kind': 'typedesc', 'factory': 'void_t', 'type': {'fqn': {'ids': ['void'], 'root': False}}},
                {'op': 'cpp.misc', 'kind': 'typedesc', 'factory': 'int_t', 'type': {'fqn': {'ids': ['int'], 'root': False}}},
                {'op': 'cpp.misc', 'kind': 'typedesc', 'factory': 'float_t', 'type': {'fqn': {'ids': ['float'], 'root': False}}},
                {'op': 'cpp.misc', 'kind': 'typedesc', 'factory': 'double_t', 'type': {'fqn': {'ids': ['double'], 'root': False}}},
                {'op': 'cpp.misc', 'kind': 'typedesc', 'factory': 'fqn_t', 'type': {'fqn': {'ids': ids, 'root': root}}},
                {'op': 'cpp.misc', 'kind': 'membervar', 'factory': 'decl_var_t', 'type': {'fqn': {'ids': ids or ['T'], 'root': root}, 'postfix': ''}, 'name': nm},
                {'op': 'cpp.misc', 'kind': 'membervar', 'factory': 'decl_var_ref_t', 'type': {'fqn': {'ids': ids or ['T'], 'root': root}, 'postfix': '&'}, 'name': nm},
                {'op': 'cpp.misc', 'kind': 'membervar', 'factory': 'decl_var_ptr_t', 'type': {'fqn': {'ids': ids or ['T'], 'root': root}, 'postfix': '*'}, 'name': nm},
                {'op': 'cpp.function', 'factory': 'param_t', 'ret': {'fqn': {'ids': ['void'], 'root': False}}, 'name': 'f',
                 'params': [{'type': {'fqn': {'ids': ids or ['T'], 'root': root}, 'postfix': '', 'const': False, 'default': dv}, 'name': nm}],
                 'prefix': '', 'cav': '', 'override': False, 'init': '', 'contents': '', 'scope': None},
                {'op': 'cpp.function', 'factory': 'const_param_ref_t', 'ret': {'fqn': {'ids': ['void'], 'root': False}}, 'name': 'f',
                 'params': [{'type': {'fqn': {'ids': ids or ['T'], 'root': root}, 'postfix': '&', 'const': True, 'default': dv}, 'name': nm}],
                 'prefix': '', 'cav': '', 'override': False, 'init': '', 'contents': '', 'scope': None},
                {'op': 'cpp.function', 'factory': 'const_param_ptr_t', 'ret': {'fqn': {'ids': ['void'], 'root': False}}, 'name': 'f',
                 'params': [{'type': {'fqn': {'ids': ids or ['T'], 'root': root}, 'postfix': '*', 'const': True, 'default': dv}, 'name': nm}],
                 'prefix': '', 'cav': '', 'override': False, 'init': '', 'contents': '', 'scope': None},
            ]))
        yield 'type-creation-functions', fact
        yield 'functions', fns
        yield 'ctors', ctors
        # two blocks built without contents, one of them extended in place through its `contents` getter
        two = []
        for _ in range(max(20, n // 20)):
            fam = rng.choice(['struct', 'class', 'namespace'])
            ext = [rng.choice(['int a;', '', '  b();', 'Widget() = default;']) for _ in range(rng.randint(1, 3))]
            if fam == 'namespace':
                a, b = [rng.choice(['My', 'Lib'])], [rng.choice(['My', 'Lib', 'Detail']) for _ in range(rng.randint(0, 2))]
            else:
                a, b = rng.choice(['Widget', 'S']), rng.choice(['Tag', 'T2'])
            two.append({'op': 'cpp.blocks2', 'family': fam, 'a': a, 'b': b, 'extend': ext, 'how': rng.choice(['append', 'iadd', 'caller_ref'])})
        yield 'blocks', blocks
        yield 'blocks-built-without-contents', two
        # descriptions at the edge of what the constructors accept: no name, `virtual` without an owner, a
        # pure-specifier with every prefix, `= default/delete` next to a member initialiser list - refused with the
        # library's error exactly when the specification calls them unrenderable, rendered otherwise
        edge = []
        for _ in range(n // 4):
            edge.append({'op': 'cpp.function', 'checked': True, 'ret': gen_typedesc(rng, False),
                         'name': rng.choice(NAMES + ['', '']),
                         'params': [gen_param(rng) for _ in range(rng.randint(0, 2))],
                         'prefix': rng.choice(['', 'virtual', 'static']),
                         'cav': rng.choice(['', 'const']), 'override': rng.random() < 0.2,
                         'init': rng.choice(['', '0', '0', '0 ', '00', 'default', 'delete', ' 0', 'O']),
                         'contents': gen_contents(rng), 'scope': rng.choice([None, None, 'S']), 'late': 0})
            init = rng.choice(['', 'default', 'delete', ' '])
            edge.append({'op': 'cpp.constructor', 'checked': True, 'scope': rng.choice(['MyToaster', 'S']),
                         'explicit': rng.random() < 0.3, 'params': [gen_param(rng) for _ in range(rng.randint(0, 2))],
                         'init': init, 'mil': [rng.choice(['m_a(1)', '']) for _ in range(rng.randint(0, 2))],
                         'contents': gen_contents(rng), 'late': 0})
        yield 'edge-descriptions', edge
        yield 'misc', misc

    def impl(self, case):
        use_repo_src()
        from dznpy import cpp_gen
        from dznpy.cpp_gen import Function, FunctionPrefix, Constructor, Destructor, Struct, Class, Namespace, \
            SystemIncludes, ProjectIncludes, MemberVariable, AccessSpecifiedSection, AccessSpecifier
        from dznpy.scoping import NamespaceIds
        from dznpy.text_gen import TextBlock
        op = case['op']
        fac = case.get('factory')
        if fac:
            from dznpy.cpp_gen import Fqn
            def fq(d):
                return cpp_gen.fqn_t(list(d['ids']) if d['ids'] else rng_free_empty(d), d.get('root', False))
            def rng_free_empty(d):
                return []
            if fac in ('void_t', 'int_t', 'float_t', 'double_t'):
                return str(getattr(cpp_gen, fac)())
            if fac == 'fqn_t':
                return str(cpp_gen.TypeDesc(fqn=fq(case['type']['fqn'])))
            if fac.startswith('decl_var'):
                return str(getattr(cpp_gen, fac)(fq(case['type']['fqn']), case['name']))
            pd = case['params'][0]
            prm = getattr(cpp_gen, fac)(fq(pd['type']['fqn']), pd['name'], pd['type']['default'])
            f = Function(cpp_gen.void_t(), case['name'], [prm])
            return {'decl': f.as_decl, 'def': f.as_def}
        if case.get('checked'):
            # the description as the user constructs it, refusal included
            try:
                if op == 'cpp.function':
                    pf = {'': FunctionPrefix.MEMBER_FUNCTION, 'virtual': FunctionPrefix.VIRTUAL, 'static': FunctionPrefix.STATIC}[case['prefix']]
                    f = Function(mk_typedesc(case['ret']), case['name'], [mk_param(p) for p in case['params']], pf,
                                 case['cav'], case['override'], case['init'], case['contents'],
                                 Struct(case['scope']) if case.get('scope') else None)
                else:
                    f = Constructor(Struct(case['scope']), case['explicit'], [mk_param(p) for p in case['params']],
                                    case['init'], list(case['mil']), case['contents'])
                return {'ok': {'decl': f.as_decl, 'def': f.as_def}}
            except Exception as e:  # noqa
                return {'err': err_tag(e)}
        if op == 'cpp.function':
            scope = Struct(case['scope']) if case.get('scope') else None
            pf = {'': FunctionPrefix.MEMBER_FUNCTION, 'virtual': FunctionPrefix.VIRTUAL, 'static': FunctionPrefix.STATIC}[case['prefix']]
            if case.get('late'):
                # a description assembled step by step: constructed with the mandatory fields (and, for `late` = 2,
                # with another owner), every other field assigned afterwards - dataclass fields are public API
                f = Function(mk_typedesc(case['ret']), case['name'], prefix=pf,
                             scope=Struct('Other') if (case['late'] == 2 or pf == FunctionPrefix.VIRTUAL) else None)
                _ = (f.as_decl, f.as_def)           # rendered once before it is complete
                f.params = [mk_param(p) for p in case['params']]
                f.cav, f.override, f.contents, f.scope = case['cav'], case['override'], case['contents'], scope
                f.initialization = case['init']
            else:
                f = Function(mk_typedesc(case['ret']), case['name'], [mk_param(p) for p in case['params']], pf,
                             case['cav'], case['override'], case['init'], case['contents'], scope)
            return {'decl': f.as_decl, 'def': f.as_def}
        if op == 'cpp.constructor':
            if case.get('late'):
                c = Constructor(Struct('Other'))
                _ = (c.as_decl, c.as_def)
                c.scope, c.explicit, c.params = Struct(case['scope']), case['explicit'], [mk_param(p) for p in case['params']]
                c.member_initlist, c.contents = list(case['mil']), case['contents']
                c.initialization = case['init']
            else:
                c = Constructor(Struct(case['scope']), case['explicit'], [mk_param(p) for p in case['params']],
                                case['init'], list(case['mil']), case['contents'])
            return {'decl': c.as_decl, 'def': c.as_def}
        if op == 'cpp.destructor':
            if case.get('late'):
                d = Destructor(Class('Other'))
                _ = (d.as_decl, d.as_def)
                d.scope, d.override, d.contents = Class(case['scope']), case['override'], case['contents']
                d.initialization = case['init']
            else:
                d = Destructor(Class(case['scope']), case['override'], case['init'], case['contents'])
            return {'decl': d.as_decl, 'def': d.as_def}
        if op == 'cpp.struct':
            tb = TextBlock(header=list(case['header'])) if case.get('header') else TextBlock()
            tb.lines = list(case['contents'])
            return str((Struct if case['kw'] == 'struct' else Class)(case['name'], tb))
        if op == 'cpp.namespace':
            tb = TextBlock(header=list(case['header'])) if case.get('header') else TextBlock()
            tb.lines = list(case['contents'])
            return str(Namespace(NamespaceIds(list(case['ids'])), tb))
        if op == 'cpp.blocks2':
            def mk(x):
                if case['family'] == 'namespace':
                    return Namespace(NamespaceIds(list(x)))
                return (Struct if case['family'] == 'struct' else Class)(x)
            if case['how'] == 'caller_ref':
                # the caller hands over its own (still empty) block and fills it afterwards through its own reference
                body = TextBlock()
                if case['family'] == 'namespace':
                    a = Namespace(NamespaceIds(list(case['a'])), body)
                else:
                    a = (Struct if case['family'] == 'struct' else Class)(case['a'], body)
                b = mk(case['b'])
                body += TextBlock(list(case['extend']))
                return [str(a), str(b)]
            a, b = mk(case['a']), mk(case['b'])
            if case['how'] == 'append':
                a.contents.append(list(case['extend']))
            else:
                tb = a.contents
                tb += TextBlock(list(case['extend']))
            return [str(a), str(b)]
        if op == 'cpp.misc':
            k = case['kind']
            if k == 'sysinc':
                return str(SystemIncludes(list(case['incs'])))
            if k == 'projinc':
                return str(ProjectIncludes(list(case['incs'])))
            if k == 'membervar':
                return str(MemberVariable(mk_typedesc(case['type']), case['name']))
            if k == 'access':
                tb = TextBlock()
                tb.lines = list(case['contents'])
                spec = {None: AccessSpecifier.ANONYMOUS, 'public:': AccessSpecifier.PUBLIC,
                        'private:': AccessSpecifier.PRIVATE, 'protected:': AccessSpecifier.PROTECTED}[case['spec']]
                return str(AccessSpecifiedSection(spec, tb))
            if k == 'typedesc':
                return str(mk_typedesc(case['type']))
        raise ValueError(op)

    def shape(self, case, impl_out):
        return canon(case) if case.get('params') or case.get('contents') else None

    def classify(self, case, impl_out):
        return case['op'] + (':init' if case.get('init') else '')


PROP = C20()
