from harness.common import Prop, canon, use_repo_src, scale
from harness import gen_models as M
from harness.gen_text import err_tag
import json


class C16(Prop):
    id = 'C16'
    theorems = ['C16.history_free', 'C16.instances_isolated']
    proof_modules = ['DznProofs.C16']
    level_rule = ('random histories: <=6 parser instances, <=30 ops (new with/without document, load, '
                  'process repeated 1-4 times), documents shared between instances, valid and mutated; '
                  'long-lived instances (150-260 load/process rounds, two thirds refused inside nested namespaces); every result kept alive and re-dumped at the end; non-trivial = a history with a '
                  'repeated process() or >=2 instances; distinct = distinct history')

    def streams(self, rng, tier):
        n = 400 if tier == 'quick' else scale(15000)
        hs = []
        d0 = M.enc_root([{'k': 'component', 'name': ['C'], 'ports': []}, {'k': 'enum', 'name': ['E'], 'fields': ['a']}])
        hs.append({'op': 'c16', 'docs': [d0], 'ops': [['new', 0, 0], ['process', 0], ['process', 0]]})
        hs.append({'op': 'c16', 'docs': [d0], 'ops': [['new', 0, None], ['process', 0], ['load', 0, 0], ['process', 0]]})
        yield 'corpus', hs
        out = []
        for _ in range(n):
            docs = []
            for _i in range(rng.randint(1, 4)):
                d = M.enc_root(M.gen_file(rng, maxdepth=2, n=rng.randint(0, 4)))
                if rng.random() < 0.3:
                    d = M.mutate(rng, d, 1)
                docs.append(d)
            ops = []
            live = set()
            for _i in range(rng.randint(2, 30)):
                k = rng.randint(0, 5)
                r = rng.random()
                if k not in live or r < 0.15:
                    ops.append(['new', k, rng.choice([None] + list(range(len(docs))))])
                    live.add(k)
                elif r < 0.3:
                    ops.append(['load', k, rng.randrange(len(docs))])
                else:
                    for _j in range(rng.choice([1, 1, 2, 4])):
                        ops.append(['process', k])
            out.append({'op': 'c16', 'docs': docs, 'ops': ops})
        yield 'histories', out
        # long-lived instances: one or two parser objects serving hundreds of requests, most of them documents
        # that are refused somewhere INSIDE nested namespaces - state that leaks on the error path adds up
        soak = []
        for _ in range(4 if tier == 'quick' else scale(60)):
            docs = []
            for _i in range(6):
                depth = rng.randint(1, 3)
                inner = M.gen_file(rng, maxdepth=1, n=rng.randint(1, 3))
                node = inner
                for lvl in range(depth):
                    node = [{'k': 'namespace', 'name': [rng.choice(['A', 'B', 'N'])], 'elems': node}]
                d = M.enc_root(node)
                if _i % 3 != 0:
                    # break the innermost element
                    cur = d
                    for lvl in range(depth):
                        els = cur['elements'] if isinstance(cur, dict) and 'elements' in cur else cur
                        els = els if isinstance(els, list) else els.get('elements', [])
                        nss = [e for e in els if isinstance(e, dict) and e.get('<class>') == 'namespace']
                        if not nss:
                            break
                        cur = nss[0]
                    els = cur.get('elements', []) if isinstance(cur, dict) else []
                    if els and isinstance(els[-1], dict):
                        els[-1].pop('name', None)
                docs.append(d)
            ops = [['new', 0, None], ['new', 1, 0]]
            for _i in range(rng.randint(150, 260)):
                k = rng.choice([0, 0, 0, 1])
                ops.append(['load', k, rng.randrange(len(docs))])
                ops.append(['process', k])
            soak.append({'op': 'c16', 'docs': docs, 'ops': ops})
        yield 'long-lived', soak

    def impl(self, case):
        use_repo_src()
        import tempfile, os
        from dznpy.json_ast import DznJsonAst
        insts = {}
        results = []
        kept = []
        for o in case['ops']:
            kind, k = o[0], o[1]
            if kind == 'new':
                doc = None if o[2] is None else json.dumps(case['docs'][o[2]])
                insts[k] = DznJsonAst(json_contents=doc)
                results.append(None)
                kept.append(None)
            elif kind == 'load':
                with tempfile.NamedTemporaryFile('w', suffix='.json', delete=False) as f:
                    f.write(json.dumps(case['docs'][o[2]]))
                try:
                    insts.setdefault(k, DznJsonAst()).load_file(f.name)
                finally:
                    os.unlink(f.name)
                results.append(None)
                kept.append(None)
            else:
                try:
                    fc = insts.setdefault(k, DznJsonAst()).process()
                    results.append({'ok': M.dump_fc(fc)})
                    kept.append(fc)
                except Exception as e:  # noqa
                    results.append({'err': err_tag(e)})
                    kept.append(None)
        final = [({'ok': M.dump_fc(fc)} if fc is not None else r) for fc, r in zip(kept, results)]
        return {'results': results, 'final': final}

    def shape(self, case, impl_out):
        procs = [o[1] for o in case['ops'] if o[0] == 'process']
        return canon(case) if len(procs) != len(set(procs)) or len(set(o[1] for o in case['ops'])) > 1 else None

    def classify(self, case, impl_out):
        n = len([o for o in case['ops'] if o[0] == 'process'])
        return 'process:' + ('0' if n == 0 else '1-3' if n <= 3 else '4-10' if n <= 10 else '>10')


PROP = C16()
