import itertools
from harness.progprop import ProgProp
from harness import cxx_run as X


class C09(ProgProp):
    id = 'C09'
    theorems = ['C09.createConstructor_mil', 'C09.milFacts_of_mil', 'C09.create_succeeds_iff_no_facilities', 'C09.import_succeeds_iff_both_facilities', 'C09.create_owns_fresh_facilities', 'C09.import_uses_user_facilities', 'C09.failure_before_component', 'C09.no_check_no_failure', 'C09.locator_accessor_iff_create', 'C09.build_milFacts', 'C09.build_create', 'C09.build_import']
    proof_modules = ['DznProofs.C09']
    scripts_per_program = 1
    level_rule = ('compiled programs x all 2^3 presence combinations (dispatcher, runtime, other service) of the '
                  'user locator x both origins; object identities printed by the driver; SFINAE probe for Locator(); '
                  'non-trivial = every scenario; distinct = distinct (model, cfg, scenario)')

    def compile_failure(self, case, log):
        if case['cfg']['origin'] == 'create' and 'predicted presence of Locator()' in log:
            return ['a shell that creates its facilities offers no Locator() accessor: its locator is not available']
        return []

    def gen_scripts(self, rng, case, spec):
        lines = []
        for pump, runtime, extra in itertools.product((0, 1), repeat=3):
            lines.append(f'world pump={pump} runtime={runtime} extra={extra} name=n{pump}{runtime}{extra}')
            lines.append('bind')
            lines.append('final 1')
        return [lines]

    def monitor(self, case, spec, script, segs):
        failed = []
        origin = case['cfg']['origin']
        struct = spec['shell_struct']
        for op, pre, term, post in segs:
            t = op.split(' ')
            if t[0] != 'world':
                continue
            kv = dict(x.split('=') for x in t[1:])
            pump, runtime, extra = int(kv['pump']), int(kv['runtime']), int(kv['extra'])
            if origin == 'create':
                if pump:
                    want = f'world exc runtime_error {struct}: Overlapping dispatcher found (dzn::pump)'
                elif runtime:
                    want = f'world exc runtime_error {struct}: Overlapping Dezyne runtime found (dzn::runtime)'
                else:
                    want = 'world ok'
            else:
                if not pump:
                    want = f'world exc runtime_error {struct}: Dispatcher missing (dzn::pump)'
                elif not runtime:
                    want = f'world exc runtime_error {struct}: Dezyne runtime missing (dzn::runtime)'
                else:
                    want = 'world ok'
            if term != want:
                failed.append(f'{op}: {term} (want {want})')
                continue
            if term != 'world ok':
                continue
            fac = dict(x.split('=', 1) for x in post[0].split(' ')[1:])
            nkeys = pump + runtime + extra
            if fac['proto_keys'] != f'{nkeys}/{nkeys}':
                failed.append(f'{op}: prototype locator modified {fac["proto_keys"]}')
            if fac['comp_extra'] != str(extra):
                failed.append(f'{op}: component locator lost/gained the user service')
            # the component's locator holds exactly the prototype's services plus (create) the two fresh facilities
            want_keys = nkeys + 2 if origin == 'create' else nkeys
            if 'comp_keys' in fac and int(fac['comp_keys']) != want_keys:
                failed.append(f'{op}: the locator handed to the component holds {fac["comp_keys"]} services, not {want_keys}')
            if origin == 'create':
                want_f = {'comp_loc': 'other', 'comp_pump': 'other', 'comp_runtime': 'other', 'has_locator': '1',
                          'locator_is_comp_loc': '1'}
            else:
                want_f = {'comp_loc': 'proto', 'comp_pump': 'proto', 'comp_runtime': 'proto', 'has_locator': '0',
                          'locator_is_comp_loc': 'na'}
            for k, v in want_f.items():
                if fac[k] != v:
                    failed.append(f'{op}: {k}={fac[k]} (want {v})')
            if fac['meta_name'] != kv['name']:
                failed.append(f'{op}: meta_name={fac["meta_name"]}')
        return failed


PROP = C09()
