from harness.common import Prop, canon, scale
from harness import gen_models as M


class C05(Prop):
    id = 'C05'
    theorems = ['C05.roundtrip', 'C05.unknown_skipped', 'C05.fqn_is_path_plus_name', 'C05.unknown_object_skipped', 'C05.nondict_skipped', 'C05.skipped_element_irrelevant']
    proof_modules = ['DznProofs.C05', 'DznProofs.C05Skip']
    level_rule = ('random Dezyne source trees (namespace depth<=6 incl. multi-identifier and re-opened '
                  'namespaces, every declaration kind, nested enums/subints, empty containers, names '
                  'reused across scopes, unknown classes and non-dict elements) encoded by the harness '
                  '(the Lean encode is compared with it), parsed by the real DznJsonAst; non-trivial = '
                  '>=2 declarations; distinct = distinct source tree')

    def streams(self, rng, tier):
        n = 1200 if tier == 'quick' else scale(60000)
        corpus = [[], [{'k': 'namespace', 'name': ['A', 'B'], 'elems': [{'k': 'namespace', 'name': ['A'], 'elems': [
            {'k': 'interface', 'name': ['I'], 'types': [{'k': 'enum', 'name': ['E'], 'fields': ['X']}], 'events': []}]}]},
            {'k': 'namespace', 'name': ['A', 'B'], 'elems': [{'k': 'enum', 'name': ['E'], 'fields': []}]},
            {'k': 'unknown', 'cls': 'bool'}, {'k': 'nondict', 's': 'junk'}]]
        mk = lambda src: {'op': 'c05', 'src': src, 'ast': M.enc_root(src)}
        yield 'corpus', [mk(s) for s in corpus]
        yield 'files', [mk(M.gen_file(rng, maxdepth=rng.choice([1, 3, 6]))) for _ in range(n)]
        yield 'name-clash', [mk(M.gen_file(rng, maxdepth=3, pool=M.NAMES3)) for _ in range(n // 2)]
        # elements of classes the parser does not know, with any payload (names as plain strings, odd dicts, lists),
        # inserted at root, in namespaces and among an interface's types: the result is that of the document without them
        import copy
        skips = []
        payloads = [{}, {'name': 'plain'}, {'name': {'<class>': 'weird', 'x': 1}}, {'name': ['a', 'b']}, {'name': 5},
                    {'name': {'<class>': 'scope_name', 'ids': ['ok']}}, {'elements': 7}, {'value': None, 'name': ''}]
        for _ in range(n // 4):
            src = M.gen_file(rng, maxdepth=rng.choice([1, 2, 3]))
            without = M.enc_root(src)
            doc = copy.deepcopy(without)
            for _k in range(rng.randint(1, 3)):
                lists = [p for p in M.all_paths(doc) if isinstance(M.get_at(doc, p), list) and p and p[-1] == 'elements'
                         and M.get_at(doc, p[:-1]).get('<class>') in ('root', 'namespace', 'types')]
                p = rng.choice(lists)
                lst = M.get_at(doc, p)
                el = dict(rng.choice(payloads))
                el['<class>'] = rng.choice(['bogus', 'event', 'port', 'import2', 'Component', 'behaviour'])
                lst.insert(rng.randint(0, len(lst)), el)
            skips.append({'op': 'c05.skip', 'src': src, 'ast': doc, 'without': without})
        yield 'unknown-with-payload', skips

    def impl(self, case):
        if case['op'] == 'c05.skip':
            return {'with': M.parse_real(case['ast']), 'without': M.parse_real(case['without'])}
        return M.parse_real(case['ast'])

    def shape(self, case, impl_out):
        return canon(case['src']) if M.count_decls(case['src']) >= 2 else None

    def classify(self, case, impl_out):
        n = M.count_decls(case['src'])
        if case['op'] == 'c05.skip':
            return 'skip:' + ('same' if impl_out['with'] == impl_out['without'] else 'differs')
        return ('err:' + impl_out['err']) if 'err' in impl_out else ('decls:' + ('0' if n == 0 else '1-5' if n <= 5 else '6-20' if n <= 20 else '>20'))


PROP = C05()
