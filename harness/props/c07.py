import copy
from harness.common import Prop, canon, scale
from harness import gen_build as G
from harness import gen_models as M


def clash_case(rng, want_mc=None):
    """a buildable case whose names collide across sibling / nested / global namespaces and whose
    references are then re-spelled at random (simple, partially or fully qualified) — some spellings
    resolve uniquely, others are ambiguous, missing or of the wrong kind"""
    saved = (G.ITF_NAMES, G.EXT_NAMES, G.ENUM_NAMES, G.NS_POOL)
    G.ITF_NAMES, G.EXT_NAMES, G.ENUM_NAMES = ['I', 'T'], ['T', 'I', 'X'], ['E', 'T']
    if want_mc:
        G.ENUM_NAMES = ['T', 'X', 'E']      # the claim's reply enum shares its simple name with externs
    G.NS_POOL = rng.choice([[[], ['A'], ['A', 'B'], ['B'], ['A', 'B', 'A']],
                            [[], ['A'], ['AB'], ['A', 'B'], ['A', 'BA'], ['A_', 'B']]])
    if rng.random() < 0.5:
        G.ITF_NAMES, G.EXT_NAMES = ['I', 'IH', 'T'], ['T', 'TT', 'I']
    try:
        c = G.gen_case(rng, want_mc=(rng.random() < 0.2) if want_mc is None else want_mc)
    finally:
        G.ITF_NAMES, G.EXT_NAMES, G.ENUM_NAMES, G.NS_POOL = saved
    src = c['src']
    info = c['_info']

    def respell(fqn):
        k = rng.randint(1, len(fqn))
        return fqn[len(fqn) - k:]
    comp = G.find_elem(src, lambda e: e['k'] in ('component', 'system'))
    for p, ip in zip(comp['ports'], info['ports']):
        if rng.random() < 0.6:
            p['type'] = respell(ip['_itf'])
    # extra same-named declarations in unrelated and in enclosing namespaces
    for _ in range(rng.randint(0, 3)):
        ns = rng.choice([[], ['A'], ['B'], ['A', 'B'], ['C'], ['AB'], ['A', 'BA'], ['A', 'I'], ['I']])
        kind = rng.choice(['interface', 'extern', 'enum'])
        name = rng.choice(['I', 'T', 'E', 'X'])
        if kind == 'interface':
            node = {'k': 'interface', 'name': [name], 'types': [], 'events': []}
        elif kind == 'extern':
            node = {'k': 'extern', 'name': [name], 'value': 'int'}
        else:
            node = {'k': 'enum', 'name': [name], 'fields': ['Ok']}
        for part in reversed(ns):
            node = {'k': 'namespace', 'name': [part], 'elems': [node]}
        src.append(node)

    def respell_formals(elems):
        for e in elems:
            if e['k'] == 'namespace':
                respell_formals(e['elems'])
            elif e['k'] == 'interface':
                for ev in e['events']:
                    for f in ev['formals']:
                        if rng.random() < 0.3:
                            f['type'] = f['type'][-rng.randint(1, len(f['type'])):]
    respell_formals(src)
    out = {k: v for k, v in c.items() if k != '_info'}
    out['op'] = 'build.c07'
    out['ast'] = M.enc_root(src)
    out['expect'] = 'any'
    return out


def same_spelling_case(rng):
    """one written spelling (`T`, or a partially qualified `X.T`) that denotes *different* extern
    declarations from different referring scopes: every scope declares its own `T` with a distinct
    C++ type, the interfaces live in (or below) those scopes and type their event formals by the
    same short spelling; all ports are rerouted (MTS) so that every formal type is looked up"""
    pool = [['A'], ['B'], ['A', 'B'], ['C'], ['A', 'C'], ['B', 'A'], ['AB'], []]
    scopes = rng.sample(pool, rng.randint(2, 4))
    ctypes = rng.sample(['int', 'long', '::vt::Ext<1>', '::vt::Ext<2>', 'short'], len(scopes))

    def wrap(ns, node):
        for part in reversed(ns):
            node = {'k': 'namespace', 'name': [part], 'elems': [node]}
        return node
    src, itfs = [], []
    for k, (sc, ct) in enumerate(zip(scopes, ctypes)):
        src.append(wrap(sc, {'k': 'extern', 'name': ['T'], 'value': ct}))
        isc = sc + rng.choice([[], [], ['In']])
        spelling = ['T'] if rng.random() < 0.7 or not sc else [sc[-1], 'T']
        events = []
        for j in range(rng.randint(1, 3)):
            d = rng.choice(['in', 'out'])
            fs = [{'name': 'a%d' % i, 'type': list(spelling), 'dir': 'in' if d == 'out' else rng.choice(['in', 'out', 'inout'])}
                  for i in range(rng.randint(1, 2))]
            events.append({'name': 'ev%d' % j, 'reply': ['void'], 'formals': fs, 'dir': d})
        src.append(wrap(isc, {'k': 'interface', 'name': ['I%d' % k], 'types': [], 'events': events}))
        itfs.append(isc + ['I%d' % k])
    rng.shuffle(src)
    ports = [{'name': 'p%d' % k, 'type': list(fq), 'dir': rng.choice(['provides', 'requires']), 'formals': [],
              'injected': False} for k, fq in enumerate(itfs)]
    src.append(wrap(['Z'], {'k': 'component', 'name': ['Comp'], 'ports': ports}))
    cfg = {'filename': 'Model.dzn', 'suffix': 'AdvShell', 'encapsulee': ['Z', 'Comp'],
           'ports': {'psts': {'w': 'none'}, 'pmts': {'w': 'all'}, 'rsts': {'w': 'none'}, 'rmts': {'w': 'all'}},
           'multiclient': None, 'origin': rng.choice(['create', 'import']), 'copyright': 'c', 'prefix': None,
           'creator': None}
    return {'op': 'build.c07', 'src': src, 'ast': M.enc_root(src), 'cfg': cfg, 'expect': 'any'}


def walk_interfaces(elems, ns=()):
    for e in elems:
        if e['k'] == 'namespace':
            yield from walk_interfaces(e['elems'], ns + tuple(e['name']))
        elif e['k'] == 'interface':
            yield list(ns) + list(e['name']), e, elems


def mc_then_plain(rng):
    """a valid multi-client case in which only the provides ports are rerouted, then the same parsed model
    with every port rerouted; a formal of a requires port's interface is spelled by the simple name of the claim's
    reply enum, and a global extern of that name exists too: from that interface's scope the spelling denotes
    the extern alone, or (enum on the scope chain as well) no unique declaration"""
    saved = (G.ITF_NAMES, G.EXT_NAMES, G.ENUM_NAMES, G.NS_POOL)
    G.NS_POOL = [[], ['A'], ['A', 'B'], ['B'], ['A', 'B', 'A']]
    try:
        c = G.gen_case(rng, want_mc=True)
    finally:
        G.ITF_NAMES, G.EXT_NAMES, G.ENUM_NAMES, G.NS_POOL = saved
    m = c['cfg'].get('multiclient')
    info = c['_info']
    if not m:
        return None
    p0 = next(p for p in info['ports'] if p['name'] == m['port'])
    itf0 = next(i for i in info['interfaces'] if i['fq'] == p0['_itf'])
    claim = next(e for e in itf0['events'] if e['name'] == m['claim'])
    name = claim['_reply']['fqn'][-1]
    src = c['src']
    others = [(fq, node, cont) for fq, node, cont in walk_interfaces(src) if fq != p0['_itf']
              and any(p['_itf'] == fq and not p['injected'] and p['dir'] == 'requires' for p in info['ports'])
              and not any(p['_itf'] == fq and p['dir'] == 'provides' for p in info['ports'])]
    cands = [(fq, ev, f, cont) for fq, node, cont in others for ev in node['events'] for f in ev['formals']]
    if not cands:
        return None
    for fq, ev, f, cont in rng.sample(cands, min(len(cands), rng.randint(1, 2))):
        f['type'] = [name]
        # an extern of that name next to the interface (or at global scope)
        where = cont if rng.random() < 0.7 else src
        if not any(e['k'] != 'namespace' and e['name'] == [name] for e in where):
            where.insert(rng.randint(0, len(where)), {'k': 'extern', 'name': [name], 'value': 'int'})
    a = {k: v for k, v in c.items() if k != '_info'}
    a.update(op='build.c07', ast=M.enc_root(src), expect='any', force_session=True)
    # the provides side cannot be mixed: all provides ports rerouted, no requires port rerouted
    a['cfg']['ports'] = {'psts': {'w': 'none'}, 'pmts': {'w': 'all'}, 'rsts': {'w': 'all'}, 'rmts': {'w': 'none'}}
    b = copy.deepcopy(a)
    b['cfg']['multiclient'] = None
    b['cfg']['ports'] = {'psts': {'w': 'none'}, 'pmts': {'w': 'all'}, 'rsts': {'w': 'none'}, 'rmts': {'w': 'all'}}
    return [a, b]


class C07(Prop):
    id = 'C07'
    theorems = ['C07.port_type_is_the_denoted_interface', 'C07.port_lookup_error', 'C07.formal_type_is_the_denoted_extern', 'C07.formal_lookup_error', 'C07.lambda_params_typed', 'C07.elements_denote', 'C07.lookup_errors', 'C07.unrelated_declarations_irrelevant', 'C07.second_candidate_is_an_error', 'C14.find_fqn_spec', 'C14.order']
    proof_modules = ['DznProofs.C07']
    level_rule = ('models in which interfaces, externs and enums share the simple names I/T/E/X across global, '
                  'sibling and nested namespaces A, A.B, B, A.B.A; every reference re-spelled at random as a '
                  'suffix of the fully qualified name (simple / partial / full) plus extra same-named '
                  'declarations in related and unrelated scopes; the monitor resolves every written name with the '
                  'specification lookup (unique member of the scope chain) and checks the generated accessor and '
                  'lambda types against it, or demands a library error when there is no unique candidate of the '
                  'right kind; a second stream gives every scope its own extern T with a distinct C++ type and types the '
                  'formals of interfaces in different scopes by the same short spelling; '
                  'non-trivial = >=1 port; distinct = distinct case')

    def streams(self, rng, tier):
        n = 400 if tier == 'quick' else scale(20000)
        yield 'name-clash', [clash_case(rng) for _ in range(n)]
        yield 'same-spelling', [same_spelling_case(rng) for _ in range(n // 2)]
        # a multi-client shell first, then the same parsed model (and the same Builder) used for a shell in which
        # every port is rerouted, so that every formal's type is looked up: the lookups of the second build see
        # the declarations as written, whatever the first build did with them
        pairs = []
        for _ in range(n * 4):
            pr = mc_then_plain(rng)
            if pr:
                pairs += pr
            if len(pairs) >= n // 4:
                break
        yield 'mc-then-plain', pairs
        plain = []
        for _ in range(n // 4):
            c = G.gen_case(rng)
            d = {k: v for k, v in c.items() if k != '_info'}
            d['op'] = 'build.c07'
            plain.append(d)
        yield 'plain', plain

    def impl(self, case):
        r = G.build_impl(case, fresh=False) if case.get('force_session') else G.build_impl(case)
        if 'ok' in r:
            r = {'ok': {'files': r['ok']['files'][:2]}}
        return r

    def project(self, case, out):
        from harness.common import code_projection
        return code_projection(out)

    def shape(self, case, impl_out):
        return canon([case['src'], case['cfg']])

    def classify(self, case, impl_out):
        return impl_out.get('err', 'ok')


PROP = C07()
