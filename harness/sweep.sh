#!/bin/bash
# usage: harness/sweep.sh <tier> [seed]   — setup, then every check once; one summary line per check
cd "$(dirname "$0")/.." || exit 2
export VERIF_SEED=${2:-0}
/venv/bin/python harness/extract_literals.py && (cd lean && lake build) > sweep_setup.log 2>&1 || { echo "setup failed"; tail -20 sweep_setup.log; exit 2; }
for i in 01 02 03 04 05 06 07 08 09 10 11 12 13 14 15 16 17 18 19 20; do
  s=$(date +%s)
  ./check C$i --tier $1 > sweep_C$i.log 2>&1; rc=$?
  echo "C$i rc=$rc $(( $(date +%s)-s ))s $(grep -c KNOWN-FINDING sweep_C$i.log) known | $(grep -E 'VIOLATION' sweep_C$i.log | cut -c1-160) | $(grep -E 'tier=' sweep_C$i.log | cut -c1-200)"
done
