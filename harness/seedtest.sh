#!/bin/bash
# usage: harness/seedtest.sh <seed-dir-name> <check ids...>   — apply a seeded change to /repo, run the
# checks, undo the change again (always), print one summary line per check
seed=$1; shift
patch=/verif/seeded/$seed/patch.diff
cd /repo || exit 2
if ! git diff --quiet; then echo "/repo has uncommitted changes"; exit 2; fi
git apply "$patch" || { echo "patch does not apply"; exit 2; }
trap 'git -C /repo checkout -- . ' EXIT
for c in "$@"; do
  out=$(cd /verif && ./check $c 2>&1 | grep -E "VIOLATION|KNOWN-FINDING|tier=" | cut -c1-300)
  echo "== seed $seed check $c"; echo "$out"
done
