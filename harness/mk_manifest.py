#!/usr/bin/env python3
"""Regenerates /verif/MANIFEST.json from the table below (run by hand after editing)."""
import json
import os

VERIF = os.path.dirname(os.path.dirname(os.path.abspath(__file__)))

LEVEL_NOTE = ('Trusted: Lean 4.33 kernel; axioms ⊆ {propext, Classical.choice, Quot.sound} (audited by '
              '#print axioms on every run; no native_decide/bv_decide/sorry/own axioms); the hand-written '
              'model is tied to /repo/src by the correspondence run of this check (sampled) and the '
              'translator for literal texts; CPython primitives as modelled in DznModel/Py.lean.')

CHECKS = {
    'C17': ('Lean theorems C17.* (lines = depth-first pieces, no stored line has a boundary, str form, '
            'round trip, append/+ = concatenation, trim, chunk, cond_chunk) for all content trees; model tied to '
            'text_gen.py/misc_utils.py by differential runs over generated content trees; the monitor '
            'evaluates the same specification on the implementation output. Over object histories (C17Hist): a TextBlock '
            'under any sequence of append/+=/trim/indent/set_indentor/lines=/+/pour/str keeps the no-line-break invariant '
            '(step_inv, hist_no_break) and its string form is header + CURRENT lines (hist_str); tie: the same histories '
            'on one real object (tb.hist).', '§0.7 round 4, §6 C17', ''),
    'C18': ('Lean theorems C18.* (every clause of the indentation specification holds for all '
            'configurations and line sequences; length, text preservation, bullet width, header, '
            'composition, to_str = to_list; indentation inside object histories: C17.hist_indent); tie: differential runs through '
            'Indentizer.to_list/to_str, TextBlock.indent and object histories (tb.hist).', '§6 C18', ''),
    'C19': ('Lean theorems C19.* (every rendered comment line is "//" or "// "+text for all content); '
            'C17.hist_comment: in every state a Comment object reaches by extension/trim/+/pour/render, in any order, it renders '
            'as the // rendering of its current lines; C19.files_code_independent for the files clause; '
            'tie: differential runs of cpp_gen.Comment on hostile text, Comment object histories, build pairs that differ '
            'only in copyright/creator (incl. texts whose first line already looks like a comment); histories over several blocks incl. copy.deepcopy (C17.clone_equal, C17.clone_independent: a clone is equal and separate).', '§6 C19', ''),
}

CHECKS.update({
    'C05': ('Lean theorem C05.roundtrip: parse (encode f) = collect f for every well-formed declaration tree '
            '(unbounded nesting/size), plus unknown_skipped and fqn_is_path_plus_name; tie: random source trees '
            'encoded by the harness (compared with the Lean encode) and parsed by the real DznJsonAst, dumps '
            'diffed; monitor: implementation dump = specification collect.', '§6 C05', ''),
    'C14': ('Lean theorems C14.* (resolution order = scope chain, find_fqn/find_any = filter specifications, '
            'sublist/each once, validity of every NamespaceIds handed out, lossless notations); tie: real '
            'find_fqn/find_any/scope_resolution_order/namespaceids_t on FileContents obtained through the real parser; '
            'FindResult.has_one_instance / get_single_instance with every type hint (C14Single: a declaration is handed out iff it is '
            'the only one on the scope chain and of the hinted kind, every failure is FindError, test and getter agree).',
            '§6 C14', ''),
    'C15': ('Lean theorems C15.no_internal (for every JSON value only the two documented errors) and '
            'C15.out_event_refused over a model that carries Python failure modes; C15.bad_document_refused: the clause read off the INPUT - a document in which an interface reachable from the root lists an out event with an out parameter is never parsed successfully, whatever else it contains; tie: mutation stream '
            '(delete/retype/retag) + arbitrary roots + skipped elements (unknown <class>) with every field retyped in turn, outcome class compared; the monitor evaluates the out-event clause on the result and on the input document.', '§6 C15',
            'Interpreter stack depth is not modelled (documents up to the loader limit of ~509 nested namespaces are exercised).'),
    'C16': ('Lean theorem C16.history_free over the parser-object state machine (any history of new/load/process on '
            'any instances) + instances_isolated; tie: random histories against the real class (incl. long-lived instances '
            'serving hundreds of mostly refused documents), results re-dumped at the end to catch retroactive mutation.', '§6 C16', ''),
})

PROG_NOTE = ('Program-level: the Dezyne C++ runtime and the Dezyne-generated model header are mocked (harness/cxx, '
             'DESIGN Appendix B); generated headers get a leading "#pragma once" (guard shim, finding D-7) except in C06.')
CHECKS.update({
    'C01': ("Lean theorems C01.*: at the level of Builder.build (build_forwards_in_event, build_forwards_requires_out, build_forwards_provides_out): for every model and configuration the builder accepts, in the shell constructed from the generated wiring every in-event of a multi-threaded provides port / out-event of a requires port / out-event raised by the component is forwarded exactly once, intact, in declared order, with reply and out-values carried back; below them assign_origin (every constructor assignment is one of six kinds), constructed_store (what the slots hold after the constructor), a worked instance (ex_forwarded). Tie: byte-exact text model of Builder.build; routing table read back from the IMPLEMENTATION's source text (DznModel.IrParse) and compared in Lean with the table the Dezyne model demands (DznModel.SpecRouting); real generator output compiled against the mock runtime, traces compared with Sem.runScript.",
            '§0, §6 C01', PROG_NOTE),
    'C02': ("Lean theorems C02.* incl. build-level corollaries (build_mts_in_event_in_dispatcher: through dzn::shell once, observed with disp=1, reply after the dispatcher ran; build_mts_requires_out_queued: returns at once, closure owns copies, dispatcher runs it; build_sts_port_bypasses_dispatcher: no constructor assignment touches an STS port, the call runs the component's handler directly), dangling captures flagged, accessor types, partition; tie: routing table from the implementation text (by-value capture lists), compiled programs (dispatch flag, posted/shell counters, identity, static_assert of accessor types), text-level capture-list monitor on exotic extern types.",
            '§0, §6 C02', PROG_NOTE),
    'C04': ("Lean theorems C04.*: the generated per-client wrappers EXECUTED over whole histories (history_refines: after any sequence of claims/releases by any number of registered clients the slots are unchanged, nothing is pending and the selector is the abstract machine's state; history_delivery: an out-event is observed by exactly the selected client or by nobody; history_holder: = the specification's holder when nobody releases a foreign claim; build_mc_wired / build_history_holder: the same for the shell Builder.build generates for every accepted model and configuration with any registered clients), frame_invoke_drain (calls never rebind events), refinement/soundness of the abstract machine, names from configuration, cfg errors, worked shell (mc_wired, mc_example) + proved witness of finding D-9; tie: routing table incl. per-client wrappers from the implementation text, compiled multi-client programs on random claim/release/out histories.",
            '§0, §6 C04', PROG_NOTE + ' Partial while D-9 is recorded. The wrapped mock component can react (raise an out-event while it handles an in-event); Sem.invokeR models it (conservative: SemReact.invokeR_nil) and C04.release_reaction_reaches_holder proves that such an out-event raised during the holder\'s release reaches the holder before it is deselected.'),
    'C06': ('PARTIAL. Lean theorems C06.* on the generator model and the translated include tables (eight files, support file names, include closure of support headers and of the shell header, named scope for non-global encapsulees, proved witness of D-8); structural clauses (incl. every m_ member the source uses is declared, every declared function defined once with matching signature) evaluated in Lean on the real file sets; full-text correspondence with the model; compiler acceptance only sampled (g++: headers alone/twice, two prefixes, shell used from a second TU and linked, verbatim files).',
            '§0, §6 C06', 'Compiler acceptance is not provable in the model; seven recorded findings (known_findings.json).'),
    'C07': ('Monitor: specification lookup (unique member of the scope chain, of the right kind) decides accessor and lambda '
            'types or demands a library error, on name-clash model families; tie: byte-exact model of the builder; Lean: '
            'C14.find_fqn_spec (lookup = chain filter) underlies both; C07-specific theorems listed in the evidence. Stream mc-then-plain: a multi-client shell first, then the same parsed model with every port rerouted and a formal spelled by the reply enum\'s simple name (lookups see the declarations as written, whatever an earlier build did).', '§6 C07', ''),
    'C08': ('Lean: order-freedom theorems of the port-selection model up to build_cfg_order_free, MD5 (RFC 1321 vectors by kernel evaluation); tie: child interpreters with PYTHONHASHSEED 0..15 x shuffled set construction orders x a different order of the builds inside each process, sha256 of all files equal across children and equal to the Lean model output; GeneratedContent.hash = model MD5.',
            '§6 C08', ''),
    'C09': ("Lean theorems C09.*: the semantics reads the facility initialisers from the IR's member-initialiser list (milFacts); createConstructor_mil / build_milFacts say what the generator emits; build_create / build_import: for every accepted model and configuration construction succeeds iff (create) the prototype carries neither dispatcher nor runtime / (import) both, with the ownership/identity bookkeeping of each origin; no_check_no_failure; Locator()/runtime members iff create; tie: compiled programs over all 2^3 locator contents x origin + text correspondence.",
            '§0, §6 C09', PROG_NOTE),
    'C10': ('Lean theorems C10.*: the semantics executes the GENERATED FinalConstruct statements (ir.finalConstruct); createFinalConstructFn_stmts / build_final_stmts say which statements are generated; build_detects_unbound_boundary / _component / _client: in the shell generated for any accepted model and configuration a single unbound event of an exposed port, of a component port or of a registered client port makes final construction fail; locked after success, all-bound ⇒ success; tie: compiled programs with EVERY single slot left unbound in turn + text correspondence.',
            '§0, §6 C10', PROG_NOTE),
    'C11': ('PARTIAL. Lean theorems C11.* over an interleaving model (any number of threads, any schedule): inductive mutual '
            'exclusion invariant, selection accessed only by the lock owner, RAII of the lock handle, no deadlock, proved '
            'witness of the D-9 race; tie: real shells with a threaded mock pump, 2-3 client threads + dispatcher thread, '
            'g++ runs monitored against the holder specification (incl.: no out-event is delivered to a client that certainly does not hold the claim - intervals from claim-begin to refusal / release-end in the log), clang++ ThreadSanitizer runs for data races.', '§6 C11',
            'C++ memory model, std::mutex, the real dzn::pump are not exhibited by the model; schedules are sampled by the OS.'),
    'C12': ('Lean theorems C12.* (builder state machine is history free, outputs of a history = fresh builds, support files stand alone; on the heap model of the scoping layer DznModel.ScopingHeap - NamespaceIds as references to mutable list cells - step_frame: an operation changes no pre-existing object except the target of += / pop, step_fresh: results of +, deepcopy, sum, scope_resolution_order, fqn, fqn_member_name and conversions are new objects, run_frame over histories, sro_refines/add_refines: values agree with the pure model); tie: heap histories on real NamespaceIds/NamespaceTree objects (contents of every live object and the sharing of list objects compared after every step), histories of builds on shared parsed models, sibling models (same names, other meanings) and colliding prefixes, deep before/after snapshots, one Builder and one Configuration object edited in place per history, every result compared with a fresh interpreter and with the model.',
            '§6 C12', 'Purity of the model is by construction; the substance for the implementation is the tie.'),
    'C13': ('Lean theorems C13.* (trichotomy of build: files / library error, never internal; complete_file_set; valid_succeeds for the declarative predicate Valid with a worked instance; invalid_fails per class of invalid input); tie + monitor: valid cases and every applicable single-fault variation (incl. ALL next to REMAINING/ALL, ambiguous port type), outcome class and file-name list compared with the byte-exact Lean model of Builder.build which carries Python failure modes; generator-labelled expectation as independent oracle; never hangs: every in-process call under a 20 s alarm, unusual model file names built in child interpreters under a watchdog.',
            '§0, §6 C13', ''),
})

CHECKS.update({
    'C03': ('Lean theorems C03.* over the port-selection model (the if/elif chain = explicit-name-first-else-covering-'
            'wildcard, totality of the matched dictionary, every listed fault rejected with the configuration error, '
            'order freedom, at most one semantics); tie: exhaustive selections up to 2 (quick) / 3 (thorough) names per '
            'side through PortsCfg.match (the user\'s selection objects are snapshotted around the call and the same configuration object is asked twice: the resolution is a function of configuration and port names) and a through-build stream (injected ports, uncovered ports).', '§6 C03', ''),
    'C20': ('PARTIAL. Lean theorems C20.* (declaration = definition + default, declaration/definition shapes, definition '
            'ignores prefix/override/defaults/explicit, no definition when initialised, balanced namespace/struct blocks); '
            'tie: random descriptors through the real cpp_gen classes (defaults with significant whitespace, contents blocks with a '
            'header, blocks built without contents and extended through the getter); a signature reader evaluates the clauses on the '
            'rendered text, incl. that the declaration carries exactly the described default values and that virt-specifiers precede the initialiser.', '§6 C20', 'Compiler acceptance of arbitrary compositions is not expressible in the model.'),
})

NOT_YET = {}


def main():
    props = [json.loads(l) for l in open(os.path.join(VERIF, 'properties.jsonl'))]
    checks, na = [], []
    for p in props:
        pid = p['id']
        if pid in CHECKS:
            text, ref, extra_note = CHECKS[pid]
            checks.append({
                'property_id': pid,
                'quick_cmd': f'./check {pid} --tier quick',
                'thorough_cmd': f'./check {pid} --tier thorough',
                'evidence_file': f'/verif/evidence/{pid}.json',
                'replay_cmd_template': f'./check {pid} --replay {{path}}',
                'engine': 'lean-proof+correspondence',
                'level_claimed': {'category': 'proof', 'text': text, 'design_ref': 'DESIGN.md ' + ref},
                'level_note': LEVEL_NOTE + (' ' + extra_note if extra_note else ''),
                'technique': 'Lean 4 theorems about an executable model + checked model/implementation correspondence',
            })
        else:
            na.append({'property_id': pid,
                       'reason': NOT_YET.get(pid, 'check not built yet in this round (planned: DESIGN.md §9.1); '
                                                  'the technique applies, nothing is claimed until the check exists')})
    man = {
        'version': 1,
        'setup_cmd': 'cd /verif && /venv/bin/python harness/extract_literals.py && cd lean && lake build',
        'hooks': {'guard': 'DZNPY_VERIF', 'enable': 'no source hooks are used; checks import /repo/src with '
                  'PYTHONPATH=/repo/src and set DZNPY_VERIF=1 (reserved)',
                  'baseline_off_cmd': 'cd /repo && /venv/bin/python -m pytest -ra -q -p no:cacheprovider '
                                      '--timeout=900 --continue-on-collection-errors',
                  'source_commits': [], 'add_only': True},
        'engines': [{'name': 'lean-proof+correspondence', 'path': '/verif/check',
                     'serves_properties': sorted(CHECKS),
                     'kind_free_text': 'Lean 4 proofs about a hand-written executable model (lean/DznModel), '
                                       'line-protocol driver (lean/Main.lean), Python harness running the real '
                                       'dznpy code on generated cases, diff + monitor + verdict protocol'}],
        'checks': checks,
        'not_applicable': na,
        'notes': 'See DESIGN.md. known_findings.json lists fixed and recorded defects.',
    }
    json.dump(man, open(os.path.join(VERIF, 'MANIFEST.json'), 'w'), indent=1, ensure_ascii=False)


if __name__ == '__main__':
    main()
