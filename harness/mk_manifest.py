#!/usr/bin/env python3
"""Regenerates /verif/MANIFEST.json from the table below (run by hand after editing)."""
import json
import os

VERIF = os.path.dirname(os.path.dirname(os.path.abspath(__file__)))

LEVEL_NOTE = ('Trusted: Lean 4.33 kernel; axioms ⊆ {propext, Classical.choice, Quot.sound} (audited by '
              '#print axioms on every run; no native_decide/bv_decide/sorry/own axioms); the hand-written '
              'model is tied to /repo/src by the correspondence run of this check (sampled) and the '
              'translator for literal texts; CPython primitives as modelled in DznModel/Py.lean.')

CHECKS = {
    'C17': ('Lean theorems C17.* (lines = depth-first pieces, no stored line has a boundary, str form, '
            'round trip, append/+ = concatenation, trim, chunk) for all content trees; model tied to '
            'text_gen.py/misc_utils.py by differential runs over generated content trees; the monitor '
            'evaluates the same specification on the implementation output.', '§6 C17', ''),
    'C18': ('Lean theorems C18.* (every clause of the indentation specification holds for all '
            'configurations and line sequences; length, text preservation, bullet width, header, '
            'composition, to_str = to_list); tie: differential runs through Indentizer.to_list/to_str '
            'and TextBlock.indent.', '§6 C18', ''),
    'C19': ('Lean theorems C19.* (every rendered comment line is "//" or "// "+text for all content); '
            'tie: differential runs of cpp_gen.Comment on hostile text; object-unchanged and re-render '
            'clauses are monitored on the implementation.', '§6 C19', ''),
}

CHECKS.update({
    'C05': ('Lean theorem C05.roundtrip: parse (encode f) = collect f for every well-formed declaration tree '
            '(unbounded nesting/size), plus unknown_skipped and fqn_is_path_plus_name; tie: random source trees '
            'encoded by the harness (compared with the Lean encode) and parsed by the real DznJsonAst, dumps '
            'diffed; monitor: implementation dump = specification collect.', '§6 C05', ''),
    'C14': ('Lean theorems C14.* (resolution order = scope chain, find_fqn/find_any = filter specifications, '
            'sublist/each once, validity of every NamespaceIds handed out, lossless notations); tie: real '
            'find_fqn/find_any/scope_resolution_order/namespaceids_t on FileContents obtained through the real parser.',
            '§6 C14', ''),
    'C15': ('Lean theorems C15.no_internal (for every JSON value only the two documented errors) and '
            'C15.out_event_refused over a model that carries Python failure modes; tie: mutation stream '
            '(delete/retype/retag) + arbitrary roots, outcome class compared.', '§6 C15',
            'Interpreter stack depth is not modelled (documents up to the loader limit of ~509 nested namespaces are exercised).'),
    'C16': ('Lean theorem C16.history_free over the parser-object state machine (any history of new/load/process on '
            'any instances) + instances_isolated; tie: random histories against the real class, results re-dumped at '
            'the end to catch retroactive mutation.', '§6 C16', ''),
})

NOT_YET = {}


def main():
    props = [json.loads(l) for l in open(os.path.join(VERIF, 'properties.jsonl'))]
    checks, na = [], []
    for p in props:
        pid = p['id']
        if pid in CHECKS:
            text, ref, extra_note = CHECKS[pid]
            checks.append({
                'property_id': pid,
                'quick_cmd': f'./check {pid} --tier quick',
                'thorough_cmd': f'./check {pid} --tier thorough',
                'evidence_file': f'/verif/evidence/{pid}.json',
                'replay_cmd_template': f'./check {pid} --replay {{path}}',
                'engine': 'lean-proof+correspondence',
                'level_claimed': {'category': 'proof', 'text': text, 'design_ref': 'DESIGN.md ' + ref},
                'level_note': LEVEL_NOTE + (' ' + extra_note if extra_note else ''),
                'technique': 'Lean 4 theorems about an executable model + checked model/implementation correspondence',
            })
        else:
            na.append({'property_id': pid,
                       'reason': NOT_YET.get(pid, 'check not built yet in this round (planned: DESIGN.md §9.1); '
                                                  'the technique applies, nothing is claimed until the check exists')})
    man = {
        'version': 1,
        'setup_cmd': 'cd /verif/lean && lake build',
        'hooks': {'guard': 'DZNPY_VERIF', 'enable': 'no source hooks are used; checks import /repo/src with '
                  'PYTHONPATH=/repo/src and set DZNPY_VERIF=1 (reserved)',
                  'baseline_off_cmd': 'cd /repo && /venv/bin/python -m pytest -ra -q -p no:cacheprovider '
                                      '--timeout=900 --continue-on-collection-errors',
                  'source_commits': [], 'add_only': True},
        'engines': [{'name': 'lean-proof+correspondence', 'path': '/verif/check',
                     'serves_properties': sorted(CHECKS),
                     'kind_free_text': 'Lean 4 proofs about a hand-written executable model (lean/DznModel), '
                                       'line-protocol driver (lean/Main.lean), Python harness running the real '
                                       'dznpy code on generated cases, diff + monitor + verdict protocol'}],
        'checks': checks,
        'not_applicable': na,
        'notes': 'See DESIGN.md. known_findings.json lists fixed and recorded defects.',
    }
    json.dump(man, open(os.path.join(VERIF, 'MANIFEST.json'), 'w'), indent=1, ensure_ascii=False)


if __name__ == '__main__':
    main()
