#!/usr/bin/env python3
"""Regenerates /verif/MANIFEST.json from the table below (run by hand after editing)."""
import json
import os

VERIF = os.path.dirname(os.path.dirname(os.path.abspath(__file__)))

LEVEL_NOTE = ('Trusted: Lean 4.33 kernel; axioms ⊆ {propext, Classical.choice, Quot.sound} (audited by '
              '#print axioms on every run; no native_decide/bv_decide/sorry/own axioms); the hand-written '
              'model is tied to /repo/src by the correspondence run of this check (sampled) and the '
              'translator for literal texts; CPython primitives as modelled in DznModel/Py.lean.')

CHECKS = {
    'C17': ('Lean theorems C17.* (lines = depth-first pieces, no stored line has a boundary, str form, '
            'round trip, append/+ = concatenation, trim, chunk) for all content trees; model tied to '
            'text_gen.py/misc_utils.py by differential runs over generated content trees; the monitor '
            'evaluates the same specification on the implementation output.', '§6 C17', ''),
    'C18': ('Lean theorems C18.* (every clause of the indentation specification holds for all '
            'configurations and line sequences; length, text preservation, bullet width, header, '
            'composition, to_str = to_list); tie: differential runs through Indentizer.to_list/to_str '
            'and TextBlock.indent.', '§6 C18', ''),
    'C19': ('Lean theorems C19.* (every rendered comment line is "//" or "// "+text for all content); '
            'tie: differential runs of cpp_gen.Comment on hostile text; object-unchanged and re-render '
            'clauses are monitored on the implementation.', '§6 C19', ''),
}

CHECKS.update({
    'C05': ('Lean theorem C05.roundtrip: parse (encode f) = collect f for every well-formed declaration tree '
            '(unbounded nesting/size), plus unknown_skipped and fqn_is_path_plus_name; tie: random source trees '
            'encoded by the harness (compared with the Lean encode) and parsed by the real DznJsonAst, dumps '
            'diffed; monitor: implementation dump = specification collect.', '§6 C05', ''),
    'C14': ('Lean theorems C14.* (resolution order = scope chain, find_fqn/find_any = filter specifications, '
            'sublist/each once, validity of every NamespaceIds handed out, lossless notations); tie: real '
            'find_fqn/find_any/scope_resolution_order/namespaceids_t on FileContents obtained through the real parser.',
            '§6 C14', ''),
    'C15': ('Lean theorems C15.no_internal (for every JSON value only the two documented errors) and '
            'C15.out_event_refused over a model that carries Python failure modes; tie: mutation stream '
            '(delete/retype/retag) + arbitrary roots, outcome class compared.', '§6 C15',
            'Interpreter stack depth is not modelled (documents up to the loader limit of ~509 nested namespaces are exercised).'),
    'C16': ('Lean theorem C16.history_free over the parser-object state machine (any history of new/load/process on '
            'any instances) + instances_isolated; tie: random histories against the real class, results re-dumped at '
            'the end to catch retroactive mutation.', '§6 C16', ''),
})

PROG_NOTE = ('Program-level: the Dezyne C++ runtime and the Dezyne-generated model header are mocked (harness/cxx, '
             'DESIGN Appendix B); generated headers get a leading "#pragma once" (guard shim, finding D-7) except in C06.')
CHECKS.update({
    'C01': ('Lean theorems C01.* over the wiring semantics (DznModel.Sem): store after assignments, env→comp and comp→env '
            'forwarding exactly once with intact arguments/reply/out-values, post-then-deliver, arguments in declared order '
            'for every generated lambda; tie: byte-exact model of Builder.build + real generator output compiled against the '
            'mock runtime, program traces compared with the model traces, monitor per stimulus.', '§6 C01', PROG_NOTE),
    'C02': ('Lean theorems C02.* (MTS provides in-events run in dispatcher context through dzn::shell, MTS requires '
            'out-events are queued by value and delivered in dispatcher context, dangling captures are flagged, STS '
            'pass-through, accessor types, partition); tie: compiled programs (dispatch flag, posted/shell counters, '
            'identity, static_assert of accessor types) + text-level capture-list monitor on exotic extern types.', '§6 C02', PROG_NOTE),
    'C04': ('Lean theorems C04.* (selector refines the holder specification for all histories without foreign release, '
            'soundness, ungranted claims, deliver-to-selected-only, names from configuration, cfg errors) + proved witness '
            'of finding D-9; tie: compiled multi-client programs on random claim/release/out histories.', '§6 C04',
            PROG_NOTE + ' Partial while D-9 is recorded.'),
    'C06': ('PARTIAL. Lean theorems C06.* on the generator model and the translated include tables (eight files, support '
            'file names, include closure of support headers, named scope for non-global encapsulees, proved witness of D-8); '
            'structural clauses monitored on the real file sets; compiler acceptance only sampled (g++: headers alone/twice, '
            'two prefixes, shell used from a second TU and linked, verbatim files).', '§6 C06',
            'Compiler acceptance is not provable in the model; seven recorded findings (known_findings.json).'),
    'C07': ('Monitor: specification lookup (unique member of the scope chain, of the right kind) decides accessor and lambda '
            'types or demands a library error, on name-clash model families; tie: byte-exact model of the builder; Lean: '
            'C14.find_fqn_spec (lookup = chain filter) underlies both; C07-specific theorems listed in the evidence.', '§6 C07', ''),
    'C08': ('Tie: child interpreters with PYTHONHASHSEED 0..15 x shuffled set construction orders, sha256 of all files equal '
            'across children and equal to the Lean model output; GeneratedContent.hash = model MD5; Lean: order-freedom '
            'lemmas of the port-selection model and MD5 test vectors.', '§6 C08', ''),
    'C09': ('Lean theorems C09.* (create succeeds iff no facilities in the prototype, import iff both, ownership/identity '
            'bookkeeping, failure before the component exists, Locator()/runtime members iff create); tie: compiled '
            'programs over all 2^3 locator contents x origin.', '§6 C09', PROG_NOTE),
    'C10': ('Lean theorems C10.* (check_bindings ⇔ all events bound, binding error names the slot, detection of any single '
            'unbound boundary or component slot, locked after success, all-bound ⇒ success); tie: compiled programs with '
            'EVERY single slot left unbound in turn.', '§6 C10', PROG_NOTE),
    'C11': ('PARTIAL. Lean theorems C11.* over an interleaving model (any number of threads, any schedule): inductive mutual '
            'exclusion invariant, selection accessed only by the lock owner, RAII of the lock handle, no deadlock, proved '
            'witness of the D-9 race; tie: real shells with a threaded mock pump, 2-3 client threads + dispatcher thread, '
            'g++ runs monitored against the holder specification, clang++ ThreadSanitizer runs for data races.', '§6 C11',
            'C++ memory model, std::mutex, the real dzn::pump are not exhibited by the model; schedules are sampled by the OS.'),
    'C12': ('Lean theorems C12.* (builder state machine is history free, outputs of a history = fresh builds, support files '
            'stand alone); tie: histories of builds on shared parsed models with deep before/after snapshots, every result '
            'compared with a fresh interpreter and with the model.', '§6 C12',
            'Purity of the model is by construction; the substance for the implementation is the tie.'),
    'C13': ('Tie + monitor: valid cases and every applicable single-fault variation, outcome class and file-name list compared '
            'with the byte-exact Lean model of Builder.build which carries Python failure modes (internal/deliberate '
            'errors are representable); generator-labelled expectation as independent oracle.', '§6 C13', ''),
})

CHECKS.update({
    'C03': ('Lean theorems C03.* over the port-selection model (the if/elif chain = explicit-name-first-else-covering-'
            'wildcard, totality of the matched dictionary, every listed fault rejected with the configuration error, '
            'order freedom, at most one semantics); tie: exhaustive selections up to 2 (quick) / 3 (thorough) names per '
            'side through PortsCfg.match and a through-build stream (injected ports, uncovered ports).', '§6 C03', ''),
    'C20': ('PARTIAL. Lean theorems C20.* (declaration = definition + default, declaration/definition shapes, definition '
            'ignores prefix/override/defaults/explicit, no definition when initialised, balanced namespace/struct blocks); '
            'tie: random descriptors through the real cpp_gen classes; a signature reader evaluates the clauses on the '
            'rendered text.', '§6 C20', 'Compiler acceptance of arbitrary compositions is not expressible in the model.'),
})

NOT_YET = {}


def main():
    props = [json.loads(l) for l in open(os.path.join(VERIF, 'properties.jsonl'))]
    checks, na = [], []
    for p in props:
        pid = p['id']
        if pid in CHECKS:
            text, ref, extra_note = CHECKS[pid]
            checks.append({
                'property_id': pid,
                'quick_cmd': f'./check {pid} --tier quick',
                'thorough_cmd': f'./check {pid} --tier thorough',
                'evidence_file': f'/verif/evidence/{pid}.json',
                'replay_cmd_template': f'./check {pid} --replay {{path}}',
                'engine': 'lean-proof+correspondence',
                'level_claimed': {'category': 'proof', 'text': text, 'design_ref': 'DESIGN.md ' + ref},
                'level_note': LEVEL_NOTE + (' ' + extra_note if extra_note else ''),
                'technique': 'Lean 4 theorems about an executable model + checked model/implementation correspondence',
            })
        else:
            na.append({'property_id': pid,
                       'reason': NOT_YET.get(pid, 'check not built yet in this round (planned: DESIGN.md §9.1); '
                                                  'the technique applies, nothing is claimed until the check exists')})
    man = {
        'version': 1,
        'setup_cmd': 'cd /verif && /venv/bin/python harness/extract_literals.py && cd lean && lake build',
        'hooks': {'guard': 'DZNPY_VERIF', 'enable': 'no source hooks are used; checks import /repo/src with '
                  'PYTHONPATH=/repo/src and set DZNPY_VERIF=1 (reserved)',
                  'baseline_off_cmd': 'cd /repo && /venv/bin/python -m pytest -ra -q -p no:cacheprovider '
                                      '--timeout=900 --continue-on-collection-errors',
                  'source_commits': [], 'add_only': True},
        'engines': [{'name': 'lean-proof+correspondence', 'path': '/verif/check',
                     'serves_properties': sorted(CHECKS),
                     'kind_free_text': 'Lean 4 proofs about a hand-written executable model (lean/DznModel), '
                                       'line-protocol driver (lean/Main.lean), Python harness running the real '
                                       'dznpy code on generated cases, diff + monitor + verdict protocol'}],
        'checks': checks,
        'not_applicable': na,
        'notes': 'See DESIGN.md. known_findings.json lists fixed and recorded defects.',
    }
    json.dump(man, open(os.path.join(VERIF, 'MANIFEST.json'), 'w'), indent=1, ensure_ascii=False)


if __name__ == '__main__':
    main()
