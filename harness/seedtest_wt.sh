#!/bin/bash
# usage: harness/seedtest_wt.sh <worktree-with-the-change> <check ids...> — run checks against a scratch worktree
# (VERIF_REPO) instead of patching /repo; used while a long run reads /repo.  One summary line per check.
wt=$1; shift
for c in "$@"; do
  out=$(cd /verif && VERIF_REPO=$wt ./check $c 2>&1 | grep -E "VIOLATION|KNOWN-FINDING|tier=" | grep -v KNOWN | cut -c1-260)
  echo "== wt $wt check $c"; echo "$out"
done
# leave the translated literals as /repo says
(cd /verif && /venv/bin/python harness/extract_literals.py > /dev/null)
