"""
gen_cxx - mock model header, trace driver, build and run helpers for the behavioural tie of
dznpy.adv_shell (see SPEC.md and README.md in this directory).

Stdlib only; does not import dznpy.

Public functions:
    gen_model_header(spec) -> str
    gen_driver(spec) -> str
    build_program(spec, files, workdir, compiler='g++', sanitize=None, guard_shim=True,
                  extra_flags=None) -> (ok, binary_path, compiler_log)
    run_script(binary, script_lines, timeout=20.0) -> (rc, stdout_lines, stderr)
"""

import os
import re
import subprocess
import time

HERE = os.path.dirname(os.path.abspath(__file__))

__all__ = ['gen_model_header', 'gen_driver', 'build_program', 'run_script']


# --------------------------------------------------------------------------------------------------
# spec helpers
# --------------------------------------------------------------------------------------------------

def _cpp(ids):
    """['My','IApi'] -> '::My::IApi'"""
    return '::' + '::'.join(ids)


def _cstr(text):
    """C++ string literal"""
    return '"' + text.replace('\\', '\\\\').replace('"', '\\"') + '"'


def _cap(name):
    return name[0].upper() + name[1:]


class _Model:
    """Indexed view on the program spec."""

    def __init__(self, spec):
        self.spec = spec
        self.itfs = spec['interfaces']
        self.itf_index = {tuple(i['fqn']): n for n, i in enumerate(self.itfs)}
        self.enums = spec.get('enums', [])
        self.enum_fqns = {tuple(e['fqn']) for e in self.enums}
        self.enc = spec['encapsulee']
        self.ports = self.enc['ports']
        for port in self.ports:
            if tuple(port['itf']) not in self.itf_index:
                raise ValueError(f'port {port["name"]}: interface {port["itf"]} not in spec.interfaces')
        self.max_formals = max([len(e['formals']) for i in self.itfs for e in i['events']] + [1])

    def nested_enums(self, itf):
        return [e for e in self.enums if tuple(e['fqn'][:-1]) == tuple(itf['fqn'])]

    def free_enums(self):
        return [e for e in self.enums if tuple(e['fqn'][:-1]) not in self.itf_index]

    def reply_type(self, event):
        reply = event.get('reply') or {'kind': 'void'}
        kind = reply['kind']
        if kind in ('void', 'bool', 'int'):
            return kind
        if kind == 'enum':
            return _cpp(reply['fqn']) + '::type'
        raise ValueError(f'unknown reply kind {kind!r}')

    @staticmethod
    def param_types(event):
        return [f['ctype'] + ('' if f['dir'] == 'in' else '&') for f in event['formals']]

    def exposed(self, port):
        return not port.get('injected') and port.get('sem') is not None

    def accessor(self, port):
        """C++ expression text of the accessor call on a shell `S` (without the object)."""
        prefix = 'Provides' if port['dir'] == 'provides' else 'Requires'
        if port.get('multiclient'):
            return f'{prefix}MultiClient{_cap(port["name"])}'
        return f'{prefix}{_cap(port["name"])}'


def _ns_open(ids):
    return f'namespace {"::".join(ids)} {{\n' if ids else ''


def _ns_close(ids):
    return f'}} // namespace {"::".join(ids)}\n' if ids else ''


# --------------------------------------------------------------------------------------------------
# mock model header
# --------------------------------------------------------------------------------------------------

def _gen_enum(enum, indent=''):
    fields = ', '.join(enum['fields'])
    return f'{indent}struct {enum["fqn"][-1]} {{ enum type {{ {fields} }}; }};\n'


def _gen_interface(mdl, itf):
    name = itf['fqn'][-1]
    out = [_ns_open(itf['fqn'][:-1])]
    out.append(f'struct {name}\n{{\n')
    for enum in mdl.nested_enums(itf):
        out.append(_gen_enum(enum, '    '))
    out.append('    dzn::port::meta meta;\n')
    for direction in ('in', 'out'):
        out.append('    struct\n    {\n')
        for event in itf['events']:
            if event['dir'] == direction:
                sig = f'{mdl.reply_type(event)}({", ".join(mdl.param_types(event))})'
                out.append(f'        std::function<{sig}> {event["name"]};\n')
        out.append(f'    }} {direction};\n')
    out.append(f'    {name}(const dzn::port::meta& m) : meta(m) {{}}\n')
    out.append('    void check_bindings() const\n    {\n')
    for direction in ('in', 'out'):
        for event in itf['events']:
            if event['dir'] == direction:
                member = f'{direction}.{event["name"]}'
                out.append(f'        if (!{member}) throw dzn::binding_error(meta, "{member}");\n')
    out.append('    }\n};\n')
    out.append(f'inline void connect({name}& provided, {name}& required)\n{{\n'
               '    provided.out = required.out;\n'
               '    required.in = provided.in;\n'
               '    provided.meta.require = required.meta.require;\n'
               '    required.meta.provide = provided.meta.provide;\n'
               '}\n')
    out.append(_ns_close(itf['fqn'][:-1]))
    return ''.join(out)


def _gen_handler(mdl, i, j, event):
    """Functor type with the scripted behaviour of one event (shared by component and environment)."""
    formals = event['formals']
    ptypes = mdl.param_types(event)
    rtype = mdl.reply_type(event)
    params = ', '.join(f'{t} p{k}' for k, t in enumerate(ptypes))
    out = [f'struct H{i}_{j} // {".".join(mdl.itfs[i]["fqn"])}.{event["name"]}\n{{\n'
           '    vt::Who who;\n'
           f'    {rtype} operator()({params}) const\n    {{\n']
    if formals:
        values = ', '.join(f'vt::to_long(p{k})' for k in range(len(formals)))
        out.append(f'        const long a[{len(formals)}] = {{{values}}};\n')
        out.append(f'        vt::obs(who, {_cstr(event["name"])}, a, {len(formals)});\n')
    else:
        out.append(f'        vt::obs(who, {_cstr(event["name"])}, nullptr, 0);\n')
    for k, formal in enumerate(formals):
        if formal['dir'] == 'out':
            out.append(f'        p{k} = vt::from_long<{formal["ctype"]}>({1000 + k});\n')
        elif formal['dir'] == 'inout':
            out.append(f'        p{k} = vt::from_long<{formal["ctype"]}>(a[{k}] + {1000 + k});\n')
    if rtype != 'void':
        out.append(f'        return vt::from_long<{rtype}>(vt::reply_of(who, {_cstr(event["name"])}));\n')
    else:
        out.append(f'        vt::void_event(who, {_cstr(event["name"])});\n')
    out.append('    }\n};\n')
    return ''.join(out)


def _gen_install(mdl, i, itf):
    out = [f'inline void install_{i}({_cpp(itf["fqn"])}& p, bool in_side, const vt::Who& w)\n{{\n']
    for direction in ('in', 'out'):
        out.append(f'    if ({"" if direction == "in" else "!"}in_side)\n    {{\n')
        for j, event in enumerate(itf['events']):
            if event['dir'] == direction:
                out.append(f'        if (!vt::skipped(w, "{direction}", {_cstr(event["name"])})) '
                           f'p.{direction}.{event["name"]} = H{i}_{j}{{w}};\n')
        out.append('    }\n')
    out.append('}\n')
    return ''.join(out)


def gen_model_header(spec) -> str:
    """Generate the mock '<model>.hh' (Dezyne 2.17 generated shape) that the shell #includes."""
    mdl = _Model(spec)
    enc = mdl.enc
    comp_ns, comp_name = enc['fqn'][:-1], enc['fqn'][-1]
    guard = 'VT_MODEL_' + re.sub(r'[^A-Za-z0-9]', '_', spec['model_header']).upper()

    out = [f'// MOCK of the Dezyne generated header {spec["model_header"]} - generated by harness/cxx/gen_cxx.py\n'
           f'#ifndef {guard}\n#define {guard}\n\n'
           '#include <dzn/meta.hh>\n#include <dzn/locator.hh>\n#include <dzn/runtime.hh>\n'
           '#include <dzn/vt.hh>\n#include <functional>\n#include <string>\n\n']

    for enum in mdl.free_enums():
        out.append(_ns_open(enum['fqn'][:-1]) + _gen_enum(enum) + _ns_close(enum['fqn'][:-1]))
    out.append('\n')
    for itf in mdl.itfs:
        out.append(_gen_interface(mdl, itf) + '\n')

    # the encapsulee (declaration)
    out.append(_ns_open(comp_ns))
    out.append(f'struct {comp_name}\n{{\n'
               '    dzn::meta dzn_meta;\n'
               '    dzn::runtime& dzn_runtime;\n'
               '    const dzn::locator& dzn_locator;\n')
    for port in mdl.ports:
        out.append(f'    {_cpp(port["itf"])} {port["name"]};\n')
    out.append(f'    {comp_name}(const dzn::locator& dzn_locator_arg);\n')
    out.append('    void check_bindings() const\n    {\n')
    for port in mdl.ports:
        out.append(f'        {port["name"]}.check_bindings();\n')
    out.append('    }\n};\n')
    out.append(_ns_close(comp_ns))

    # implementation part: compiled by exactly one translation unit (the driver)
    out.append('\n#ifdef VT_MODEL_IMPL\n'
               '// Scripted behaviour; only the driver translation unit defines VT_MODEL_IMPL.\n'
               'namespace vtgen\n{\n')
    for i, itf in enumerate(mdl.itfs):
        for j, event in enumerate(itf['events']):
            out.append(_gen_handler(mdl, i, j, event))
        out.append(_gen_install(mdl, i, itf))
    out.append('} // namespace vtgen\n\n')

    out.append(_ns_open(comp_ns))
    inits = ['dzn_meta()', 'dzn_runtime(dzn_locator_arg.get<dzn::runtime>())', 'dzn_locator(dzn_locator_arg)']
    for port in mdl.ports:
        name = port['name']
        own = f'{{{_cstr(name)}, &{name}, this, &dzn_meta}}'
        if port['dir'] == 'provides':
            inits.append(f'{name}({{{own}, {{"", 0, 0, 0}}}})')
        else:
            inits.append(f'{name}({{{{"", 0, 0, 0}}, {own}}})')
    out.append(f'{comp_name}::{comp_name}(const dzn::locator& dzn_locator_arg)\n    : '
               + '\n    , '.join(inits) + '\n{\n')
    out.append(f'    dzn_meta.type = {_cstr(comp_name)};\n'
               '    vt::g_comp = this;\n')
    for port in mdl.ports:
        i = mdl.itf_index[tuple(port['itf'])]
        in_side = 'true' if port['dir'] == 'provides' else 'false'
        out.append(f'    vtgen::install_{i}({port["name"]}, {in_side}, '
                   f'vt::Who{{"comp", {_cstr(port["name"])}, ""}});\n')
        if port['dir'] == 'requires' and port.get('injected'):
            out.append('    // injected port: "internally bound" - its in-events are no-ops\n')
            for event in mdl.itfs[i]['events']:
                if event['dir'] == 'in':
                    rtype = mdl.reply_type(event)
                    body = '' if rtype == 'void' else f' return vt::from_long<{rtype}>(0);'
                    out.append(f'    {port["name"]}.in.{event["name"]} = '
                               f'[](auto&&...) -> {rtype} {{{body} }};\n')
    out.append('}\n')
    out.append(_ns_close(comp_ns))
    out.append('#endif // VT_MODEL_IMPL\n\n'
               f'#endif // {guard}\n')
    return ''.join(out)


# --------------------------------------------------------------------------------------------------
# driver
# --------------------------------------------------------------------------------------------------

_DRIVER_PROLOGUE = r'''// Trace driver - generated by harness/cxx/gen_cxx.py.  Reads a script from stdin, writes the trace to stdout.
#define VT_MODEL_IMPL
#include "@SHELL_HEADER@"

#include <cstdlib>
#include <cstring>
#include <exception>
#include <memory>
#include <typeinfo>
#include <utility>
#ifdef VT_THREADED
#include <chrono>
#include <thread>
#endif

using ShellT = @SHELL_T@;
using CompT = @COMP_T@;

namespace
{
template <class T, class = void> struct has_locator_accessor : std::false_type {};
template <class T>
struct has_locator_accessor<T, std::void_t<decltype(std::declval<T&>().Locator())>> : std::true_type {};

template <class S>
const char* locator_is_comp_locator(S& shell, const dzn::locator* comp_locator)
{
    if constexpr (has_locator_accessor<S>::value) return &shell.Locator() == comp_locator ? "1" : "0";
    else return "na";
}

@STATIC_ASSERTS@
dzn::meta g_parent_meta;

struct World
{
    dzn::locator proto;
    std::unique_ptr<dzn::pump> pump;
    std::unique_ptr<dzn::runtime> runtime;
    std::unique_ptr<vt::Extra> extra;
    std::map<std::string, std::map<std::string, void*>> clients; // port -> identifier -> client port
    std::unique_ptr<ShellT> shell;
    ~World()
    {
        shell.reset(); // shell first, then the locator objects
        vt::g_comp = nullptr;
    }
};
std::unique_ptr<World> W;

enum { INV_OK = 0, INV_UNKNOWN_EVENT, INV_WRONG_DIRECTION, INV_UNKNOWN_CLIENT, INV_NOT_EXPOSED,
       INV_UNKNOWN_PORT, INV_NOT_MULTICLIENT };

struct CallRes
{
    bool is_void = true;
    long ret = 0;
    std::vector<long> args;
};

std::vector<std::string> split(const std::string& line)
{
    std::vector<std::string> tokens(1);
    for (char c : line)
    {
        if (c == ' ') tokens.emplace_back();
        else tokens.back() += c;
    }
    return tokens;
}

bool parse_long(const std::string& token, long& value)
{
    if (token.empty()) return false;
    char* end = nullptr;
    value = std::strtol(token.c_str(), &end, 10);
    return *end == '\0';
}

// "<type> <what()>" of the exception being handled
std::string describe_current_exception()
{
    try { throw; }
    catch (const dzn::binding_error& e) { return std::string("binding_error ") + e.what(); }
    catch (const std::bad_function_call& e) { return std::string("bad_function_call ") + e.what(); }
    catch (const std::runtime_error& e) { return std::string("runtime_error ") + e.what(); }
    catch (const std::exception& e) { return std::string("other ") + e.what(); }
    catch (...) { return "other unknown"; }
}

const char* which(const void* object, const void* proto_object)
{
    if (!object) return "none";
    return object == proto_object ? "proto" : "other";
}

std::string join(const std::vector<long>& values)
{
    std::string s;
    for (std::size_t i = 0; i < values.size(); ++i) { if (i) s += ","; s += std::to_string(values[i]); }
    return s;
}
'''

_DRIVER_EPILOGUE = r'''
void op_invoke(bool from_env, const std::vector<std::string>& t)
{
    if (t.size() < 3) return vt::emit("err usage: " + t[0] + " <port> <ev> <long>...");
    std::string port = t[1], id;
    bool has_id = false;
    const auto at = port.find('@');
    if (at != std::string::npos) { id = port.substr(at + 1); port = port.substr(0, at); has_id = true; }
    std::vector<long> args;
    for (std::size_t i = 3; i < t.size(); ++i)
    {
        long value = 0;
        if (!parse_long(t[i], value)) return vt::emit("err bad number " + t[i]);
        args.push_back(value);
    }
    if (args.size() < MAX_FORMALS) args.resize(MAX_FORMALS, 0);

    const long posted = vt::g_posted, shells = vt::g_shell_calls;
    vt::g_last_pump = nullptr;
    CallRes r;
    int rc = INV_OK;
    try { rc = invoke(from_env, port, id, has_id, t[2], args.data(), r); }
    catch (...) { return vt::emit("exc " + describe_current_exception()); }
    switch (rc)
    {
    case INV_OK: break;
    case INV_UNKNOWN_EVENT: return vt::emit("err unknown event " + port + "." + t[2]);
    case INV_WRONG_DIRECTION: return vt::emit("err wrong direction " + port + "." + t[2]);
    case INV_UNKNOWN_CLIENT: return vt::emit("err unknown client " + port + "@" + id);
    case INV_NOT_EXPOSED: return vt::emit("err port not exposed " + port);
    case INV_NOT_MULTICLIENT: return vt::emit("err not multiclient " + port);
    default: return vt::emit("err unknown port " + port);
    }
    const dzn::pump* last = vt::g_last_pump;
    vt::emit("ret " + (r.is_void ? std::string("void") : std::to_string(r.ret)) + " args=" + join(r.args)
             + " posted=" + std::to_string(vt::g_posted - posted)
             + " shell=" + std::to_string(vt::g_shell_calls - shells)
             + " pump=" + which(last, W->pump.get()));
}

void op_world(const std::vector<std::string>& t)
{
    bool with_pump = false, with_runtime = false, with_extra = false;
    std::string skipcomp, name;
    for (std::size_t i = 1; i < t.size(); ++i)
    {
        const auto eq = t[i].find('=');
        const std::string key = t[i].substr(0, eq), value = eq == std::string::npos ? "" : t[i].substr(eq + 1);
        if (key == "pump") with_pump = value == "1";
        else if (key == "runtime") with_runtime = value == "1";
        else if (key == "extra") with_extra = value == "1";
        else if (key == "skipcomp") skipcomp = value;
        else if (key == "name") name = value;
        else return vt::emit("err bad world argument " + t[i]);
    }

    W.reset(); // destroy the previous world
    vt::g_replies.clear();
    vt::g_reactions.clear();
    vt::g_arbiter = vt::Arbiter();
    vt::g_skipenv.clear();
    vt::g_skipcomp = skipcomp;
    W.reset(new World);
    if (with_pump) { W->pump.reset(new dzn::pump); W->proto.set(*W->pump); }
    if (with_runtime) { W->runtime.reset(new dzn::runtime); W->proto.set(*W->runtime); }
    if (with_extra) { W->extra.reset(new vt::Extra); W->proto.set(*W->extra); }
    const std::size_t keys_before = W->proto.keys().size();
    try
    {
        W->shell.reset(new ShellT(@CTOR_ARGS@));
    }
    catch (...)
    {
        const std::string what = describe_current_exception();
        W.reset();
        vt::g_skipcomp.clear();
        return vt::emit("world exc " + what);
    }
    vt::g_skipcomp.clear();
    vt::emit("world ok");

    CompT* c = static_cast<CompT*>(vt::g_comp);
    ShellT& s = *W->shell;
    vt::emit(std::string("fac comp_loc=") + (&c->dzn_locator == &W->proto ? "proto" : "other")
             + " comp_pump=" + which(c->dzn_locator.try_get<dzn::pump>(), W->pump.get())
             + " comp_runtime=" + which(c->dzn_locator.try_get<dzn::runtime>(), W->runtime.get())
             + " comp_extra=" + (c->dzn_locator.try_get<vt::Extra>() ? "1" : "0")
             + " shell_pump=na"
             + " has_locator=" + (has_locator_accessor<ShellT>::value ? "1" : "0")
             + " locator_is_comp_loc=" + locator_is_comp_locator(s, &c->dzn_locator)
             + " proto_keys=" + std::to_string(keys_before) + "/" + std::to_string(W->proto.keys().size())
             + " comp_keys=" + std::to_string(c->dzn_locator.keys().size())
             + " meta_name=" + c->dzn_meta.name);
    emit_idents(s, c);
}

void op_final(const std::vector<std::string>& t)
{
    const bool with_parent = t.size() > 1 && t[1] == "1";
    try { W->shell->FinalConstruct(with_parent ? &g_parent_meta : nullptr); }
    catch (...) { return vt::emit("final exc " + describe_current_exception()); }
    CompT* c = static_cast<CompT*>(vt::g_comp);
    vt::emit(std::string("final ok parent=") + (c->dzn_meta.parent == &g_parent_meta ? "1" : "0"));
}

void op_pump()
{
    const long before = vt::g_executed;
    try
    {
        bool again = true;
        for (int round = 0; again && round < 1000; ++round)
        {
            again = false;
            const std::vector<dzn::pump*> pumps = vt::g_pumps; // construction order: proto's first
            for (dzn::pump* p : pumps)
                if (!p->idle()) { again = true; p->run(); }
        }
    }
    catch (...)
    {
        return vt::emit("pump exc " + describe_current_exception()
                        + " executed=" + std::to_string(vt::g_executed - before));
    }
    vt::emit("pump executed=" + std::to_string(vt::g_executed - before));
}

void op_react(const std::vector<std::string>& t)
{
    // react <port> <in-event> <out-port> <out-event>: the component raises <out-port>.<out-event> (arguments 0)
    // while it handles <port>.<in-event>
    if (t.size() != 5) return vt::emit("err usage: react <port> <in-ev> <out-port> <out-ev>");
    const std::string outport = t[3], outev = t[4];
    vt::g_reactions[t[1] + " " + t[2]] = [outport, outev]() {
        std::vector<long> zeros(MAX_FORMALS, 0);
        CallRes r;
        try
        {
            const int rc = invoke(false, outport, "", false, outev, zeros.data(), r);
            if (rc != INV_OK) vt::emit("nested err " + std::to_string(rc));
        }
        catch (...) { vt::emit("nested exc " + describe_current_exception()); }
    };
    vt::emit("react ok");
}

void op_reply(const std::vector<std::string>& t)
{
    long value = 0;
    if (t.size() != 5 || (t[1] != "comp" && t[1] != "env") || !parse_long(t[4], value))
        return vt::emit("err usage: reply <comp|env> <port> <ev> <long>");
    {
#ifdef VT_THREADED
        std::lock_guard<std::mutex> lock(vt::g_emit_mutex);
#endif
        vt::g_replies[t[1] + " " + t[2] + " " + t[3]] = value;
    }
    vt::emit("reply ok");
}

void op_arbiter(const std::vector<std::string>& t)
{
    long grant = 0, deny = 0;
    if (t.size() != 6)
        return vt::emit("err usage: arbiter <port> <claimEv> <releaseEv> <grantValue> <denyValue>");
    const char* in_events = in_events_of_provides_port(t[1]);
    if (!in_events) return vt::emit("err unknown port " + t[1]);
    for (int i = 2; i <= 3; ++i)
        if (std::string(in_events).find("," + t[i] + ",") == std::string::npos)
            return vt::emit("err unknown event " + t[1] + "." + t[i]);
    if (!parse_long(t[4], grant)) return vt::emit("err bad number " + t[4]);
    if (!parse_long(t[5], deny)) return vt::emit("err bad number " + t[5]);
    vt::Arbiter a;
    a.on = true; a.port = t[1]; a.claim = t[2]; a.release = t[3]; a.grant = grant; a.deny = deny;
    vt::g_arbiter = a;
    vt::emit("arbiter ok");
}

void execute(const std::string& line)
{
    const std::vector<std::string> t = split(line);
    const std::string& op = t[0];
    if (op == "world") return op_world(t);
    if (op == "reply") return op_reply(t);
    if (op == "react") return op_react(t);
    const bool known = op == "client" || op == "bind" || op == "final" || op == "call" || op == "raise" || op == "react"
                       || op == "pump" || op == "ids" || op == "arbiter" || op == "conc";
    if (!known) return vt::emit("err unknown op " + op);
    if (!W || !W->shell) return vt::emit("noworld");
    if (op == "client") return op_client(t);
    if (op == "bind") return op_bind(t);
    if (op == "final") return op_final(t);
    if (op == "call") return op_invoke(true, t);
    if (op == "raise") return op_invoke(false, t);
    if (op == "pump") return op_pump();
    if (op == "ids") return op_ids(t);
    if (op == "arbiter") return op_arbiter(t);
    if (op == "conc") return op_conc(t);
}
} // namespace

int main()
{
    g_parent_meta.name = "parent";
    g_parent_meta.type = "Parent";
#ifdef VT_THREADED
    if (std::getenv("VT_TURNSTILE_TRACE"))
        vt::turnstile = [](const char* point, const std::string& who) {
            vt::emit(std::string("turnstile ") + point + " " + who);
        };
#endif
    std::string line;
    int ch;
    bool eof = false;
    while (!eof)
    {
        line.clear();
        while ((ch = std::fgetc(stdin)) != EOF && ch != '\n') line += static_cast<char>(ch);
        if (ch == EOF) eof = true;
        if (!line.empty() && line.back() == '\r') line.pop_back();
        if (line.empty() || line[0] == '#') continue;
        execute(line);
        std::fflush(stdout);
    }
    W.reset();
    std::fflush(stdout);
    return 0;
}
'''


def _gen_invokers(mdl):
    out = []
    for i, itf in enumerate(mdl.itfs):
        for j, event in enumerate(itf['events']):
            formals = event['formals']
            out.append(f'__attribute__((noinline)) void inv_{i}_{j}({_cpp(itf["fqn"])}& p, const long* a, CallRes& r)\n{{\n')
            for k, formal in enumerate(formals):
                out.append(f'    {formal["ctype"]} v{k} = vt::from_long<{formal["ctype"]}>(a[{k}]);\n')
            if not formals:
                out.append('    (void)a;\n')
            call = f'p.{event["dir"]}.{event["name"]}({", ".join(f"v{k}" for k in range(len(formals)))})'
            if mdl.reply_type(event) == 'void':
                out.append(f'    {call};\n    r.is_void = true;\n')
            else:
                out.append(f'    r.ret = vt::to_long({call});\n    r.is_void = false;\n')
            for k in range(len(formals)):
                out.append(f'    r.args.push_back(vt::to_long(v{k}));\n')
            out.append('}\n')
        out.append(f'int invoke_{i}({_cpp(itf["fqn"])}& p, const std::string& ev, bool want_in, '
                   'const long* a, CallRes& r)\n{\n')
        for j, event in enumerate(itf['events']):
            is_in = 'true' if event['dir'] == 'in' else 'false'
            out.append(f'    if (ev == {_cstr(event["name"])}) {{ if (want_in != {is_in}) return INV_WRONG_DIRECTION; '
                       f'inv_{i}_{j}(p, a, r); return INV_OK; }}\n')
        if not itf['events']:
            out.append('    (void)p; (void)want_in; (void)a; (void)r;\n')
        out.append('    return INV_UNKNOWN_EVENT;\n}\n')
    return ''.join(out)


def _gen_port_ops(mdl):
    """invoke(), emit_idents(), op_client(), op_bind(), op_ids()"""
    out = []

    # ---- invoke
    out.append('int invoke(bool from_env, const std::string& port, const std::string& id, bool has_id, '
               'const std::string& ev, const long* a, CallRes& r)\n{\n'
               '    CompT* c = static_cast<CompT*>(vt::g_comp);\n'
               '    (void)c; (void)id;\n')
    for port in mdl.ports:
        i = mdl.itf_index[tuple(port['itf'])]
        itf_t = _cpp(port['itf'])
        name = port['name']
        provides = port['dir'] == 'provides'
        env_want_in = 'true' if provides else 'false'
        comp_want_in = 'false' if provides else 'true'
        out.append(f'    if (port == {_cstr(name)})\n    {{\n')
        out.append(f'        if (!from_env) return has_id ? INV_NOT_MULTICLIENT : invoke_{i}(c->{name}, ev, {comp_want_in}, a, r);\n')
        if not mdl.exposed(port):
            out.append('        return INV_NOT_EXPOSED;\n')
        elif port.get('multiclient'):
            out.append(f'        auto& clients = W->clients[{_cstr(name)}];\n'
                       '        auto it = clients.find(id);\n'
                       '        if (!has_id || it == clients.end()) return INV_UNKNOWN_CLIENT;\n'
                       f'        return invoke_{i}(*static_cast<{itf_t}*>(it->second), ev, {env_want_in}, a, r);\n')
        else:
            out.append('        if (has_id) return INV_NOT_MULTICLIENT;\n'
                       f'        return invoke_{i}(W->shell->{mdl.accessor(port)}().port, ev, {env_want_in}, a, r);\n')
        out.append('    }\n')
    out.append('    return INV_UNKNOWN_PORT;\n}\n\n')

    # ---- ident lines
    out.append('void emit_idents(ShellT& s, CompT* c)\n{\n    (void)s; (void)c;\n')
    for port in mdl.ports:
        if not mdl.exposed(port):
            continue
        name = port['name']
        if port.get('multiclient'):
            out.append(f'    vt::emit("ident {name} na");\n')
        else:
            out.append(f'    vt::emit(std::string("ident {name} ") + '
                       f'(&s.{mdl.accessor(port)}().port == &c->{name} ? "1" : "0"));\n')
    out.append('}\n\n')

    # ---- client
    out.append('void op_client(const std::vector<std::string>& t)\n{\n'
               '    if (t.size() < 2) return vt::emit("err usage: client <port> <id>");\n'
               '    const std::string id = t.size() > 2 ? t[2] : "";\n')
    for port in mdl.ports:
        if mdl.exposed(port) and port.get('multiclient'):
            name = port['name']
            out.append(f'    if (t[1] == {_cstr(name)})\n    {{\n'
                       '        try\n        {\n'
                       f'            auto sp = W->shell->{mdl.accessor(port)}(id);\n'
                       f'            W->clients[{_cstr(name)}][id] = &sp.port;\n'
                       '        }\n'
                       '        catch (...) { return vt::emit("client exc " + describe_current_exception()); }\n'
                       '        return vt::emit("client ok");\n    }\n')
    out.append('    (void)id;\n    vt::emit("err not multiclient " + t[1]);\n}\n\n')

    # ---- ids
    out.append('void op_ids(const std::vector<std::string>& t)\n{\n'
               '    if (t.size() < 2) return vt::emit("err usage: ids <port>");\n')
    for port in mdl.ports:
        if mdl.exposed(port) and port.get('multiclient'):
            name = port['name']
            out.append(f'    if (t[1] == {_cstr(name)})\n    {{\n'
                       '        std::string s = "ids ";\n'
                       '        bool first = true;\n'
                       f'        for (const auto& id : W->shell->Get{_cap(name)}ClientIdentifiers())\n'
                       '        { if (!first) s += ","; first = false; s += id; }\n'
                       '        return vt::emit(s);\n    }\n')
    out.append('    vt::emit("err not multiclient " + t[1]);\n}\n\n')

    # ---- bind
    out.append('void op_bind(const std::vector<std::string>& t)\n{\n'
               '    vt::g_skipenv.clear();\n'
               '    for (std::size_t i = 1; i < t.size(); ++i)\n    {\n'
               '        if (t[i].compare(0, 5, "skip=") != 0) return vt::emit("err bad bind argument " + t[i]);\n'
               '        vt::g_skipenv.push_back(t[i].substr(5));\n    }\n'
               '    ShellT& s = *W->shell;\n    (void)s;\n')
    for port in mdl.ports:
        if not mdl.exposed(port):
            continue
        i = mdl.itf_index[tuple(port['itf'])]
        name = port['name']
        in_side = 'false' if port['dir'] == 'provides' else 'true'
        if port.get('multiclient'):
            out.append(f'    for (auto& kv : W->clients[{_cstr(name)}])\n'
                       f'        vtgen::install_{i}(*static_cast<{_cpp(port["itf"])}*>(kv.second), {in_side}, '
                       f'vt::Who{{"env", {_cstr(name)}, kv.first}});\n')
        else:
            out.append(f'    vtgen::install_{i}(s.{mdl.accessor(port)}().port, {in_side}, '
                       f'vt::Who{{"env", {_cstr(name)}, ""}});\n')
    out.append('    vt::g_skipenv.clear();\n    vt::emit("bind ok");\n}\n')
    return ''.join(out)


_CONC_BODY = r"""
struct ConcRng // deterministic per (seed, thread index)
{
    unsigned long long s;
    ConcRng(long seed, long index)
        : s(static_cast<unsigned long long>(seed) * 0x9E3779B97F4A7C15ULL
            + static_cast<unsigned long long>(index + 1) * 0xBF58476D1CE4E5B9ULL) {}
    unsigned next(unsigned n)
    {
        s = s * 6364136223846793005ULL + 1442695040888963407ULL;
        return static_cast<unsigned>((s >> 33) % n);
    }
    void pause() // 0..49 microseconds; below 5: just yield
    {
        const unsigned us = next(50);
        if (us < 5) std::this_thread::yield();
        else std::this_thread::sleep_for(std::chrono::microseconds(us));
    }
};

void op_conc(const std::vector<std::string>& t)
{
    using PortT = @ITF_T@;
    const std::string port = @PORT@;
    long cycles = 1, outs = 0, seed = 0;
    std::string use;
    std::vector<std::string> ids;
    for (std::size_t i = 1; i < t.size(); ++i)
    {
        const auto eq = t[i].find('=');
        const std::string key = t[i].substr(0, eq), value = eq == std::string::npos ? "" : t[i].substr(eq + 1);
        bool ok = true;
        if (key == "cycles") ok = parse_long(value, cycles);
        else if (key == "outs") ok = parse_long(value, outs);
        else if (key == "seed") ok = parse_long(value, seed);
        else if (key == "use") use = value;
        else if (key == "clients")
        {
            ids.assign(1, "");
            for (char ch : value) { if (ch == ',') ids.emplace_back(); else ids.back() += ch; }
        }
        else ok = false;
        if (!ok) return vt::emit("err bad conc argument " + t[i]);
    }
    if (ids.empty())
        return vt::emit("err usage: conc cycles=<n> outs=<m> seed=<s> [use=<inEvent>] clients=<id1,id2,...>");
    std::vector<PortT*> ports;
    auto& clients = W->clients[port];
    for (const auto& id : ids)
    {
        auto it = clients.find(id);
        if (it == clients.end()) return vt::emit("err unknown client " + port + "@" + id);
        ports.push_back(static_cast<PortT*>(it->second));
    }
    if (!use.empty() && std::string(in_events_of_provides_port(port)).find("," + use + ",") == std::string::npos)
        return vt::emit("err unknown event " + port + "." + use);
    CompT* c = static_cast<CompT*>(vt::g_comp);
    dzn::pump* dispatcher = c->dzn_locator.try_get<dzn::pump>(); // the pump the shell dispatches on
    if (!dispatcher) return vt::emit("err no dispatcher");
    const long grant = vt::g_arbiter.on && vt::g_arbiter.port == port ? vt::g_arbiter.grant : @DEFAULT_GRANT@;

    static const std::vector<long> zeros(MAX_FORMALS, 0);
    std::atomic<long> granted{0}, denied{0};
    std::vector<std::thread> threads;
    for (std::size_t n = 0; n < ids.size(); ++n)
    {
        threads.emplace_back([&, n] {
            const std::string me = "t " + ids[n];
            ConcRng rng(seed, static_cast<long>(n) + 1);
            try
            {
                for (long cycle = 0; cycle < cycles; ++cycle)
                {
                    CallRes claim;
                    vt::emit(me + " claim-begin");
                    invoke_@I@(*ports[n], @CLAIM@, true, zeros.data(), claim);
                    vt::emit(me + " claim ret=" + std::to_string(claim.ret));
                    if (claim.ret != grant) { ++denied; std::this_thread::yield(); continue; }
                    ++granted;
                    if (!use.empty())
                    {
                        CallRes used;
                        invoke_@I@(*ports[n], use, true, zeros.data(), used);
                        vt::emit(me + " use");
                    }
                    rng.pause();
                    vt::emit(me + " release-begin");
                    CallRes release;
                    invoke_@I@(*ports[n], @RELEASE@, true, zeros.data(), release);
                    vt::emit(me + " release-end");
                }
            }
            catch (...) { vt::emit(me + " exc " + describe_current_exception()); }
        });
    }

    // meanwhile: the component raises out-events in dispatcher context
    ConcRng rng(seed, 0);
    for (long k = 0; k < outs; ++k)
    {
        rng.pause();
        (*dispatcher)([k, c] {
            const std::string me = "o " + std::to_string(k);
            vt::emit(me + " begin");
            try
            {
                CallRes raised;
                (void)raised; (void)c;
@RAISE@
            }
            catch (...) { vt::emit(me + " exc " + describe_current_exception()); }
            vt::emit(me + " end");
        });
    }
    for (auto& thread : threads) thread.join();
    bool again = true;
    for (int round = 0; again && round < 1000; ++round)
    {
        again = false;
        const std::vector<dzn::pump*> pumps = vt::g_pumps;
        for (dzn::pump* p : pumps)
            if (!p->idle()) { again = true; p->run(); }
    }
    vt::emit("conc done claims=" + std::to_string(granted.load()) + " denied=" + std::to_string(denied.load()));
}
"""


def _gen_conc(mdl):
    """in_events_of_provides_port() and the `conc` op (concurrency experiment, -DVT_THREADED only)."""
    out = ['// ",ev1,ev2,": the in-events of a provides port; nullptr when `port` is not a provides port\n'
           'const char* in_events_of_provides_port(const std::string& port)\n{\n']
    for port in mdl.ports:
        if port['dir'] == 'provides':
            itf = mdl.itfs[mdl.itf_index[tuple(port['itf'])]]
            names = ''.join(e['name'] + ',' for e in itf['events'] if e['dir'] == 'in')
            out.append(f'    if (port == {_cstr(port["name"])}) return {_cstr("," + names)};\n')
    out.append('    (void)port;\n    return nullptr;\n}\n')

    mc = mdl.spec.get('multiclient')
    mc_port = None
    if mc:
        mc_port = next((p for p in mdl.ports if p['name'] == mc['port'] and mdl.exposed(p)), None)
    out.append('\n#ifndef VT_THREADED\n'
               'void op_conc(const std::vector<std::string>&) { vt::emit("err threaded build required"); }\n'
               '#else\n')
    if mc_port is None:
        out.append('void op_conc(const std::vector<std::string>&) { vt::emit("err no multiclient port"); }\n')
    else:
        i = mdl.itf_index[tuple(mc_port['itf'])]
        itf = mdl.itfs[i]
        default_grant = 0
        grant = mc.get('grant')
        if grant:
            for enum in mdl.enums:
                if tuple(enum['fqn']) == tuple(grant[:-1]) and grant[-1] in enum['fields']:
                    default_grant = enum['fields'].index(grant[-1])
        first_out = next((j for j, e in enumerate(itf['events']) if e['dir'] == 'out'), None)
        if first_out is None:
            raise_code = '                // the interface has no out-event: nothing to raise'
        else:
            raise_code = f'                inv_{i}_{first_out}(c->{mc_port["name"]}, zeros.data(), raised);'
        body = _CONC_BODY
        body = body.replace('@ITF_T@', _cpp(mc_port['itf']))
        body = body.replace('@PORT@', _cstr(mc_port['name']))
        body = body.replace('@DEFAULT_GRANT@', str(default_grant))
        body = body.replace('@I@', str(i))
        body = body.replace('@CLAIM@', _cstr(mc['claim']))
        body = body.replace('@RELEASE@', _cstr(mc['release']))
        body = body.replace('@RAISE@', raise_code)
        out.append(body)
    out.append('#endif // VT_THREADED\n')
    return ''.join(out)


def _gen_static_asserts(mdl):
    predict = mdl.spec.get('predict') or {}
    out = []
    types = predict.get('accessor_types') or {}
    for port in mdl.ports:
        if not mdl.exposed(port) or port['name'] not in types:
            continue
        if port.get('multiclient'):
            expr = f'std::declval<ShellT&>().{mdl.accessor(port)}(std::declval<const std::string&>())'
        else:
            expr = f'std::declval<ShellT&>().{mdl.accessor(port)}()'
        out.append(f'static_assert(std::is_same_v<decltype({expr}), {types[port["name"]]}>,\n'
                   f'              "predicted accessor type of port {port["name"]}");\n')
    if 'has_locator_accessor' in predict:
        value = 'true' if predict['has_locator_accessor'] else 'false'
        out.append(f'static_assert(has_locator_accessor<ShellT>::value == {value}, '
                   '"predicted presence of Locator()");\n')
    return ''.join(out)


def gen_driver(spec) -> str:
    """Generate driver.cc: script interpreter / trace writer around the generated shell."""
    mdl = _Model(spec)
    ctor_args = 'W->proto, '
    if spec.get('multiclient'):
        ctor_args += 'g_log, '
    ctor_args += 'name'

    text = _DRIVER_PROLOGUE
    text = text.replace('@SHELL_HEADER@', spec['shell_header'])
    text = text.replace('@SHELL_T@', _cpp(list(spec.get('shell_ns') or []) + [spec['shell_struct']]))
    text = text.replace('@COMP_T@', _cpp(mdl.enc['fqn']))
    text = text.replace('@STATIC_ASSERTS@', _gen_static_asserts(mdl))
    if spec.get('multiclient'):
        ilog = _cpp(spec["support_ns"]) + '::ILog'
        # threaded build: the selector's own log (`Select/<id>`, `Deselect/<id>`, warnings) goes into the trace, so that
        # the cause of a lost out-event can be attributed; the deterministic build keeps the muted default
        text += ('\n#ifdef VT_THREADED\n'
                 f'const {ilog} g_log{{[](auto m) {{ vt::emit("log " + std::string(m)); }}, '
                 '[](auto m) { vt::emit("log " + std::string(m)); }, [](auto m) { vt::emit("log " + std::string(m)); }};\n'
                 '#else\n'
                 f'const {ilog} g_log{{}};\n'
                 '#endif\n')
    text += f'\nconst std::size_t MAX_FORMALS = {mdl.max_formals};\n\n'
    text += _gen_invokers(mdl) + '\n' + _gen_port_ops(mdl) + '\n' + _gen_conc(mdl)
    text += _DRIVER_EPILOGUE.replace('@CTOR_ARGS@', ctor_args)
    return text


# --------------------------------------------------------------------------------------------------
# build and run
# --------------------------------------------------------------------------------------------------

def build_program(spec, files, workdir, compiler='g++', sanitize=None, guard_shim=True,
                  extra_flags=None):
    """Write the generated files (optionally with the `#pragma once` guard shim), the mock model
    header and driver.cc into workdir, compile driver.cc and the generated .cc, link them.

    files: list of (filename, contents).  sanitize: None | 'asan' | 'tsan' (both force clang++).
    extra_flags: optional list of additional compiler flags, e.g. ['-DVT_THREADED'].
    Returns (ok, binary_path, compiler_log)."""
    os.makedirs(workdir, exist_ok=True)
    sources = []
    for filename, contents in files:
        if guard_shim and filename.endswith('.hh'):
            contents = '#pragma once\n' + contents
        with open(os.path.join(workdir, filename), 'w', encoding='utf-8') as handle:
            handle.write(contents)
        if filename.endswith('.cc'):
            sources.append(filename)
    with open(os.path.join(workdir, spec['model_header']), 'w', encoding='utf-8') as handle:
        handle.write(gen_model_header(spec))
    with open(os.path.join(workdir, 'driver.cc'), 'w', encoding='utf-8') as handle:
        handle.write(gen_driver(spec))
    sources.insert(0, 'driver.cc')

    flags = ['-std=c++17', '-O0', '-pthread', f'-I{workdir}', f'-I{HERE}']
    if sanitize == 'asan':
        compiler = 'clang++'
        flags += ['-fsanitize=address,undefined', '-fno-sanitize-recover=undefined',
                  '-fno-omit-frame-pointer', '-gline-tables-only']
    elif sanitize == 'tsan':
        compiler = 'clang++'
        flags += ['-fsanitize=thread', '-gline-tables-only']
    elif sanitize is not None:
        raise ValueError(f'unknown sanitize mode {sanitize!r}')
    flags += list(extra_flags or [])

    binary = os.path.join(workdir, 'prog')
    if os.path.exists(binary):
        os.remove(binary)
    log = []
    started = time.time()

    # compile the translation units concurrently; output goes to files, never through a pipe to `head`
    jobs = []
    for source in sources:
        obj = os.path.join(workdir, os.path.splitext(source)[0] + '.o')
        cmd = [compiler] + flags + ['-c', os.path.join(workdir, source), '-o', obj]
        logfile = open(obj + '.log', 'w+', encoding='utf-8', errors='replace')
        try:
            proc = subprocess.Popen(cmd, stdout=logfile, stderr=subprocess.STDOUT, cwd=workdir)
        except OSError as exc:
            logfile.close()
            return False, binary, f'$ {" ".join(cmd)}\ncannot start compiler: {exc}\n'
        jobs.append((cmd, obj, logfile, proc))
    ok = True
    for cmd, obj, logfile, proc in jobs:
        rc = proc.wait()
        logfile.seek(0)
        log.append(f'$ {" ".join(cmd)}\n{logfile.read()}')
        logfile.close()
        if rc != 0:
            ok = False
            log.append(f'[exit status {rc}]\n')
    if ok:
        cmd = [compiler] + flags + [obj for _, obj, _, _ in jobs] + ['-o', binary]
        proc = subprocess.run(cmd, stdout=subprocess.PIPE, stderr=subprocess.STDOUT, cwd=workdir,
                              text=True, errors='replace', check=False)
        log.append(f'$ {" ".join(cmd)}\n{proc.stdout}')
        if proc.returncode != 0 or not os.path.exists(binary):
            ok = False
            log.append(f'[exit status {proc.returncode}]\n')
    log.append(f'[build {"ok" if ok else "FAILED"} in {time.time() - started:.2f} s]\n')
    return ok, binary, ''.join(log)


def run_script(binary, script_lines, timeout=20.0):
    """Feed the script (list of lines without newline) to the program.
    Returns (rc, stdout_lines, stderr); rc is None when the program was killed on timeout,
    negative when it died from a signal."""
    env = dict(os.environ)
    asan = env.get('ASAN_OPTIONS', '')
    env['ASAN_OPTIONS'] = (asan + ':' if asan else '') + 'detect_stack_use_after_return=1'
    env.setdefault('UBSAN_OPTIONS', 'print_stacktrace=1')
    script = ''.join(line + '\n' for line in script_lines)
    try:
        proc = subprocess.run([binary], input=script.encode('utf-8'), stdout=subprocess.PIPE,
                              stderr=subprocess.PIPE, env=env, timeout=timeout, check=False)
        rc, out, err = proc.returncode, proc.stdout, proc.stderr
    except subprocess.TimeoutExpired as exc:
        rc, out, err = None, exc.stdout or b'', (exc.stderr or b'') + b'\n[timeout]\n'
    lines = out.decode('utf-8', errors='replace').split('\n')
    if lines and lines[-1] == '':
        lines.pop()
    return rc, lines, err.decode('utf-8', errors='replace')
