#!/venv/bin/python
"""
selftest for harness/cxx: builds programs from REAL dznpy.adv_shell output (from /repo/src) on top of
the mock runtime, runs scripts through them, prints the traces and asserts basic sanity.

    cd /verif/harness/cxx && /venv/bin/python selftest.py [-v] [--keep]

Exit status 0 = everything built, ran and matched (about 30 s).
Scratch directory: /tmp/cxxwork-selftest-* (removed at the end unless --keep).
"""

import copy
import json
import os
import shutil
import sys
import tempfile
import time

sys.dont_write_bytecode = True  # keep this directory free of __pycache__
HERE = os.path.dirname(os.path.abspath(__file__))
sys.path.insert(0, HERE)
sys.path.insert(0, '/repo/src')

import gen_cxx  # noqa: E402

import dznpy  # noqa: E402
from dznpy import adv_shell  # noqa: E402
from dznpy.adv_shell import Builder, Configuration, MultiClientPortCfg  # noqa: E402
from dznpy.adv_shell.common import FacilitiesOrigin  # noqa: E402
from dznpy.json_ast import DznJsonAst  # noqa: E402
from dznpy.scoping import ns_ids_t  # noqa: E402

assert dznpy.__file__.startswith('/repo/src'), dznpy.__file__

VERBOSE = '-v' in sys.argv
KEEP = '--keep' in sys.argv


# --------------------------------------------------------------------------------------------------
# A hand-written Dezyne JSON AST ("Model.dzn")
#
#   extern Int $int$;
#   namespace My {
#     extern Tag $::vt::Ext<7>$;  enum Result { Ok, Fail, Busy };  subint Small {0..9};
#     interface IApi {
#       enum State { Idle, Active };
#       in Result Claim(in Int x, out Int y, inout Tag z);   in void Release();
#       in bool Check(in Int x);   in State Query();   in Small Count(in Int a, in Int b);
#       out void Done(in Int code, in Tag t);   out void Tick();
#     }
#     namespace Hal { interface ICord { in void Init(); in bool Plug(in Int n, out Int m);
#                                       out void Connected(); out void Lost(in Int why); } }
#     interface ILogger { in void Log(in Int v); out void Flushed(); }
#     namespace Project { component Comp { provides IApi api; provides IApi aux;
#                                          requires Hal.ICord cord; requires Hal.ICord cord2;
#                                          requires injected ILogger logger; } }
#   }
# --------------------------------------------------------------------------------------------------

def sn(*ids):
    return {'<class>': 'scope_name', 'ids': list(ids)}


def formal(direction, name, *type_ids):
    return {'<class>': 'formal', 'name': name, 'type_name': sn(*type_ids), 'direction': direction}


def event(direction, name, reply_ids, formals=()):
    return {'<class>': 'event', 'name': name, 'direction': direction,
            'signature': {'<class>': 'signature', 'type_name': sn(*reply_ids),
                          'formals': {'<class>': 'formals', 'elements': list(formals)}}}


def enum(name, fields):
    return {'<class>': 'enum', 'name': sn(name), 'fields': {'<class>': 'fields', 'elements': fields}}


def interface(name, types, events):
    return {'<class>': 'interface', 'name': sn(name),
            'types': {'<class>': 'types', 'elements': types},
            'events': {'<class>': 'events', 'elements': events}}


def namespace(name, elements):
    return {'<class>': 'namespace', 'name': sn(name), 'elements': elements}


def port(direction, name, type_ids, injected=False):
    result = {'<class>': 'port', 'name': name, 'type_name': sn(*type_ids), 'direction': direction,
              'formals': {'<class>': 'formals', 'elements': []}}
    if injected:
        result['injected?'] = 'injected'
    return result


MODEL_AST = {
    '<class>': 'root', 'working-directory': '/nowhere',
    'elements': [
        {'<class>': 'extern', 'name': sn('Int'), 'value': {'<class>': 'data', 'value': 'int'}},
        namespace('My', [
            {'<class>': 'extern', 'name': sn('Tag'), 'value': {'<class>': 'data', 'value': '::vt::Ext<7>'}},
            enum('Result', ['Ok', 'Fail', 'Busy']),
            {'<class>': 'subint', 'name': sn('Small'), 'range': {'<class>': 'range', 'from': 0, 'to': 9}},
            interface('IApi', [enum('State', ['Idle', 'Active'])], [
                event('in', 'Claim', ['Result'], [formal('in', 'x', 'Int'), formal('out', 'y', 'Int'),
                                                  formal('inout', 'z', 'Tag')]),
                event('in', 'Release', ['void']),
                event('in', 'Check', ['bool'], [formal('in', 'x', 'Int')]),
                event('in', 'Query', ['State']),
                event('in', 'Count', ['Small'], [formal('in', 'a', 'Int'), formal('in', 'b', 'Int')]),
                event('out', 'Done', ['void'], [formal('in', 'code', 'Int'), formal('in', 't', 'Tag')]),
                event('out', 'Tick', ['void']),
            ]),
            namespace('Hal', [
                interface('ICord', [], [
                    event('in', 'Init', ['void']),
                    event('in', 'Plug', ['bool'], [formal('in', 'n', 'Int'), formal('out', 'm', 'Int')]),
                    event('out', 'Connected', ['void']),
                    event('out', 'Lost', ['void'], [formal('in', 'why', 'Int')]),
                ]),
            ]),
            interface('ILogger', [], [
                event('in', 'Log', ['void'], [formal('in', 'v', 'Int')]),
                event('out', 'Flushed', ['void']),
            ]),
            namespace('Project', [
                {'<class>': 'component', 'name': sn('Comp'),
                 'ports': {'<class>': 'ports', 'elements': [
                     port('provides', 'api', ['IApi']),
                     port('provides', 'aux', ['IApi']),
                     port('requires', 'cord', ['Hal', 'ICord']),
                     port('requires', 'cord2', ['Hal', 'ICord']),
                     port('requires', 'logger', ['ILogger'], injected=True),
                 ]}},
            ]),
        ]),
    ]}

# The matching part of the program spec (section 2 of SPEC.md), written by hand as well.
INT, TAG = 'int', '::vt::Ext<7>'
SPEC_INTERFACES = [
    {'fqn': ['My', 'IApi'], 'events': [
        {'name': 'Claim', 'dir': 'in', 'reply': {'kind': 'enum', 'fqn': ['My', 'Result']},
         'formals': [{'name': 'x', 'dir': 'in', 'ctype': INT}, {'name': 'y', 'dir': 'out', 'ctype': INT},
                     {'name': 'z', 'dir': 'inout', 'ctype': TAG}]},
        {'name': 'Release', 'dir': 'in', 'reply': {'kind': 'void'}, 'formals': []},
        {'name': 'Check', 'dir': 'in', 'reply': {'kind': 'bool'},
         'formals': [{'name': 'x', 'dir': 'in', 'ctype': INT}]},
        {'name': 'Query', 'dir': 'in', 'reply': {'kind': 'enum', 'fqn': ['My', 'IApi', 'State']}, 'formals': []},
        {'name': 'Count', 'dir': 'in', 'reply': {'kind': 'int'},
         'formals': [{'name': 'a', 'dir': 'in', 'ctype': INT}, {'name': 'b', 'dir': 'in', 'ctype': INT}]},
        {'name': 'Done', 'dir': 'out', 'reply': {'kind': 'void'},
         'formals': [{'name': 'code', 'dir': 'in', 'ctype': INT}, {'name': 't', 'dir': 'in', 'ctype': TAG}]},
        {'name': 'Tick', 'dir': 'out', 'reply': {'kind': 'void'}, 'formals': []},
    ]},
    {'fqn': ['My', 'Hal', 'ICord'], 'events': [
        {'name': 'Init', 'dir': 'in', 'reply': {'kind': 'void'}, 'formals': []},
        {'name': 'Plug', 'dir': 'in', 'reply': {'kind': 'bool'},
         'formals': [{'name': 'n', 'dir': 'in', 'ctype': INT}, {'name': 'm', 'dir': 'out', 'ctype': INT}]},
        {'name': 'Connected', 'dir': 'out', 'reply': {'kind': 'void'}, 'formals': []},
        {'name': 'Lost', 'dir': 'out', 'reply': {'kind': 'void'},
         'formals': [{'name': 'why', 'dir': 'in', 'ctype': INT}]},
    ]},
    {'fqn': ['My', 'ILogger'], 'events': [
        {'name': 'Log', 'dir': 'in', 'reply': {'kind': 'void'},
         'formals': [{'name': 'v', 'dir': 'in', 'ctype': INT}]},
        {'name': 'Flushed', 'dir': 'out', 'reply': {'kind': 'void'}, 'formals': []},
    ]},
]
SPEC_ENUMS = [{'fqn': ['My', 'Result'], 'fields': ['Ok', 'Fail', 'Busy']},
              {'fqn': ['My', 'IApi', 'State'], 'fields': ['Idle', 'Active']}]


def make_spec(origin, provides_sem, requires_sem, support_ns, multiclient=None):
    sup = '::' + '::'.join(support_ns)
    wrap = {'mts': 'Mts', 'sts': 'Sts'}
    ports = [
        {'name': 'api', 'dir': 'provides', 'injected': False, 'itf': ['My', 'IApi'], 'sem': provides_sem,
         'multiclient': multiclient is not None},
        {'name': 'aux', 'dir': 'provides', 'injected': False, 'itf': ['My', 'IApi'], 'sem': provides_sem,
         'multiclient': False},
        {'name': 'cord', 'dir': 'requires', 'injected': False, 'itf': ['My', 'Hal', 'ICord'],
         'sem': requires_sem, 'multiclient': False},
        {'name': 'cord2', 'dir': 'requires', 'injected': False, 'itf': ['My', 'Hal', 'ICord'],
         'sem': requires_sem, 'multiclient': False},
        {'name': 'logger', 'dir': 'requires', 'injected': True, 'itf': ['My', 'ILogger'], 'sem': None,
         'multiclient': False},
    ]
    accessor_types = {}
    for p in ports:
        if p['sem']:
            accessor_types[p['name']] = f'{sup}::{wrap[p["sem"]]}<::{"::".join(p["itf"])}>'
    return {
        'model_header': 'Model.hh', 'shell_header': 'ModelAdv.hh', 'shell_struct': 'ModelAdv',
        'shell_ns': ['My', 'Project'], 'support_ns': support_ns,
        'support_file_prefix': '_'.join(support_ns), 'origin': origin,
        'encapsulee': {'fqn': ['My', 'Project', 'Comp'], 'ports': ports},
        'interfaces': copy.deepcopy(SPEC_INTERFACES), 'enums': copy.deepcopy(SPEC_ENUMS),
        'multiclient': multiclient,
        'predict': {'accessor_types': accessor_types, 'has_locator_accessor': origin == 'create'},
    }


def generate(ports_cfg, origin, ns_prefix=None):
    """Run the real generator; returns [(filename, contents)]"""
    file_contents = DznJsonAst(json_contents=json.dumps(MODEL_AST)).process()
    cfg = Configuration(dezyne_filename='some/dir/Model.dzn', ast_fc=file_contents,
                        output_basename_suffix='Adv',
                        fqn_encapsulee_name=ns_ids_t('My.Project.Comp'),
                        ports_cfg=ports_cfg, facilities_origin=origin,
                        copyright='Copyright (c) selftest',
                        support_files_ns_prefix=ns_prefix)
    result = Builder().build(cfg)
    return [(f.filename, f.contents) for f in result.files]


# --------------------------------------------------------------------------------------------------
# test machinery
# --------------------------------------------------------------------------------------------------

FAILURES = []
TIMES = []


def check(cond, message):
    if not cond:
        FAILURES.append(message)
        print(f'  FAIL: {message}')


def build(label, spec, files, workroot, **kwargs):
    workdir = os.path.join(workroot, label)
    started = time.time()
    ok, binary, log = gen_cxx.build_program(spec, files, workdir, **kwargs)
    elapsed = time.time() - started
    TIMES.append((label, kwargs.get('sanitize') or kwargs.get('compiler', 'g++'), elapsed))
    print(f'== build {label}: {"ok" if ok else "FAILED"} in {elapsed:.2f} s '
          f'({kwargs.get("sanitize") or kwargs.get("compiler", "g++")})')
    if not ok or VERBOSE:
        print(log)
    check(ok, f'build {label}')
    return binary if ok else None


def run(label, binary, script, expect=None, quiet=False):
    """Run a script, print it with its trace, compare with `expect` (list of lines) when given."""
    if binary is None:
        check(False, f'run {label}: no binary')
        return []
    rc, lines, err = gen_cxx.run_script(binary, script, timeout=60)
    if not quiet:
        print(f'-- {label}: script')
        for line in script:
            print(f'   | {line}')
        print(f'-- {label}: trace (rc={rc})')
        for line in lines:
            print(f'   > {line}')
    if err.strip():
        print(f'-- {label}: stderr\n{err}')
    check(rc == 0, f'{label}: exit status {rc}')
    check(err.strip() == '', f'{label}: stderr not empty')
    if expect is not None:
        if lines != expect:
            check(False, f'{label}: trace differs from the expected trace')
            for i in range(max(len(lines), len(expect))):
                got = lines[i] if i < len(lines) else '<missing>'
                exp = expect[i] if i < len(expect) else '<missing>'
                if got != exp:
                    print(f'   line {i + 1}: got      {got!r}\n   line {i + 1}: expected {exp!r}')
    return lines


def main():
    os.makedirs('/tmp', exist_ok=True)
    workroot = tempfile.mkdtemp(prefix='cxxwork-selftest-', dir='/tmp')
    try:
        tests(workroot)
    finally:
        if KEEP:
            print(f'kept {workroot}')
        else:
            shutil.rmtree(workroot, ignore_errors=True)
    print('\n== compile times')
    for label, how, elapsed in TIMES:
        print(f'   {label:28s} {how:8s} {elapsed:5.2f} s')
    if FAILURES:
        print(f'\nSELFTEST FAILED ({len(FAILURES)} failures)')
        for failure in FAILURES:
            print(f'  - {failure}')
        return 1
    print('\nSELFTEST OK')
    return 0


def small_model(ns):
    """A second, tiny model: `interface IG { in void Go(in Int a); out void Went(inout Int w); }` and
    `component G { provides IG p; requires IG r; }`, inside namespace `ns` or (ns=None) at global scope.
    Returns (spec, files) for all_mts + create."""
    body = [interface('IG', [], [event('in', 'Go', ['void'], [formal('in', 'a', 'Int')]),
                                 event('out', 'Went', ['void'], [formal('inout', 'w', 'Int')])]),
            {'<class>': 'component', 'name': sn('G'),
             'ports': {'<class>': 'ports', 'elements': [port('provides', 'p', ['IG']),
                                                        port('requires', 'r', ['IG'])]}}]
    elements = [{'<class>': 'extern', 'name': sn('Int'), 'value': {'<class>': 'data', 'value': 'int'}}]
    elements += [namespace(ns, body)] if ns else body
    ast = {'<class>': 'root', 'working-directory': '/nowhere', 'elements': elements}
    nsl = [ns] if ns else []
    cfg = Configuration(dezyne_filename='Small.dzn',
                        ast_fc=DznJsonAst(json_contents=json.dumps(ast)).process(),
                        output_basename_suffix='Sh', fqn_encapsulee_name=ns_ids_t('.'.join(nsl + ['G'])),
                        ports_cfg=adv_shell.all_mts(), facilities_origin=FacilitiesOrigin.CREATE,
                        copyright='Copyright (c) selftest')
    files = [(f.filename, f.contents) for f in Builder().build(cfg).files]
    itf = nsl + ['IG']
    spec = {'model_header': 'Small.hh', 'shell_header': 'SmallSh.hh', 'shell_struct': 'SmallSh',
            'shell_ns': nsl, 'support_ns': ['Dzn'], 'support_file_prefix': 'Dzn', 'origin': 'create',
            'encapsulee': {'fqn': nsl + ['G'], 'ports': [
                {'name': 'p', 'dir': 'provides', 'injected': False, 'itf': itf, 'sem': 'mts', 'multiclient': False},
                {'name': 'r', 'dir': 'requires', 'injected': False, 'itf': itf, 'sem': 'mts', 'multiclient': False}]},
            'interfaces': [{'fqn': itf, 'events': [
                {'name': 'Go', 'dir': 'in', 'reply': {'kind': 'void'},
                 'formals': [{'name': 'a', 'dir': 'in', 'ctype': 'int'}]},
                {'name': 'Went', 'dir': 'out', 'reply': {'kind': 'void'},
                 'formals': [{'name': 'w', 'dir': 'inout', 'ctype': 'int'}]}]}],
            'enums': [], 'multiclient': None,
            'predict': {'accessor_types': {'p': f'::Dzn::Mts<::{"::".join(itf)}>'},
                        'has_locator_accessor': True}}
    return spec, files


def per_op(script, lines):
    """Split a trace into the lines of each script op: zero or more `obs` lines, then exactly one
    terminal line (after `world ok`: additionally the `fac` line and the `ident` lines)."""
    result, pos = [], 0
    for op in script:
        chunk = []
        while pos < len(lines) and lines[pos].startswith('obs '):
            chunk.append(lines[pos])
            pos += 1
        if pos < len(lines):
            chunk.append(lines[pos])
            pos += 1
            if chunk[-1] == 'world ok':
                while pos < len(lines) and lines[pos].split(' ')[0] in ('fac', 'ident'):
                    chunk.append(lines[pos])
                    pos += 1
        result.append((op, chunk))
    check(pos == len(lines), 'per_op: trace has more lines than the script accounts for')
    return result


def lines_of(ops, op_text, nth=0):
    found = [chunk for op, chunk in ops if op == op_text]
    check(len(found) > nth, f'op {op_text!r} (occurrence {nth}) not in script')
    return found[nth] if len(found) > nth else []


def check_conc_trace(label, lines, grant, cycles, outs, clients, use=False):
    """Well-formedness of the `conc` part of a trace + a summary of who received the out-events."""
    import re
    start = lines.index('arbiter ok') + 1 if 'arbiter ok' in lines else 0
    done = [i for i, line in enumerate(lines) if line.startswith('conc done ')]
    check(len(done) == 1, f'{label}: exactly one `conc done` line')
    if len(done) != 1:
        return
    part = lines[start:done[0] + 1]
    shapes = [r't (\w+) claim ret=-?\d+', r't (\w+) use', r't (\w+) release-begin', r't (\w+) release-end',
              r't (\w+) exc .*', r'o \d+ begin', r'o \d+ end', r'o \d+ exc .*',
              r'obs comp api\.\w+ args=[-\d,]* disp=1', r'obs env@(\w+) api\.\w+ args=[-\d,]* disp=1',
              r'conc done claims=\d+ denied=\d+']
    bad = [line for line in part if not any(re.fullmatch(shape, line) for shape in shapes)]
    check(not bad, f'{label}: unexpected lines in the conc trace: {bad[:3]}')
    check(not any(' exc ' in line for line in part), f'{label}: no exceptions in threads or closures')
    granted = sum(1 for line in part if re.fullmatch(rf't \w+ claim ret={grant}', line))
    claims = sum(1 for line in part if re.fullmatch(r't \w+ claim ret=-?\d+', line))
    check(claims == cycles * len(clients), f'{label}: {claims} claim lines, expected {cycles * len(clients)}')
    check(part[-1] == f'conc done claims={granted} denied={claims - granted}', f'{label}: totals {part[-1]!r}')
    check([line for line in part if re.fullmatch(r'o \d+ begin', line)] == [f'o {k} begin' for k in range(outs)],
          f'{label}: out-event closures begin in FIFO order')
    check([line for line in part if re.fullmatch(r'o \d+ end', line)] == [f'o {k} end' for k in range(outs)],
          f'{label}: out-event closures end in FIFO order')
    for client in clients:
        seq = [line.split(' ', 2)[2] for line in part if line.startswith(f't {client} ')]
        cycle = (['use'] if use else []) + ['release-begin', 'release-end']
        expected = []
        for item in seq:
            if item.startswith('claim ret='):
                expected += [item] + (cycle if item == f'claim ret={grant}' else [])
        check(seq == expected, f'{label}: per-thread order of client {client}')
    # summary: out-events delivered per client, and whether the receiver held the claim according to the
    # (coarser) client-side log, i.e. between its `claim ret=<grant>` and its `release-end` line
    delivered, dropped, inside = {}, 0, 0
    holding = set()
    current_out_delivered = False
    for line in part:
        match = re.fullmatch(r't (\w+) claim ret=(-?\d+)', line)
        if match and int(match.group(2)) == grant:
            holding.add(match.group(1))
        match = re.fullmatch(r't (\w+) release-end', line)
        if match:
            holding.discard(match.group(1))
        if re.fullmatch(r'o \d+ begin', line):
            current_out_delivered = False
        match = re.fullmatch(r'obs env@(\w+) .*', line)
        if match:
            current_out_delivered = True
            delivered[match.group(1)] = delivered.get(match.group(1), 0) + 1
            inside += match.group(1) in holding
        if re.fullmatch(r'o \d+ end', line) and not current_out_delivered:
            dropped += 1
    total = sum(delivered.values())
    check(total + dropped == outs, f'{label}: every out-event is delivered to one client or dropped')
    print(f'-- {label}: {part[-1]}; out-events delivered: '
          + (', '.join(f'{k}={v}' for k, v in sorted(delivered.items())) or 'none')
          + f'; dropped (no client selected): {dropped}; delivered while the receiver\'s log shows it '
          f'holding the claim: {inside}/{total}')


def tests(workroot):
    mc_cfg = MultiClientPortCfg(port_name='api', claim_event_name='Claim',
                                claim_granting_reply_value=ns_ids_t('Ok'), release_event_name='Release')
    programs = {
        'a_create_all_mts': (
            make_spec('create', 'mts', 'mts', ['Dzn']),
            generate(adv_shell.all_mts(), FacilitiesOrigin.CREATE), SCRIPT_A, EXPECT_A),
        'b_import_all_sts_all_mts': (
            make_spec('import', 'sts', 'mts', ['Pfx', 'Dzn']),
            generate(adv_shell.all_sts_all_mts(), FacilitiesOrigin.IMPORT, ns_ids_t('Pfx')), SCRIPT_B, EXPECT_B),
        'c_create_multiclient': (
            make_spec('create', 'mts', 'mts', ['Dzn'],
                      {'port': 'api', 'claim': 'Claim', 'release': 'Release', 'grant': ['My', 'Result', 'Ok']}),
            generate(adv_shell.all_mts(mc_cfg), FacilitiesOrigin.CREATE), SCRIPT_C, EXPECT_C),
    }
    for name, contents in programs['c_create_multiclient'][1]:
        if name.endswith('.cc'):
            check('.in.Release(' in contents, 'generator quirk: literal .in.Release( in the release lambda')

    # ---- 1. g++ builds of the three programs, golden traces, sanity
    traces = {}
    for label, (spec, files, script, expect) in programs.items():
        binary = build(label, spec, files, workroot)
        traces[label] = run(label, binary, script, expect)

    ops = per_op(SCRIPT_A, traces['a_create_all_mts'])
    check(lines_of(ops, 'call api Check 9') == ['obs comp api.Check args=9 disp=1',
                                                'ret 1 args=9 posted=0 shell=1 pump=other'],
          'a: MTS provides in-event goes through dzn::shell (disp=1 shell=1)')
    check(lines_of(ops, 'call cord Connected') == ['ret void args= posted=1 shell=0 pump=other'],
          'a: MTS requires out-event is only posted (no obs before pump)')
    check(lines_of(ops, 'call api Check 1', 1) == ['obs comp cord.Connected args= disp=1',
                                                'obs comp cord2.Lost args=3 disp=1',
                                                'obs comp api.Check args=1 disp=1',
                                                'ret 1 args=1 posted=0 shell=1 pump=other'],
          'a: dzn::shell drains earlier posted closures first, FIFO')
    check(lines_of(ops, 'raise api Done 11 12') == ['obs env api.Done args=11,12 disp=0',
                                                    'ret void args=11,12 posted=0 shell=0 pump=none'],
          'a: provides out-event reaches the environment directly')

    ops = per_op(SCRIPT_B, traces['b_import_all_sts_all_mts'])
    check(lines_of(ops, 'call api Check 1') == ['obs comp api.Check args=1 disp=0',
                                                'ret 0 args=1 posted=0 shell=0 pump=none'],
          'b: STS provides in-event is a direct call (disp=0 shell=0 posted=0)')
    check(lines_of(ops, 'call cord Lost 9') == ['ret void args=9 posted=1 shell=0 pump=proto'],
          'b: MTS requires out-event is posted on the imported pump')
    check(lines_of(ops, 'pump') == ['obs comp cord.Lost args=9 disp=1', 'obs comp cord2.Connected args= disp=1',
                                    'pump executed=2'], 'b: pump runs the posted closures')
    check(any(line.startswith('fac comp_loc=proto comp_pump=proto comp_runtime=proto')
              for line in traces['b_import_all_sts_all_mts']), 'b: import uses the caller\'s locator')

    ops = per_op(SCRIPT_C, traces['c_create_multiclient'])
    check(lines_of(ops, 'ids api', 1) == ['ids alice,bob'], 'c: client identifiers')
    check(lines_of(ops, 'raise api Done 5 6') == ['obs env@alice api.Done args=5,6 disp=0',
                                                  'ret void args=5,6 posted=0 shell=0 pump=none'],
          'c: out-event goes to the client holding the claim')

    # ---- 2. clang++ ASan+UBSan: same traces, no sanitizer report
    for label in ('a_create_all_mts', 'c_create_multiclient'):
        spec, files, script, expect = programs[label]
        binary = build(label + '_asan', spec, files, workroot, sanitize='asan')
        run(label + '_asan', binary, script, expect, quiet=True)

    # ---- 3. ASan catches a closure that outlives the variable it captured by reference
    #         (inout formal of an out-event on an MTS requires port)
    spec, files = small_model('N')
    binary = build('d_dangling_inout_asan', spec, files, workroot, sanitize='asan')
    if binary:
        script = ['world pump=0 runtime=0 extra=0', 'bind', 'final 0', 'call p Go 1', 'raise p Went 5',
                  'call r Went 5', 'pump']
        rc, lines, err = gen_cxx.run_script(binary, script, timeout=60)
        print(f'-- d_dangling_inout_asan: rc={rc}, last trace line {lines[-1] if lines else None!r}, '
              f'stderr mentions stack-use-after-return: {"stack-use-after-return" in err}')
        check(rc not in (0, None) and 'stack-use-after-return' in err,
              'd: ASan reports stack-use-after-return for the dangling inout capture')
        check(lines[-1:] == ['ret void args=5 posted=1 shell=0 pump=other'],
              'd: trace is complete up to the crashing op')

    # ---- 4. threaded pump (-DVT_THREADED), g++ and clang++ TSan
    spec, files, _, _ = programs['a_create_all_mts']
    script = ['world pump=0 runtime=0 extra=0 name=thr', 'bind', 'final 0', 'call api Check 1',
              'call cord Lost 3', 'call cord2 Connected', 'pump', 'raise api Tick']
    for label, kwargs in (('a_threaded', {}), ('a_threaded_tsan', {'sanitize': 'tsan'})):
        binary = build(label, spec, files, workroot, extra_flags=['-DVT_THREADED'], **kwargs)
        lines = run(label, binary, script, quiet=(label != 'a_threaded'))
        check('obs comp api.Check args=1 disp=1' in lines and 'obs comp cord.Lost args=3 disp=1' in lines
              and 'obs comp cord2.Connected args= disp=1' in lines, f'{label}: closures ran on the worker')
        check(lines[-2:] == ['obs env api.Tick args= disp=0', 'ret void args= posted=0 shell=0 pump=none'],
              f'{label}: tail of the trace')

    # ---- 4b. concurrency experiment on the multi-client shell (-DVT_THREADED), g++ and clang++ TSan.
    #          Result.Ok == 0 is the granting reply the shell was generated with, so the arbiter grants 0.
    spec, files, _, _ = programs['c_create_multiclient']
    script = ['world pump=0 runtime=0 extra=0 name=mc', 'client api alice', 'client api bob', 'bind', 'final 0',
              'arbiter api Claim Release 0 1', 'conc cycles=20 outs=30 seed=1 clients=alice,bob',
              'call api@alice Check 1', 'pump']
    for label, kwargs in (('c_threaded', {}), ('c_threaded_tsan', {'sanitize': 'tsan'})):
        binary = build(label, spec, files, workroot, extra_flags=['-DVT_THREADED'], **kwargs)
        if binary is None:
            continue
        started = time.time()
        rc, lines, err = gen_cxx.run_script(binary, script, timeout=120)
        elapsed = time.time() - started
        check(rc == 0, f'{label}: exit status {rc}')
        check('ThreadSanitizer' not in err and err.strip() == '', f'{label}: stderr not clean')
        if err.strip():
            print(err)
        check_conc_trace(label, lines, grant=0, cycles=20, outs=30, clients=['alice', 'bob'])
        check(lines[-3:] == ['obs comp api.Check args=1 disp=1', 'ret 0 args=1 posted=0 shell=1 pump=other',
                             'pump executed=0'], f'{label}: call and pump still usable after conc')
        print(f'   ({len(lines)} trace lines, run took {elapsed:.3f} s)')

    # ---- 5. expected build failures are reported, not raised
    spec, files = small_model(None)
    ok, _, log = gen_cxx.build_program(spec, files, os.path.join(workroot, 'e_global_namespace'))
    print(f'== build e_global_namespace: ok={ok} (expected False: `namespace {{` around the shell)')
    check(not ok and 'undefined reference' in log, 'e: global-namespace encapsulee does not link')
    spec, files, _, _ = programs['c_create_multiclient']
    ok, _, log = gen_cxx.build_program(spec, files, os.path.join(workroot, 'f_no_guard_shim'), guard_shim=False)
    print(f'== build f_no_guard_shim: ok={ok} (expected False: no include guards)')
    check(not ok and 'redefinition' in log, 'f: multi-client shell does not compile without the guard shim')


SCRIPT_A = [
    'call api Check 1',
    'world pump=1 runtime=0 extra=0',
    'world pump=0 runtime=1 extra=0',
    'world pump=0 runtime=0 extra=1 name=inst',
    'final 0',
    'bind skip=aux.out.Tick',
    'final 0',
    'bind',
    'final 1',
    'reply comp api Claim 2',
    'reply comp api Check 1',
    'reply comp aux Query 1',
    'reply comp api Count 7',
    'call api Claim 5 6 7',
    'call api Release',
    'call api Check 9',
    'call aux Check 9',
    'call aux Query',
    'call api Count 3 4',
    'call api Claim 5',
    'call aux Count 1 2 3 4',
    'raise api Done 11 12',
    'raise aux Tick',
    'call cord Connected',
    'call cord2 Lost 3',
    'call api Check 1',
    'call cord Lost 4',
    'pump',
    'pump',
    'reply env cord Plug 1',
    'raise cord Plug 8 9',
    'raise cord2 Init',
    'raise logger Log 5',
    'call logger Log 5',
    'call api Done 1 2',
    'raise api Check 1',
    'call nope Check 1',
    'call api Nope 1',
    'call api Check x',
    'ids api',
    'client api x',
    'bogus',
    'world pump=0 runtime=0 extra=0 skipcomp=api.in.Check name=w2',
    'bind',
    'final 0',
    'call api Check 1',
    'world pump=0 runtime=0 extra=0 skipcomp=cord.out.Lost',
    'bind',
    'final 0',
    'call cord Lost 1',
    'call cord Connected',
    'pump',
    'pump',
]

SCRIPT_B = [
    'world pump=0 runtime=1 extra=0',
    'world pump=1 runtime=0 extra=0',
    'world pump=1 runtime=1 extra=1 name=imp',
    'bind skip=cord.in.Plug',
    'final 1',
    'bind',
    'final 1',
    'reply comp api Claim 1',
    'call api Claim 5 6 7',
    'call api Check 1',
    'raise api Done 3 4',
    'call cord Lost 9',
    'call cord2 Connected',
    'pump',
    'raise cord Plug 1 2',
]

SCRIPT_C = [
    'world pump=0 runtime=0 extra=0 name=mc',
    'ids api',
    'client api alice',
    'client api bob',
    'client api ',
    'client aux x',
    'ids api',
    'bind skip=api.out.Tick@bob',
    'final 0',
    'bind',
    'final 0',
    'final 0',
    'client api carol',
    'call api@alice Check 4',
    'raise api Tick',
    'reply comp api Claim 1',
    'call api@alice Claim 1 2 3',
    'raise api Tick',
    'reply comp api Claim 0',
    'call api@alice Claim 1 2 3',
    'raise api Done 5 6',
    'call api@bob Claim 0 0 0',
    'raise api Tick',
    'call api@alice Release',
    'raise api Tick',
    'call api@bob Release',
    'call api@carol Check 1',
    'call api Check 1',
    'call aux Check 1',
    'raise aux Tick',
    'call cord Lost 2',
    'pump',
]


EXPECT_A = [
    'noworld',
    'world exc runtime_error ModelAdv: Overlapping dispatcher found (dzn::pump)',
    'world exc runtime_error ModelAdv: Overlapping Dezyne runtime found (dzn::runtime)',
    'world ok',
    'fac comp_loc=other comp_pump=other comp_runtime=other comp_extra=1 shell_pump=na has_locator=1 locator_is_comp_loc=1 proto_keys=1/1 meta_name=inst',
    'ident api 0',
    'ident aux 0',
    'ident cord 0',
    'ident cord2 0',
    'final exc binding_error not connected: inst.api.out.Done',
    'bind ok',
    'final exc binding_error not connected: inst.aux.out.Tick',
    'bind ok',
    'final ok parent=1',
    'reply ok',
    'reply ok',
    'reply ok',
    'reply ok',
    'obs comp api.Claim args=5,6,7 disp=1',
    'ret 2 args=5,1001,1009 posted=0 shell=1 pump=other',
    'obs comp api.Release args= disp=1',
    'ret void args= posted=0 shell=1 pump=other',
    'obs comp api.Check args=9 disp=1',
    'ret 1 args=9 posted=0 shell=1 pump=other',
    'obs comp aux.Check args=9 disp=1',
    'ret 0 args=9 posted=0 shell=1 pump=other',
    'obs comp aux.Query args= disp=1',
    'ret 1 args= posted=0 shell=1 pump=other',
    'obs comp api.Count args=3,4 disp=1',
    'ret 7 args=3,4 posted=0 shell=1 pump=other',
    'obs comp api.Claim args=5,0,0 disp=1',
    'ret 2 args=5,1001,1002 posted=0 shell=1 pump=other',
    'obs comp aux.Count args=1,2 disp=1',
    'ret 0 args=1,2 posted=0 shell=1 pump=other',
    'obs env api.Done args=11,12 disp=0',
    'ret void args=11,12 posted=0 shell=0 pump=none',
    'obs env aux.Tick args= disp=0',
    'ret void args= posted=0 shell=0 pump=none',
    'ret void args= posted=1 shell=0 pump=other',
    'ret void args=3 posted=1 shell=0 pump=other',
    'obs comp cord.Connected args= disp=1',
    'obs comp cord2.Lost args=3 disp=1',
    'obs comp api.Check args=1 disp=1',
    'ret 1 args=1 posted=0 shell=1 pump=other',
    'ret void args=4 posted=1 shell=0 pump=other',
    'obs comp cord.Lost args=4 disp=1',
    'pump executed=1',
    'pump executed=0',
    'reply ok',
    'obs env cord.Plug args=8,9 disp=0',
    'ret 1 args=8,1001 posted=0 shell=0 pump=none',
    'obs env cord2.Init args= disp=0',
    'ret void args= posted=0 shell=0 pump=none',
    'ret void args=5 posted=0 shell=0 pump=none',
    'err port not exposed logger',
    'err wrong direction api.Done',
    'err wrong direction api.Check',
    'err unknown port nope',
    'err unknown event api.Nope',
    'err bad number x',
    'err not multiclient api',
    'err not multiclient api',
    'err unknown op bogus',
    'world ok',
    'fac comp_loc=other comp_pump=other comp_runtime=other comp_extra=0 shell_pump=na has_locator=1 locator_is_comp_loc=1 proto_keys=0/0 meta_name=w2',
    'ident api 0',
    'ident aux 0',
    'ident cord 0',
    'ident cord2 0',
    'bind ok',
    'final exc binding_error not connected: w2.api.in.Check',
    'exc bad_function_call bad_function_call',
    'world ok',
    'fac comp_loc=other comp_pump=other comp_runtime=other comp_extra=0 shell_pump=na has_locator=1 locator_is_comp_loc=1 proto_keys=0/0 meta_name=',
    'ident api 0',
    'ident aux 0',
    'ident cord 0',
    'ident cord2 0',
    'bind ok',
    'final exc binding_error not connected: .cord.out.Lost',
    'ret void args=1 posted=1 shell=0 pump=other',
    'ret void args= posted=1 shell=0 pump=other',
    'pump exc bad_function_call bad_function_call executed=0',
    'obs comp cord.Connected args= disp=1',
    'pump executed=1',
]

EXPECT_B = [
    'world exc runtime_error ModelAdv: Dispatcher missing (dzn::pump)',
    'world exc runtime_error ModelAdv: Dezyne runtime missing (dzn::runtime)',
    'world ok',
    'fac comp_loc=proto comp_pump=proto comp_runtime=proto comp_extra=1 shell_pump=na has_locator=0 locator_is_comp_loc=na proto_keys=3/3 meta_name=imp',
    'ident api 1',
    'ident aux 1',
    'ident cord 0',
    'ident cord2 0',
    'bind ok',
    'final exc binding_error not connected: imp.cord.in.Plug',
    'bind ok',
    'final ok parent=1',
    'reply ok',
    'obs comp api.Claim args=5,6,7 disp=0',
    'ret 1 args=5,1001,1009 posted=0 shell=0 pump=none',
    'obs comp api.Check args=1 disp=0',
    'ret 0 args=1 posted=0 shell=0 pump=none',
    'obs env api.Done args=3,4 disp=0',
    'ret void args=3,4 posted=0 shell=0 pump=none',
    'ret void args=9 posted=1 shell=0 pump=proto',
    'ret void args= posted=1 shell=0 pump=proto',
    'obs comp cord.Lost args=9 disp=1',
    'obs comp cord2.Connected args= disp=1',
    'pump executed=2',
    'obs env cord.Plug args=1,2 disp=0',
    'ret 0 args=1,1001 posted=0 shell=0 pump=none',
]

EXPECT_C = [
    'world ok',
    'fac comp_loc=other comp_pump=other comp_runtime=other comp_extra=0 shell_pump=na has_locator=1 locator_is_comp_loc=1 proto_keys=0/0 meta_name=mc',
    'ident api na',
    'ident aux 0',
    'ident cord 0',
    'ident cord2 0',
    'ids ',
    'client ok',
    'client ok',
    "client exc runtime_error Argument 'identifier' must not be empty.",
    'err not multiclient aux',
    'ids alice,bob',
    'bind ok',
    'final exc binding_error not connected: <external>.arbiterApi.out.Tick',
    'bind ok',
    'final ok parent=0',
    'final exc runtime_error Already final constructed.',
    'client exc runtime_error Can not allocate a ClientPort entry when final constructed.',
    'obs comp api.Check args=4 disp=1',
    'ret 0 args=4 posted=0 shell=1 pump=other',
    'ret void args= posted=0 shell=0 pump=none',
    'reply ok',
    'obs comp api.Claim args=1,2,3 disp=1',
    'ret 1 args=1,1001,1005 posted=0 shell=1 pump=other',
    'ret void args= posted=0 shell=0 pump=none',
    'reply ok',
    'obs comp api.Claim args=1,2,3 disp=1',
    'ret 0 args=1,1001,1005 posted=0 shell=1 pump=other',
    'obs env@alice api.Done args=5,6 disp=0',
    'ret void args=5,6 posted=0 shell=0 pump=none',
    'obs comp api.Claim args=0,0,0 disp=1',
    'ret 0 args=0,1001,1002 posted=0 shell=1 pump=other',
    'obs env@bob api.Tick args= disp=0',
    'ret void args= posted=0 shell=0 pump=none',
    'obs comp api.Release args= disp=1',
    'ret void args= posted=0 shell=1 pump=other',
    'ret void args= posted=0 shell=0 pump=none',
    'obs comp api.Release args= disp=1',
    'ret void args= posted=0 shell=1 pump=other',
    'err unknown client api@carol',
    'err unknown client api@',
    'obs comp aux.Check args=1 disp=1',
    'ret 0 args=1 posted=0 shell=1 pump=other',
    'obs env aux.Tick args= disp=0',
    'ret void args= posted=0 shell=0 pump=none',
    'ret void args=2 posted=1 shell=0 pump=other',
    'obs comp cord.Lost args=2 disp=1',
    'pump executed=1',
]


if __name__ == '__main__':
    sys.exit(main())
