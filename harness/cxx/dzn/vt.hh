// Verification-harness helpers shared by the mock runtime, the mock model header and the driver.
// MOCK - not part of Dezyne.  Everything is `inline` (C++17) so that the shell TU and the driver TU
// share one set of globals.
//
// The namespace is `::vt`; `dzn::vt` is an alias for it, so `dzn::vt::in_dispatch` and
// `::vt::Ext<7>` name entities of the same namespace.
#ifndef VT_HARNESS_DZN_VT_HH
#define VT_HARNESS_DZN_VT_HH

#include <cstdio>
#include <functional>
#include <map>
#include <string>
#include <type_traits>
#include <vector>
#ifdef VT_THREADED
#include <atomic>
#include <mutex>
#endif

namespace dzn { struct pump; }

namespace vt {

// ---------------------------------------------------------------- value types
// A family of distinct opaque value types.  Not implicitly convertible to or from anything:
// the only ways in/out are the explicit constructor and the member `v`.
template <int K>
struct Ext
{
    long v = 0;
    Ext() = default;
    explicit Ext(long x) : v(x) {}
};

template <class T> struct is_ext : std::false_type {};
template <int K> struct is_ext<Ext<K>> : std::true_type {};

inline long to_long(int v) { return v; }
inline long to_long(long v) { return v; }
inline long to_long(bool v) { return v ? 1 : 0; }
template <int K> long to_long(const Ext<K>& e) { return e.v; }
template <class E, typename std::enable_if<std::is_enum<E>::value, int>::type = 0>
long to_long(E e) { return static_cast<long>(e); }

// pointer-typed externs (`::vt::Cell*`, `const ::vt::Cell*`): the value travels as the pointee's number;
// pointees live in a node-stable map (not used by the threaded programs)
struct Cell { long v; };
inline const Cell* cell_of(long v)
{
    static std::map<long, Cell>* cells = new std::map<long, Cell>;
    Cell& c = (*cells)[v];
    c.v = v;
    return &c;
}
inline long to_long(const Cell* p) { return p ? p->v : -1; }

template <class T>
T from_long(long v)
{
    if constexpr (is_ext<T>::value) return T(v);
    else if constexpr (std::is_pointer<T>::value) return const_cast<T>(cell_of(v));
    else return static_cast<T>(v);
}

// ---------------------------------------------------------------- globals
#ifdef VT_THREADED
using counter_t = std::atomic<long>;
inline thread_local bool in_dispatch = false;
inline std::mutex g_emit_mutex;
inline std::atomic<const dzn::pump*> g_last_pump{nullptr}; // pump last used by operator() / dzn::shell
#else
using counter_t = long;
inline bool in_dispatch = false;
inline const dzn::pump* g_last_pump = nullptr;             // pump last used by operator() / dzn::shell
#endif

inline void* g_comp = nullptr;             // the encapsulee instance (set by its constructor)
inline std::string g_skipcomp;             // "port.in.ev" / "port.out.ev": handler the component leaves unbound
inline std::vector<std::string> g_skipenv; // "port.dir.ev" or "port.dir.ev@id": handlers `bind` leaves untouched
inline std::vector<dzn::pump*> g_pumps;    // every live pump, in construction order
inline long g_pump_seq = 0;                // number of pumps constructed so far
inline counter_t g_posted{0};              // dzn::pump::operator() calls (all pumps)
inline counter_t g_executed{0};            // closures completed by pumps (all pumps)
inline counter_t g_shell_calls{0};         // dzn::shell calls (all pumps)

// hook called by the worker thread of a VT_THREADED pump before each closure; default no-op
inline std::function<void(const char* point, const std::string& who)> turnstile =
    [](const char*, const std::string&) {};

// a user service that may sit in the prototype locator
struct Extra { int tag = 42; };

// ---------------------------------------------------------------- trace output
inline void emit(const std::string& line)
{
#ifdef VT_THREADED
    std::lock_guard<std::mutex> lock(g_emit_mutex);
#endif
    std::fputs(line.c_str(), stdout);
    std::fputc('\n', stdout);
    std::fflush(stdout); // keep the trace complete up to a crash
}

// ---------------------------------------------------------------- scripted behaviour
struct Who
{
    const char* side;  // "comp" or "env"
    std::string port;  // port name
    std::string id;    // client identifier, "" when not a multi-client port
};

inline std::map<std::string, long> g_replies; // key "<side> <port> <ev>"

// Arbiter mode of the mock component for one provides port (script op `arbiter`): the claim handler
// grants (returns `grant`, busy = true) when not busy and denies (returns `deny`) otherwise; the release
// handler clears busy.  `busy` is only touched by component handlers, i.e. in dispatcher context for an
// MTS port.  Reset by the `world` op.
struct Arbiter
{
    bool on = false;
    std::string port, claim, release;
    long grant = 0, deny = 0;
    bool busy = false;
};
inline Arbiter g_arbiter;

// true: the arbiter decided the reply of this component-side event
inline bool arbiter_hook(const Who& w, const char* ev, long& reply)
{
    Arbiter& a = g_arbiter;
    if (!a.on || w.side[0] != 'c' || w.port != a.port) return false;
    if (a.claim == ev)
    {
        if (!a.busy) { a.busy = true; reply = a.grant; }
        else reply = a.deny;
        return true;
    }
    if (a.release == ev) a.busy = false;
    return false;
}

// Reactions of the mock component (script op `react`): while it handles the in-event <port>.<ev> the
// component raises an out-event - synchronously, before the in-event returns - as Dezyne components do.
// key "<port> <ev>"; reset by the `world` op.
inline std::map<std::string, std::function<void()>> g_reactions;

inline void react_hook(const Who& w, const char* ev)
{
    if (w.side[0] != 'c' || g_reactions.empty()) return;
    auto it = g_reactions.find(w.port + " " + ev);
    if (it == g_reactions.end()) return;
    const std::function<void()> f = it->second;
    f();
}

// called by the handler of an event without reply value, after its obs line
inline void void_event(const Who& w, const char* ev)
{
    react_hook(w, ev);
    long ignored = 0;
    arbiter_hook(w, ev, ignored);
}

inline long reply_of(const Who& w, const char* ev)
{
    react_hook(w, ev);
    long decided = 0;
    if (arbiter_hook(w, ev, decided)) return decided;
#ifdef VT_THREADED
    std::lock_guard<std::mutex> lock(g_emit_mutex);
#endif
    auto it = g_replies.find(std::string(w.side) + " " + w.port + " " + ev);
    return it == g_replies.end() ? 0 : it->second;
}

inline bool skipped(const Who& w, const char* dir, const char* ev)
{
    const std::string key = w.port + "." + dir + "." + ev;
    if (w.side[0] == 'c') return key == g_skipcomp;
    for (const auto& s : g_skipenv)
        if (s == key || (!w.id.empty() && s == key + "@" + w.id)) return true;
    return false;
}

// prints: obs <who> <port>.<ev> args=<a1,a2,...> disp=<0|1>
inline void obs(const Who& w, const char* ev, const long* a, int n)
{
    std::string s = "obs ";
    s += w.side;
    if (!w.id.empty()) { s += "@"; s += w.id; }
    s += " "; s += w.port; s += "."; s += ev; s += " args=";
    for (int i = 0; i < n; ++i) { if (i) s += ","; s += std::to_string(a[i]); }
    s += " disp="; s += in_dispatch ? "1" : "0";
    emit(s);
}

} // namespace vt

namespace dzn { namespace vt = ::vt; }

#endif // VT_HARNESS_DZN_VT_HH
