// MOCK of the Dezyne 2.17 C++ runtime header <dzn/meta.hh> (public shape only).
#ifndef VT_HARNESS_DZN_META_HH
#define VT_HARNESS_DZN_META_HH

#include <algorithm>
#include <functional>
#include <memory>
#include <stdexcept>
#include <string>
#include <vector>

namespace dzn
{
struct meta;

namespace port
{
struct meta
{
    struct
    {
        std::string name;
        const void* port;
        const void* component;
        const dzn::meta* meta;
    } provide, require;
};
} // namespace port

struct meta
{
    std::string name;
    std::string type;
    const meta* parent = nullptr;
    std::vector<const port::meta*> require;
    std::vector<const meta*> children;
    std::vector<std::function<void()>> ports_connected;
};

// Dotted path of a component instance, outermost parent first; "<external>" for no component.
inline std::string path(const meta* m, std::string p = "")
{
    p = p.empty() ? p : "." + p;
    if (!m) return "<external>" + p;
    if (!m->parent) return m->name + p;
    return path(m->parent, m->name + p);
}

// what() == "not connected: <path of the owning component>.<port name>.<msg>"
// The provide side names the owner when it has a component, otherwise the require side does.
struct binding_error : public std::runtime_error
{
    binding_error(const port::meta& m, const std::string& msg)
        : std::runtime_error("not connected: "
                             + path(m.provide.component ? m.provide.meta : m.require.meta,
                                    m.provide.component ? m.provide.name : m.require.name)
                             + "." + msg)
    {
    }
};
} // namespace dzn

#endif // VT_HARNESS_DZN_META_HH
