// MOCK of the Dezyne 2.17 C++ runtime header <dzn/pump.hh> (public shape only).
//
// Default build: deterministic, single threaded.  operator() only enqueues; nothing runs until
// somebody drains the queue with run() (the driver's `pump` op, or dzn::shell).
// -DVT_THREADED: one worker thread per pump (see the second half of this file).
#ifndef VT_HARNESS_DZN_PUMP_HH
#define VT_HARNESS_DZN_PUMP_HH

#include <deque>
#include <functional>
#include <string>
#include <type_traits>

#include <dzn/vt.hh>

#ifdef VT_THREADED
#include <condition_variable>
#include <exception>
#include <future>
#include <mutex>
#include <thread>
#endif

namespace dzn
{
#ifndef VT_THREADED
// ------------------------------------------------------------------------------------------------
// deterministic pump
// ------------------------------------------------------------------------------------------------
struct pump
{
    pump() : seq(++vt::g_pump_seq) { vt::g_pumps.push_back(this); }
    ~pump()
    {
        for (auto it = vt::g_pumps.begin(); it != vt::g_pumps.end(); ++it)
            if (*it == this) { vt::g_pumps.erase(it); break; }
        if (vt::g_last_pump == this) vt::g_last_pump = nullptr;
    }
    pump(const pump&) = delete;
    pump& operator=(const pump&) = delete;

    // post a closure: enqueue and return
    void operator()(const std::function<void()>& closure)
    {
        vt::g_last_pump = this;
        ++posted; ++vt::g_posted;
        enqueue(closure);
    }

    // Drain the queue FIFO (closures enqueued meanwhile are run as well).  Every closure runs with
    // vt::in_dispatch == true.  A closure that throws is consumed, not counted as executed, and its
    // exception leaves run(); the closures behind it stay queued.
    void run()
    {
        while (!queue.empty())
        {
            std::function<void()> closure = std::move(queue.front().closure);
            queue.pop_front();
            struct Guard { bool old; Guard() : old(vt::in_dispatch) { vt::in_dispatch = true; }
                           ~Guard() { vt::in_dispatch = old; } } guard;
            closure();
            ++executed; ++vt::g_executed;
        }
    }

    bool idle() const { return queue.empty(); }
    std::size_t pending() const { return queue.size(); }

    // used by dzn::shell
    long enqueue(const std::function<void()>& closure)
    {
        queue.push_back(item{++last_id, closure});
        return last_id;
    }
    void drop(long id)
    {
        for (auto it = queue.begin(); it != queue.end(); ++it)
            if (it->id == id) { queue.erase(it); return; }
    }

    const long seq;       // 1-based construction sequence number
    long posted = 0;      // operator() calls on this pump
    long executed = 0;    // closures completed by this pump (shell wrappers included)
    long shell_calls = 0; // dzn::shell calls on this pump

private:
    struct item { long id; std::function<void()> closure; };
    std::deque<item> queue;
    long last_id = 0;
};

// Blocking call through the pump: runs everything that is pending, then `l`, returns l's result.
// Not counted in `posted`.
template <typename L>
auto shell(dzn::pump& p, L&& l) -> decltype(l())
{
    using R = decltype(l());
    vt::g_last_pump = &p;
    ++p.shell_calls; ++vt::g_shell_calls;
    bool done = false;
    if constexpr (std::is_void<R>::value)
    {
        const long id = p.enqueue([&] { l(); done = true; });
        try { p.run(); } catch (...) { if (!done) p.drop(id); throw; }
    }
    else
    {
        R result = R();
        const long id = p.enqueue([&] { result = l(); done = true; });
        try { p.run(); } catch (...) { if (!done) p.drop(id); throw; }
        return result;
    }
}

#else
// ------------------------------------------------------------------------------------------------
// threaded pump (-DVT_THREADED): one worker thread, closures run on it in FIFO order
// ------------------------------------------------------------------------------------------------
struct pump
{
    pump() : seq(++vt::g_pump_seq), name("pump" + std::to_string(seq))
    {
        vt::g_pumps.push_back(this);
        worker = std::thread([this] { loop(); });
    }
    ~pump()
    {
        { std::lock_guard<std::mutex> lock(mutex); stopping = true; }
        wakeup.notify_all();
        worker.join();
        for (auto it = vt::g_pumps.begin(); it != vt::g_pumps.end(); ++it)
            if (*it == this) { vt::g_pumps.erase(it); break; }
        if (vt::g_last_pump == this) vt::g_last_pump = nullptr;
    }
    pump(const pump&) = delete;
    pump& operator=(const pump&) = delete;

    void operator()(const std::function<void()>& closure)
    {
        ++posted; ++vt::g_posted;
        enqueue(closure);
    }

    // wait until the queue is empty and the worker is not executing (no-op on the worker thread)
    void run()
    {
        if (std::this_thread::get_id() == worker.get_id()) return;
        std::unique_lock<std::mutex> lock(mutex);
        became_idle.wait(lock, [this] { return queue.empty() && !busy; });
    }

    bool idle() { std::lock_guard<std::mutex> lock(mutex); return queue.empty() && !busy; }
    std::size_t pending() { std::lock_guard<std::mutex> lock(mutex); return queue.size(); }
    bool on_worker() const { return std::this_thread::get_id() == worker.get_id(); }

    void enqueue(const std::function<void()>& closure)
    {
        {
            std::lock_guard<std::mutex> lock(mutex);
            vt::g_last_pump = this;
            queue.push_back(closure);
        }
        wakeup.notify_one();
    }

    const long seq;
    const std::string name;            // "pump<seq>", passed to vt::turnstile as `who`
    std::atomic<long> posted{0};
    std::atomic<long> executed{0};
    std::atomic<long> shell_calls{0};

private:
    void loop()
    {
        std::unique_lock<std::mutex> lock(mutex);
        for (;;)
        {
            wakeup.wait(lock, [this] { return stopping || !queue.empty(); });
            if (stopping) return; // pending closures are discarded, like the deterministic pump does
            std::function<void()> closure = std::move(queue.front());
            queue.pop_front();
            busy = true;
            lock.unlock();
            vt::turnstile("pump.closure", name);
            vt::in_dispatch = true;
            try { closure(); ++executed; ++vt::g_executed; }
            catch (const std::exception& e) { vt::emit(std::string("worker exc ") + e.what()); }
            catch (...) { vt::emit("worker exc unknown"); }
            vt::in_dispatch = false;
            lock.lock();
            busy = false;
            if (queue.empty()) became_idle.notify_all();
        }
    }

    std::mutex mutex;
    std::condition_variable wakeup, became_idle;
    std::deque<std::function<void()>> queue;
    bool busy = false;
    bool stopping = false;
    std::thread worker;
};

// Blocking call through the pump; on the worker thread itself `l` runs directly (no deadlock).
template <typename L>
auto shell(dzn::pump& p, L&& l) -> decltype(l())
{
    using R = decltype(l());
    vt::g_last_pump = &p;
    ++p.shell_calls; ++vt::g_shell_calls;
    if (p.on_worker()) return l();
    std::promise<R> promise;
    p.enqueue([&] {
        try
        {
            if constexpr (std::is_void<R>::value) { l(); promise.set_value(); }
            else promise.set_value(l());
        }
        catch (...) { promise.set_exception(std::current_exception()); }
    });
    return promise.get_future().get();
}
#endif
} // namespace dzn

#endif // VT_HARNESS_DZN_PUMP_HH
