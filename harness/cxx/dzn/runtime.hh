// MOCK of the Dezyne 2.17 C++ runtime header <dzn/runtime.hh> (public shape only).
#ifndef VT_HARNESS_DZN_RUNTIME_HH
#define VT_HARNESS_DZN_RUNTIME_HH

#include <dzn/meta.hh>
#include <dzn/locator.hh>

namespace dzn
{
struct runtime
{
    runtime() {}
    runtime(const runtime&) = delete;
    runtime& operator=(const runtime&) = delete;
};
} // namespace dzn

#endif // VT_HARNESS_DZN_RUNTIME_HH
