// MOCK of the Dezyne 2.17 C++ runtime header <dzn/locator.hh> (public shape only).
#ifndef VT_HARNESS_DZN_LOCATOR_HH
#define VT_HARNESS_DZN_LOCATOR_HH

#include <map>
#include <stdexcept>
#include <string>
#include <typeinfo>
#include <vector>

namespace dzn
{
struct locator
{
    locator clone() const { return locator(*this); }

    template <typename T>
    locator& set(T& t, const std::string& key = "")
    {
        services[typeid(T).name() + key] = &t;
        return *this;
    }

    template <typename T>
    T* try_get(const std::string& key = "") const
    {
        auto it = services.find(typeid(T).name() + key);
        // like the real runtime: services are kept as const void* (a const object can be registered, too)
        return it == services.end() ? nullptr : reinterpret_cast<T*>(const_cast<void*>(it->second));
    }

    template <typename T>
    T& get(const std::string& key = "") const
    {
        if (T* t = try_get<T>(key)) return *t;
        throw std::runtime_error("<" + std::string(typeid(T).name()) + ",\"" + key + "\"> not available");
    }

    // harness extension: the stored keys (typeid name + key), sorted
    std::vector<std::string> keys() const
    {
        std::vector<std::string> result;
        for (const auto& kv : services) result.push_back(kv.first);
        return result;
    }

private:
    std::map<std::string, const void*> services;
};
} // namespace dzn

#endif // VT_HARNESS_DZN_LOCATOR_HH
