#!/bin/bash
# usage: harness/seedtest_tmp.sh <seed id> <check ids...> — apply a stored seeded change to a throw-away worktree of
# /repo (never to /repo itself), run the checks against it (VERIF_REPO), remove the worktree
s=$1; shift
wt=/tmp/seedwt_$s
git -C /repo worktree add -q --detach $wt HEAD || exit 2
git -C $wt apply /verif/seeded/$s/patch.diff || { echo "patch does not apply"; git -C /repo worktree remove --force $wt; exit 2; }
bash /verif/harness/seedtest_wt.sh $wt "$@" 2>&1 | awk -v p=$s '/^== wt/{c=$5} /VIOLATION/{v[c]=v[c]" "$0} /tier=/{print p, c, (v[c]?"CAUGHT":"MISSED"), substr(v[c],1,140)}'
git -C /repo worktree remove --force $wt
