#!/venv/bin/python
"""Child interpreter for C08/C12: builds the cases given on stdin (JSON list) in *this* process
(with the PYTHONHASHSEED it was started with) and prints, per case, the sha256 and reported hash of
every file plus the iteration order observed for every name set of the configuration."""
import hashlib
import json
import os
import random
import sys

sys.path.insert(0, os.path.dirname(os.path.dirname(os.path.abspath(__file__))))
from harness import gen_build as G  # noqa
from harness.common import use_repo_src  # noqa


def main():
    use_repo_src()
    cases = json.load(sys.stdin)
    shuffle_seed = int(os.environ.get('VERIF_CHILD_SHUFFLE', '0'))
    rng = random.Random(shuffle_seed)
    # every child builds the cases in its own order: whatever an earlier build leaves behind in the process
    # (caches, mutated shared objects) then differs from child to child
    order = list(range(len(cases)))
    if shuffle_seed:
        random.Random(shuffle_seed * 7919 + 1).shuffle(order)
    out = [None] * len(cases)
    # the file system the process sees is part of "the process it runs in": each child runs in its own scratch
    # working directory in which the model file named by the configuration does not exist (mode 0), is a regular
    # file (mode 1) or is a symbolic link to a differently named file (mode 2, Bazel/Nix style sandboxes)
    cwd_mode = int(os.environ.get('VERIF_CHILD_CWD', '0'))
    import tempfile
    scratch = tempfile.mkdtemp(prefix='verif-c08-cwd-')
    os.chdir(scratch)
    for idx in order:
        c = json.loads(json.dumps(cases[idx]))
        fn = c['cfg'].get('filename') or ''
        if cwd_mode and fn and not os.path.isabs(fn) and not fn.endswith('/'):
            try:
                if os.path.dirname(fn):
                    os.makedirs(os.path.dirname(fn), exist_ok=True)
                if os.path.lexists(fn):
                    os.unlink(fn)
                if cwd_mode == 1:
                    open(fn, 'w').write('x')
                else:
                    tgt = os.path.join(scratch, 'zz_target_%d.dzn' % idx)
                    open(tgt, 'w').write('x')
                    os.symlink(tgt, fn)
            except OSError:
                pass
        orders = {}
        for k, v in c['cfg']['ports'].items():
            if 'names' in v:
                if shuffle_seed:
                    rng.shuffle(v['names'])          # another construction order of an equal set
                orders[k] = list(set(v['names']))     # the order this interpreter iterates the set in
        r = G.build_real(c)
        if isinstance(r, tuple):
            res = r[1]
            from harness.common import code_of
            out[idx] = {'files': [[f.filename, hashlib.sha256(f.contents.encode('utf-8')).hexdigest(), f.hash,
                                   hashlib.sha256('\n'.join(code_of(f.contents)).encode('utf-8')).hexdigest()]
                                  for f in res.files], 'orders': orders}
        else:
            out[idx] = {'err': r['err'], 'orders': orders}
    os.chdir('/')
    import shutil
    shutil.rmtree(scratch, ignore_errors=True)
    json.dump(out, sys.stdout)


if __name__ == '__main__':
    main()
