"""Base class of the program-level properties (C01, C02, C04, C09, C10): generate buildable cases,
compile the real generator output against the mock runtime, run scripts, compare the traces with
the Lean model's prediction (correspondence) and evaluate the property monitor on the program's
trace."""
import json
import time

from harness.common import Prop, canon, run_driver, case_hash, scale, code_projection
from harness import gen_build as G
from harness import cxx_run as X
from harness import gen_models as M


def configured_sem(cfg_ports, pname, side):
    """the oracle: explicitly named first, otherwise the covering wildcard ('sts'|'mts'|None)"""
    sts, mts = (cfg_ports['psts'], cfg_ports['pmts']) if side == 'provides' else (cfg_ports['rsts'], cfg_ports['rmts'])
    if 'names' in sts and pname in sts['names']:
        return 'sts'
    if 'names' in mts and pname in mts['names']:
        return 'mts'
    if sts.get('w') in ('all', 'remaining'):
        return 'sts'
    if mts.get('w') in ('all', 'remaining'):
        return 'mts'
    return None


def rewrite_args(ev, args):
    out = []
    for j, (f, a) in enumerate(zip(ev['formals'], args)):
        if f['dir'] == 'in':
            out.append(a)
        elif f['dir'] == 'out':
            out.append(1000 + j)
        else:
            out.append(a + 1000 + j)
    return out


def parse_obs(line):
    # obs <who> <port>.<ev> args=<a,b> disp=<0|1>
    t = line.split(' ')
    who = t[1]
    port, ev = t[2].split('.', 1)
    args = [int(x) for x in t[3][5:].split(',') if x != '']
    return {'who': who, 'port': port, 'ev': ev, 'args': args, 'disp': int(t[4][5:])}


def parse_ret(line):
    # ret <v|void> args=<..> posted=<n> shell=<n> pump=<..>
    t = line.split(' ')
    return {'ret': None if t[1] == 'void' else int(t[1]), 'args': [int(x) for x in t[2][5:].split(',') if x != ''],
            'posted': int(t[3][7:]), 'shell': int(t[4][6:]), 'pump': t[5][5:]}


class ProgProp(Prop):
    n_programs = (16, 320)           # quick, thorough
    scripts_per_program = 4
    want_mc = None                   # None: mix; True/False
    asan_fraction = 0.0              # thorough: fraction of programs also built with clang++ ASan+UBSan
    wrapper_stream = None            # (quick, thorough) sizes of the multi-client wrapper text stream
    routing_stream = (240, 6000)     # (quick, thorough) sizes of the text-level routing stream (op build.route)
    routing_mc_fraction = 0.4
    route_clause_filter = None       # None: every routing clause is this property's; else a predicate

    def add_wrapper_stream(self, ctx, res):
        if not self.wrapper_stream:
            return res
        n = self.wrapper_stream[0] if ctx['tier'] == 'quick' else scale(self.wrapper_stream[1])
        f, d, sh, cov = mc_wrapper_stream(ctx['rng'], n)
        res['failures'] += f
        res['disagreements'] += d
        res['shapes'] += sh
        res['evaluations'] += len(sh)
        res['coverage'].update(cov)
        return res
    assumptions = [
        'A-1: the Dezyne C++ runtime is mocked (harness/cxx/dzn/*.hh, public 2.17 API shape); statements about '
        'the compiled program are statements about program + mock',
        'A-2: the Dezyne-generated model header and the wrapped component are produced by harness/cxx/gen_cxx.py',
        'guard shim: every generated header is written with a leading "#pragma once" (known finding D-7: the '
        'generated headers have no include guards); C06 compiles them verbatim',
        'compilable domain: encapsulee in a named namespace (known finding D-8), void release event (K-5), '
        'extern types int/long/::vt::Ext<K>',
    ]

    same_spelling_bias = 0.2         # fraction of programs from G.gen_same_spelling_prog

    def gen_case(self, rng):
        for _ in range(100):
            want_mc = self.want_mc if self.want_mc is not None else rng.random() < 0.35
            if not want_mc and rng.random() < self.same_spelling_bias:
                # one spelling `T`, a different extern (and C++ type) per namespace, all ports rerouted
                c = G.gen_same_spelling_prog(rng)
            else:
                c = G.gen_case(rng, want_mc=want_mc)
            if not self.compilable(c, repair=True):
                continue
            if not c['cfg']['multiclient'] and self.want_mc:
                continue
            if self.accept_case(c):
                return c
        return c

    @staticmethod
    def compilable(c, repair=False):
        """is the case inside the domain the mock programs cover (named namespace: D-8, void release: K-5)?"""
        if not c['_info']['comp_ns']:
            return False
        if any(ct not in G.CTYPES for _fq, ct in c['_info']['externs']):
            return False
        mc = c['cfg']['multiclient']
        if mc:
            p, itf = X.port_events(c['_info'], mc['port'])
            rel = next((e for e in itf['events'] if e['name'] == mc['release']), None)
            if rel is None:
                return False
            if rel['_reply']['kind'] != 'void':
                voids = [e for e in itf['events'] if e['dir'] == 'in' and e['_reply']['kind'] == 'void' and e['name'] != mc['claim']]
                if not voids or not repair:
                    return False
                mc['release'] = voids[0]['name']
        return True

    def accept_case(self, c):
        return True

    def compile_failure(self, case, log):
        """clauses of the property that a compile failure of the harness program shows to be violated (the
        program static_asserts what the property promises about the shell's interface); [] = only a broken tie"""
        return []

    def gen_scripts(self, rng, case, spec):
        return [X.gen_script(rng, case, spec) for _ in range(self.scripts_per_program)]

    def monitor(self, case, spec, script, segs):
        """return list of failed clauses for one (script, trace)"""
        return []

    def streams(self, rng, tier):
        # builds that must be REFUSED late: one formal of one event retyped to something that is not (exactly one)
        # extern - an enum or interface of the model, or a name declared nowhere.  A port whose events are rerouted
        # looks the type up and the build fails; the model decides which (ports that are passed through never look).
        # An event that cannot be rerouted must not silently stay on the pass-through path.
        n = 80 if tier == 'quick' else scale(2500)
        out = []
        for _ in range(n):
            c = self.gen_case(rng)
            info = c['_info']
            typed = [(i, e, k) for i in info['interfaces'] for e in i['events'] for k, _f in enumerate(e['formals'])]
            if not typed:
                continue
            itf, ev, k = rng.choice(typed)
            nonext = [list(d[1]) for d in info['decls'] if d[0] in ('enum', 'interface')]
            newtype = rng.choice(nonext + [['Nope'], ['Nope', 'T']])
            src = c['src']
            el = G.find_elem(src, lambda e: e['k'] == 'interface' and e['name'] == [itf['fq'][-1]] and
                             any(x['name'] == ev['name'] and len(x['formals']) > k for x in e['events']))
            if el is None:
                continue
            for x in el['events']:
                if x['name'] == ev['name'] and len(x['formals']) > k:
                    x['formals'][k]['type'] = newtype
            d = X.strip(c)
            d.update(op='build', ast=M.enc_root(src), expect='any', fault='unresolvable-formal')
            out.append(d)
        yield 'unresolvable-formal', out

    def impl(self, case):
        return G.build_impl(case)

    def project(self, case, out):
        from harness.common import code_projection
        return code_projection(out)

    def shape(self, case, impl_out):
        from harness.common import canon
        return canon([case.get('src'), case.get('cfg')])

    def classify(self, case, impl_out):
        return impl_out.get('err', 'ok') if isinstance(impl_out, dict) else 'ok'

    def extra(self, ctx):
        rng, tier = ctx['rng'], ctx['tier']
        n = self.n_programs[0] if tier == 'quick' else scale(self.n_programs[1])
        cases = [self.gen_case(rng) for _ in range(n)]
        route = None
        if self.routing_stream:
            nr = self.routing_stream[0] if tier == 'quick' else scale(self.routing_stream[1])
            route = text_routing_stream(rng, nr, self.routing_mc_fraction if self.want_mc is None else (1.0 if self.want_mc else 0.0),
                                        self.route_clause_filter)
            # cases on which the generated text is not what the model says (or breaks the routing table) are
            # compiled and scripted first: that is the search for a concrete failing trace
            focus = [c for c in route['focus'] if self.compilable(c) and self.accept_case(c)][:6]
            cases = focus + cases[:max(1, len(cases) - len(focus))]
        if self.want_mc is not True:
            # at least a fifth of the programs: one spelling, a different extern per namespace
            for i in range(max(3, n // 5)):
                c = G.gen_same_spelling_prog(rng)
                if self.accept_case(c):
                    cases[-1 - i] = c
        irs = [X.model_ir(c) for c in cases]
        t0 = time.time()
        progs = X.build_programs(cases, irs)
        failures, disagreements, shapes, known_hits = [], [], [], []
        known_by_id = {k['id']: k for k in ctx.get('known', [])}
        nscripts = nops = nomodel = nreact = 0
        build_failed = 0
        for c, p, ir in zip(cases, progs, irs):
            try:
                if ir is None or not p.ok:
                    build_failed += 1
                    rec = {'case': X.strip(c), 'impl': {'build_ok': False, 'impl_err': p.impl_err, 'log': p.log[-1500:]},
                           'model': {'ir': ir is not None}, 'failed': [], 'noshrink': True}
                    # a program from the valid, compilable domain that does not compile: the generated text
                    # deviates from what the model (whose prediction the driver static_asserts) says
                    clauses = self.compile_failure(c, p.log or '') if ir is not None and p.impl_err is None else []
                    if clauses:
                        rec['failed'] = clauses
                        failures.append(rec)
                    else:
                        disagreements.append(rec)
                    continue
                scripts = self.gen_scripts(rng, c, p.spec)
                runs = [p.run(s) for s in scripts]
                out = run_driver([dict(X.strip(c), op='build.trace', scripts=scripts)])[0]
                mts = (out.get('model') or {}).get('ok', {}).get('traces')
                for k, (s, (rc, tr, err)) in enumerate(zip(scripts, runs)):
                    nscripts += 1
                    nops += len(s)
                    segs = X.segment(s, tr)
                    self._known_hits = []
                    failed = self.monitor(c, p.spec, s, segs)
                    for kid, msg in self._known_hits:
                        if kid in known_by_id:
                            known_hits.append((known_by_id[kid], {'case': dict(X.strip(c), script=s), 'what': msg}))
                        else:
                            failed = failed + [msg]
                    if rc != 0:
                        failed = failed + ['program-crashed rc=%s %s' % (rc, err[-300:])]
                    rec = {'case': dict(X.strip(c), script=s), 'impl': {'trace': tr}, 'model': {'trace': mts[k] if mts else None},
                           'failed': failed, 'noshrink': True}
                    nomodel += 0
                    if any(l.startswith('react ') for l in s):
                        nreact += 1
                    if failed:
                        failures.append(rec)
                    elif mts is None or mts[k] != tr:
                        disagreements.append(rec)
                    shapes.append(case_hash([c['src'], c['cfg'], s]))
            finally:
                p.cleanup()
        if route:
            failures += route['failures']
            disagreements += route['disagreements']
            shapes += route['shapes']
            nscripts += len(route['shapes'])
        return self.add_wrapper_stream(ctx, {
                'failures': failures, 'disagreements': disagreements, 'evaluations': nscripts, 'shapes': shapes,
                'known_hits': known_hits,
                'coverage': {'programs': len(cases), 'programs_failed_to_build': build_failed, 'scripts': nscripts,
                             'script_ops': nops, 'traces_validated_against_impl': nscripts - nomodel, 'scripts_with_component_reactions': nreact,
                             'compile_wall_s': round(time.time() - t0, 1),
                             **(route['coverage'] if route else {})}})


# ---------------------------------------------------------------------------------------------
# text-level stream over multi-client shells (C04, C11): also covers release events with a reply,
# which the compiled domain has to leave out (known finding K-5)
# ---------------------------------------------------------------------------------------------
import re as _re


def wrapper_bodies(cc_text):
    """{event: [statement lines]} of the per-client wrappers `port.in.<ev> = [&, identifier]… { … };`"""
    out = {}
    for m in _re.finditer(r'^ *port\.in\.(\w+) = \[&, identifier\][^\n]*\{\n(.*?)\n *\};$', cc_text, _re.S | _re.M):
        out[m.group(1)] = [l.strip() for l in m.group(2).split('\n')]
    return out


def wrapper_order_clauses(cc_text, mc):
    """the step order the interleaving model (DznModel.Conc) is built on: the claim is forwarded to the
    component and only a granting reply selects; the release is forwarded to the component and only
    then is the client deselected — between a client's call of release and the component's handling
    of it the component still regards the client as the holder, so its out-events must still arrive"""
    failed = []
    w = wrapper_bodies(cc_text)
    port = mc['port']
    for ev, sel in ((mc['claim'], '.Select(identifier)'), (mc['release'], '.Deselect(identifier)')):
        if ev not in w:
            failed.append(f'no per-client wrapper for the configured event {ev}')
            continue
        body = w[ev]
        fwd = [i for i, l in enumerate(body) if f'.Arbitered().in.{ev}(' in l]
        sl = [i for i, l in enumerate(body) if sel in l]
        if len(fwd) != 1 or len(sl) != 1:
            failed.append(f'wrapper of {ev}: expected one forwarded call and one {sel}: {body}')
        elif fwd[0] > sl[0]:
            failed.append(f'wrapper of {ev} runs {sel} before the call is forwarded to the component: {body}')
    if mc['claim'] in w and not any('if (r == ' in l and '.Select(identifier)' in l for l in w[mc['claim']]):
        failed.append(f'claim wrapper selects without testing the reply: {w[mc["claim"]]}')
    return failed


def mc_wrapper_stream(rng, n):
    """n generated multi-client cases (any release event, valued ones included): full-text
    correspondence with the model plus the wrapper-order clauses on the implementation's text"""
    cases = []
    tries = 0
    while len(cases) < n and tries < 20 * n:
        tries += 1
        c = G.gen_case(rng, want_mc=True)
        if c['cfg']['multiclient']:
            cases.append(c)
            if rng.random() < 0.5:
                # the same names and the same configuration on a model whose events have other signatures,
                # built next in the same process
                cases.append(G.sibling_of(rng, c))
    stripped = [X.strip(c) for c in cases]
    models = run_driver(stripped) if stripped else []
    failures, disagreements, shapes = [], [], []
    valued = 0
    for c, s, m in zip(cases, stripped, models):
        shapes.append(case_hash(['wrapper', s['src'], s['cfg']]))
        impl = G.build_impl(s)
        mc = s['cfg']['multiclient']
        info = c['_info']
        _, itf = X.port_events(info, mc['port'])
        rel = next(e for e in itf['events'] if e['name'] == mc['release'])
        valued += rel['_reply']['kind'] != 'void'
        if canon(code_projection(impl)) != canon(code_projection(m.get('model'))):
            disagreements.append({'case': s, 'impl': impl, 'model': m.get('model'), 'failed': [], 'noshrink': True})
        if isinstance(impl, dict) and 'ok' in impl:
            cc = next(f for f in impl['ok']['files'] if f['name'].endswith('.cc'))['contents']
            failed = wrapper_order_clauses(cc, mc)
            if failed:
                failures.append({'case': s, 'impl': {'wrappers': wrapper_bodies(cc)}, 'model': None, 'failed': failed,
                                 'noshrink': True})
    return failures, disagreements, shapes, {'wrapper_cases': len(cases), 'wrapper_cases_valued_release': valued}


def text_routing_stream(rng, n, mc_fraction, clause_filter=None):
    """n generated cases through the real Builder and the driver op `build.route`: full-text correspondence with
    the model, and the routing table the Dezyne model + configuration demand evaluated (in Lean,
    DznModel.SpecRouting) on the assignments read back from the IMPLEMENTATION's source text (DznModel.IrParse)"""
    base = []
    saved = G.CTYPES
    try:
        for k in range(max(1, n // 2)):
            # text level only, so every spelling of an extern's C++ type is in reach: references, pointers,
            # templates - an argument "copied" into a deferred call must be copied whatever its type says
            G.CTYPES = saved if k % 3 else ['int', 'const Payload&', 'Frame*', 'std::shared_ptr<X>', 'My::T<int>',
                                            'char const *', 'std::string', 'const std::string &']
            base.append(G.gen_case(rng, want_mc=rng.random() < mc_fraction))
    finally:
        G.CTYPES = saved
    # every model is parsed once and built twice by ONE Builder object: as generated, then with the other
    # runtime semantics on every side - a configuration-dependent result must not survive from build to build
    cases, impls = [], []
    for c in base:
        shared = {}
        for v in (c, G.flipped_semantics(c)):
            cases.append(v)
            impls.append(G.build_impl(dict(X.strip(v), op='build.route'), shared))
        if rng.random() < 0.4:
            # a sibling model (same names, other event signatures / extern types) under the same configuration,
            # built by the same Builder right after
            v = G.sibling_of(rng, c)
            cases.append(v)
            impls.append(G.build_impl(dict(X.strip(v), op='build.route'), shared))
    stripped = [dict(X.strip(c), op='build.route') for c in cases]
    outs = run_driver([dict(s, impl=i) for s, i in zip(stripped, impls)]) if stripped else []
    failures, disagreements, shapes, focus = [], [], [], []
    hist = {'mc': 0, 'ok': 0, 'mc_not_first': 0, 'mc_only_mts_provides': 0, 'two_plus_mts_provides': 0}
    for c, s, impl, o in zip(cases, stripped, impls, outs):
        shapes.append(case_hash(['route', s['src'], s['cfg']]))
        mc = s['cfg']['multiclient']
        prov = [p for p in c['_info']['ports'] if p['dir'] == 'provides']
        hist['mc'] += bool(mc)
        hist['ok'] += 'ok' in impl
        if mc and prov:
            hist['mc_not_first'] += prov[0]['name'] != mc['port']
            hist['mc_only_mts_provides'] += len(prov) == 1
        hist['two_plus_mts_provides'] += len(prov) >= 2 and 'all' in json.dumps(s['cfg']['ports']['pmts'])
        rec = {'case': s, 'impl': impl if 'err' in impl else {'ok': 'files (see replay by re-running)'}, 'model': None,
               'failed': [], 'noshrink': True}
        if o.get('fatal'):
            rec['fatal'] = o['fatal']
            disagreements.append(rec)
            focus.append(c)
            continue
        failed = [f for f in o.get('failed', []) if clause_filter is None or clause_filter(f)]
        if failed:
            rec['failed'] = failed
            rec['impl'] = impl
            failures.append(rec)
            focus.append(c)
        elif canon(code_projection(impl)) != canon(code_projection(o.get('model'))) or not o.get('parser_ok', True):
            rec['impl'] = impl
            rec['model'] = o.get('model')
            disagreements.append(rec)
            focus.append(c)
    return {'failures': failures, 'disagreements': disagreements, 'shapes': shapes, 'focus': focus,
            'coverage': {'routing_cases': len(cases), 'routing_histogram': hist}}
