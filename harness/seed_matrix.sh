#!/bin/bash
# usage: harness/seed_matrix.sh <verif_seed> [seed ids…] — every stored seeded change against the check of its own
# property, in a throw-away worktree (never /repo), with the given VERIF_SEED; one line per seed
vs=$1; shift
cd /verif
ids=("$@"); [ ${#ids[@]} -eq 0 ] && ids=($(ls seeded))
for s in "${ids[@]}"; do
  p=$(python3 -c "import json;print(json.load(open('seeded/$s/meta.json'))['property'])")
  VERIF_SEED=$vs harness/seedtest_tmp.sh $s $p 2>&1 | grep -E "CAUGHT|MISSED|patch does not apply" | sed "s/^/seed=$vs /"
done
