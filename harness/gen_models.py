"""Generators of Dezyne source trees (DElem JSON), their encoding to the Dezyne JSON AST, JSON
mutations, and canonical dumps of parsed FileContents."""
import copy
import json

from harness.common import use_repo_src
from harness.gen_text import err_tag

IDS = ['A', 'B', 'C', 'My', 'Ns', 'x', '_y', 'IApi', 'Types', 'T1']
NAMES3 = ['A', 'B', 'C']


def gen_ident(rng, pool=IDS):
    return rng.choice(pool)


def gen_name(rng, pool=IDS, maxlen=1):
    return [gen_ident(rng, pool) for _ in range(rng.randint(1, maxlen))]


def gen_formal(rng, pool, dirs=('in', 'out', 'inout')):
    return {'name': rng.choice(['a', 'b', 'c', 'val', 'p1']), 'type': gen_name(rng, pool, 3),
            'dir': rng.choice(dirs)}


def gen_event(rng, pool):
    d = rng.choice(['in', 'in', 'out'])
    if d == 'out':
        return {'name': gen_ident(rng, ['Ok', 'Fail', 'Done', 'evt', 'E1']), 'reply': ['void'],
                'formals': [gen_formal(rng, pool, ('in', 'inout')) for _ in range(rng.randint(0, 3))],
                'dir': 'out'}
    return {'name': gen_ident(rng, ['Claim', 'Release', 'Start', 'get', 'E2']),
            'reply': rng.choice([['void'], ['bool'], gen_name(rng, pool, 2)]),
            'formals': [gen_formal(rng, pool) for _ in range(rng.randint(0, 4))], 'dir': 'in'}


def gen_port(rng, pool):
    d = rng.choice(['provides', 'requires'])
    return {'name': rng.choice(['api', 'api2', 'cord', 'led', 'p', 'Api']), 'type': gen_name(rng, pool, 3),
            'dir': d, 'formals': [gen_formal(rng, pool) for _ in range(rng.choice([0, 0, 0, 1]))],
            'injected': d == 'requires' and rng.random() < 0.3}


def gen_dtype(rng, pool):
    r = rng.random()
    if r < 0.5:
        return {'k': 'enum', 'name': gen_name(rng, pool), 'fields': [rng.choice(['Ok', 'Fail', 'X']) for _ in range(rng.randint(0, 3))]}
    if r < 0.9:
        return {'k': 'subint', 'name': gen_name(rng, pool), 'lo': rng.randint(-5, 5), 'hi': rng.randint(0, 99)}
    return {'k': 'unknown', 'cls': rng.choice(['extern', 'bool', 'weird'])}


def gen_elem(rng, depth, maxdepth, pool):
    r = rng.random()
    if depth < maxdepth and r < 0.22:
        return {'k': 'namespace', 'name': gen_name(rng, pool, 2 if rng.random() < 0.3 else 1),
                'elems': [gen_elem(rng, depth + 1, maxdepth, pool) for _ in range(rng.randint(0, 5))]}
    if r < 0.32:
        return {'k': 'component', 'name': gen_name(rng, pool), 'ports': [gen_port(rng, pool) for _ in range(rng.randint(0, 4))]}
    if r < 0.37:
        return {'k': 'foreign', 'name': gen_name(rng, pool), 'ports': [gen_port(rng, pool) for _ in range(rng.randint(0, 2))]}
    if r < 0.45:
        return {'k': 'system', 'name': gen_name(rng, pool), 'ports': [gen_port(rng, pool) for _ in range(rng.randint(0, 3))],
                'instances': [{'name': rng.choice(['i1', 'i2']), 'type': gen_name(rng, pool, 2)} for _ in range(rng.randint(0, 3))],
                'bindings': [{'left': {'port': 'api', 'inst': rng.choice([None, 'i1'])},
                              'right': {'port': 'p', 'inst': rng.choice([None, 'i2'])}} for _ in range(rng.randint(0, 2))]}
    if r < 0.6:
        return {'k': 'interface', 'name': gen_name(rng, pool),
                'types': [gen_dtype(rng, pool) for _ in range(rng.randint(0, 3))],
                'events': [gen_event(rng, pool) for _ in range(rng.randint(0, 5))]}
    if r < 0.68:
        return {'k': 'enum', 'name': gen_name(rng, pool), 'fields': [rng.choice(['Ok', 'Fail', 'X']) for _ in range(rng.randint(0, 3))]}
    if r < 0.74:
        return {'k': 'subint', 'name': gen_name(rng, pool), 'lo': rng.randint(-5, 5), 'hi': rng.randint(0, 99)}
    if r < 0.84:
        return {'k': 'extern', 'name': gen_name(rng, pool), 'value': rng.choice(['int', 'std::string', 'My::T<int>', ''])}
    if r < 0.88:
        return {'k': 'import', 'name': rng.choice(['a.dzn', 'x/y.dzn'])}
    if r < 0.92:
        return {'k': 'filename', 'name': rng.choice(['f.dzn', './g.dzn'])}
    if r < 0.97:
        return {'k': 'unknown', 'cls': rng.choice(['behaviour', 'function', 'bool', 'int', 'weird'])}
    return {'k': 'nondict', 's': rng.choice(['junk', ''])}


def gen_file(rng, maxdepth=4, pool=IDS, n=None):
    return [gen_elem(rng, 0, maxdepth, pool) for _ in range(n if n is not None else rng.randint(0, 8))]


def count_decls(elems):
    n = 0
    for e in elems:
        if e['k'] == 'namespace':
            n += count_decls(e['elems'])
        elif e['k'] not in ('unknown', 'nondict'):
            n += 1
    return n


# ---- encoding to the Dezyne JSON AST --------------------------------------------------------

def sn(ids):
    return {'<class>': 'scope_name', 'ids': list(ids)}


def enc_formal(f):
    return {'<class>': 'formal', 'name': f['name'], 'type_name': sn(f['type']), 'direction': f['dir']}


def enc_formals(fs):
    return {'<class>': 'formals', 'elements': [enc_formal(f) for f in fs]}


def enc_event(e):
    return {'<class>': 'event', 'name': e['name'],
            'signature': {'<class>': 'signature', 'type_name': sn(e['reply']), 'formals': enc_formals(e['formals'])},
            'direction': e['dir']}


def enc_port(p):
    d = {'<class>': 'port', 'name': p['name'], 'type_name': sn(p['type']), 'direction': p['dir'],
         'formals': enc_formals(p['formals'])}
    if p.get('injected'):
        d['injected?'] = 'injected'
    return d


def enc_ports(ps):
    return {'<class>': 'ports', 'elements': [enc_port(p) for p in ps]}


def enc_enum(e):
    return {'<class>': 'enum', 'name': sn(e['name']), 'fields': {'<class>': 'fields', 'elements': list(e['fields'])}}


def enc_subint(e):
    return {'<class>': 'subint', 'name': sn(e['name']), 'range': {'<class>': 'range', 'from': e['lo'], 'to': e['hi']}}


def enc_endpoint(e):
    d = {'<class>': 'end-point', 'port_name': e['port']}
    if e.get('inst') is not None:
        d['instance_name'] = e['inst']
    return d


def enc_elem(e):
    k = e['k']
    if k in ('component', 'foreign'):
        return {'<class>': k, 'name': sn(e['name']), 'ports': enc_ports(e['ports'])}
    if k == 'system':
        return {'<class>': 'system', 'name': sn(e['name']), 'ports': enc_ports(e['ports']),
                'instances': {'<class>': 'instances', 'elements': [
                    {'<class>': 'instance', 'name': i['name'], 'type_name': sn(i['type'])} for i in e['instances']]},
                'bindings': {'<class>': 'bindings', 'elements': [
                    {'<class>': 'binding', 'left': enc_endpoint(b['left']), 'right': enc_endpoint(b['right'])} for b in e['bindings']]}}
    if k == 'interface':
        def enc_t(t):
            if t['k'] == 'enum':
                return enc_enum(t)
            if t['k'] == 'subint':
                return enc_subint(t)
            return {'<class>': t['cls']}
        return {'<class>': 'interface', 'name': sn(e['name']),
                'types': {'<class>': 'types', 'elements': [enc_t(t) for t in e['types']]},
                'events': {'<class>': 'events', 'elements': [enc_event(x) for x in e['events']]}}
    if k == 'enum':
        return enc_enum(e)
    if k == 'subint':
        return enc_subint(e)
    if k == 'extern':
        return {'<class>': 'extern', 'name': sn(e['name']), 'value': {'<class>': 'data', 'value': e['value']}}
    if k == 'import':
        return {'<class>': 'import', 'name': e['name']}
    if k == 'filename':
        return {'<class>': 'file-name', 'name': e['name']}
    if k == 'namespace':
        return {'<class>': 'namespace', 'name': sn(e['name']), 'elements': [enc_elem(x) for x in e['elems']]}
    if k == 'unknown':
        return {'<class>': e['cls']}
    if k == 'nondict':
        return e['s']
    raise ValueError(k)


def enc_root(elems):
    return {'<class>': 'root', 'elements': [enc_elem(e) for e in elems], 'working-directory': '/w'}


# ---- dumps of the real FileContents ------------------------------------------------------------

def _ns(tree):
    scopes = []
    t = tree
    while t is not None and t.scope_name is not None:
        scopes.append(list(t.scope_name.items))
        t = t.parent
    return list(reversed(scopes))


def _formal(f):
    return {'name': f.name, 'type': list(f.type_name.value.items), 'dir': f.direction.value}


def _port(p):
    return {'name': p.name, 'type': list(p.type_name.value.items), 'dir': p.direction.value,
            'formals': [_formal(f) for f in p.formals.elements], 'injected': p.injected.value}


def _enum(e):
    return {'fqn': list(e.fqn.items), 'parent': _ns(e.parent_ns), 'name': list(e.name.value.items),
            'fields': _raw(e.fields.elements)}


def _raw(x):
    if isinstance(x, float):
        return 'float:' + json.dumps(x)
    if isinstance(x, list):
        return [_raw(v) for v in x]
    if isinstance(x, dict):
        return {k: _raw(v) for k, v in x.items()}
    return x


def _subint(s):
    return {'fqn': list(s.fqn.items), 'parent': _ns(s.parent_ns), 'name': list(s.name.value.items),
            'from': _raw(s.range.from_int), 'to': _raw(s.range.to_int)}


def _comp(c):
    return {'fqn': list(c.fqn.items), 'parent': _ns(c.parent_ns), 'name': list(c.name.value.items),
            'ports': [_port(p) for p in c.ports.elements]}


def dump_fc(fc):
    use_repo_src()
    from dznpy import ast

    def typ(t):
        if isinstance(t, ast.Enum):
            d = _enum(t)
            d['k'] = 'enum'
        else:
            d = _subint(t)
            d['k'] = 'subint'
        return d

    def ep(e):
        return {'port': e.port_name, 'inst': e.instance_name}

    return {
        'components': [_comp(c) for c in fc.components],
        'enums': [_enum(e) for e in fc.enums],
        'externs': [{'fqn': list(e.fqn.items), 'parent': _ns(e.parent_ns), 'name': list(e.name.value.items),
                     'value': e.value.value} for e in fc.externs],
        'filenames': [f.name for f in fc.filenames],
        'foreigns': [_comp(c) for c in fc.foreigns],
        'imports': [i.name for i in fc.imports],
        'interfaces': [{'fqn': list(i.fqn.items), 'parent': _ns(i.parent_ns), 'trail': _ns(i.ns_trail),
                        'name': list(i.name.value.items), 'types': [typ(t) for t in i.types.elements],
                        'events': [{'name': e.name, 'reply': list(e.signature.type_name.value.items),
                                    'formals': [_formal(f) for f in e.signature.formals.elements],
                                    'dir': e.direction.value} for e in i.events.elements]}
                       for i in fc.interfaces],
        'subints': [_subint(s) for s in fc.subints],
        'systems': [dict(_comp(s), instances=[{'name': i.name, 'type': list(i.type_name.value.items)} for i in s.instances.elements],
                         bindings=[{'left': ep(b.left), 'right': ep(b.right)} for b in s.bindings.elements])
                    for s in fc.systems],
    }


def parse_real(ast_obj):
    """run the real parser on a JSON value; returns {"ok": dump} or {"err": tag}"""
    use_repo_src()
    from dznpy.json_ast import DznJsonAst
    try:
        fc = DznJsonAst(json_contents=json.dumps(ast_obj)).process()
    except RecursionError:
        return {'err': 'internal:RecursionError'}
    except Exception as e:  # noqa
        return {'err': err_tag(e)}
    return {'ok': dump_fc(fc)}


def parse_real_fc(ast_obj):
    use_repo_src()
    from dznpy.json_ast import DznJsonAst
    return DznJsonAst(json_contents=json.dumps(ast_obj)).process()


# ---- JSON mutations (C15) ------------------------------------------------------------------------

def all_paths(x, path=()):
    yield path
    if isinstance(x, dict):
        for k, v in x.items():
            yield from all_paths(v, path + (k,))
    elif isinstance(x, list):
        for i, v in enumerate(x):
            yield from all_paths(v, path + (i,))


def get_at(x, path):
    for p in path:
        x = x[p]
    return x


def set_at(x, path, v):
    if not path:
        return v
    y = copy.copy(x)
    y[path[0]] = set_at(x[path[0]], path[1:], v)
    return y


def del_at(x, path):
    if len(path) == 1:
        y = copy.copy(x)
        del y[path[0]]
        return y
    y = copy.copy(x)
    y[path[0]] = del_at(x[path[0]], path[1:])
    return y


RETYPES = [None, True, 0, -3, 1.5, '', 'x', 'in', 'out', 'void', [], [1], ['a', 2], {}, {'<class>': 'scope_name'},
           {'<class>': 'scope_name', 'ids': []}, {'<class>': 'scope_name', 'ids': ['1a']},
           {'<class>': 'scope_name', 'ids': ['a\n']}, {'<class>': 'scope_name', 'ids': ['a', 5]}]
RETAGS = ['component', 'interface', 'enum', 'subint', 'extern', 'namespace', 'system', 'foreign', 'port',
          'ports', 'event', 'events', 'formal', 'formals', 'scope_name', 'root', 'types', 'fields', 'range',
          'data', 'signature', 'bogus', 'import', 'file-name', 'instance', 'binding', 'end-point']


def mutate(rng, doc, faults=1):
    for _ in range(faults):
        paths = list(all_paths(doc))
        path = rng.choice(paths)
        r = rng.random()
        try:
            if r < 0.3 and path:
                doc = del_at(doc, path)
            elif r < 0.6:
                doc = set_at(doc, path, copy.deepcopy(rng.choice(RETYPES)))
            elif r < 0.85:
                # retag: find a dict at/above
                tagged = [p for p in paths if isinstance(get_at(doc, p), dict) and '<class>' in get_at(doc, p)]
                if tagged:
                    p = rng.choice(tagged)
                    doc = set_at(doc, p + ('<class>',), rng.choice(RETAGS + [5, None]))
            else:
                # change a direction / void / out combination
                strs = [p for p in paths if isinstance(get_at(doc, p), str)]
                if strs:
                    p = rng.choice(strs)
                    doc = set_at(doc, p, rng.choice(['in', 'out', 'inout', 'provides', 'requires', 'injected', 'void', 'a b', '']))
        except (KeyError, IndexError, TypeError):
            pass
    return doc
