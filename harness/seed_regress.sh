#!/bin/bash
# usage: harness/seed_regress.sh [seed ids…]  — for every stored seeded change: apply it to /repo, run the checks
# its meta.json names under detected_by, undo it; prints CAUGHT / MISSED per (seed, check). /repo is left clean.
cd /verif
ids=("$@"); [ ${#ids[@]} -eq 0 ] && ids=($(ls seeded))
for s in "${ids[@]}"; do
  checks=$(python3 -c "import json;print(' '.join(json.load(open('seeded/$s/meta.json'))['detected_by'].keys()))")
  harness/seedtest.sh $s $checks 2>&1 | awk -v s=$s '/^== seed/{c=$5} /VIOLATION/{v[c]=1} /tier=/{print s, c, (v[c]?"CAUGHT":"MISSED")}'
done
git -C /repo status --short
