#!/bin/bash
# usage: harness/seed_intake.sh <seed-id e.g. C05b> <worktree>  — confirm a sub-agent's seeded change
# (demo rc 0 clean / rc 1 changed, both test commands unchanged) and store it under seeded/<id>/
id=$1; wt=$2; dst=/verif/seeded/$id
cd "$wt" || exit 2
git diff -- src > /tmp/intake_$id.diff
[ -s /tmp/intake_$id.diff ] || { echo "no source change"; exit 2; }
PYTHONPATH=$wt/src /venv/bin/python demo.py > /tmp/intake_$id.with 2>&1; rc_with=$?
t2_with=$(cd test && /venv/bin/python -m pytest -q -p no:cacheprovider --continue-on-collection-errors 2>&1 | tail -1)
t1_with=$(/venv/bin/python -m pytest -ra -q -p no:cacheprovider --timeout=900 --continue-on-collection-errors 2>&1 | tail -1)
git apply -R /tmp/intake_$id.diff || exit 2
PYTHONPATH=$wt/src /venv/bin/python demo.py > /tmp/intake_$id.without 2>&1; rc_without=$?
git apply /tmp/intake_$id.diff || exit 2
echo "demo rc with=$rc_with without=$rc_without"
echo "t1: $t1_with"; echo "t2: $t2_with"
mkdir -p $dst
cp /tmp/intake_$id.diff $dst/patch.diff
for f in $(git status --short | grep '^??' | awk '{print $2}'); do cp -r $f $dst/; done
[ -f $dst/SEED_NOTES.md ] && mv $dst/SEED_NOTES.md $dst/notes.md
rm -rf $dst/__pycache__ $dst/.pytest_cache
ls $dst
