import Driver.ParseOps
import Driver.GenOps
open Lean Py Codec Scoping Ast PortSel Shell Support Text

namespace BuildOps

def clauses (l : List String) : Json := Json.arr (l.map Json.str).toArray

def optIds (j : Json) (k : String) : Option Ids :=
  match strListField j k with | .ok l => some l | _ => none

def contentOfOptStr (j : Json) (k : String) : Content :=
  match j.getObjVal? k with
  | .ok (.str s) => .str s.toList
  | _ => .none

/-- decode the configuration; returns the (possibly failing) construction of the PortsCfg -/
def configOf (j : Json) : Except String (R Config) := do
  let mcJ := fieldD j "multiclient" Json.null
  let mcR : R (Option MultiClientCfg) ←
    if mcJ.isNull then pure (.ok none) else do
      let m : MultiClientCfg := { portName := ← strField mcJ "port", claimEvent := ← strField mcJ "claim",
                                  grant := ← strListField mcJ "grant", releaseEvent := ← strField mcJ "release" }
      pure (do let m' ← mkMultiClientCfg m; pure (some m'))
  let portsJ ← field j "ports"
  let origin := if (j.getObjValAs? String "origin").toOption.getD "create" == "import" then Origin.import_ else .create
  let fname ← strField j "filename"
  let suffix ← strField j "suffix"
  let enc ← strListField j "encapsulee"
  let cr := contentOfOptStr j "copyright"
  let ci := contentOfOptStr j "creator"
  let pfx := optIds j "prefix"
  match mcR with
  | .error e => pure (.error e)
  | .ok mc =>
    let pcR ← GenOps.portsCfgOf portsJ mc
    pure (do
      let pc ← pcR
      pure { dezyneFilename := fname, suffix, encapsulee := enc, ports := pc, origin, copyright := cr,
             pfx, creatorInfo := ci })

def fileJ (f : File) : Json := Json.mkObj [("name", S f.filename), ("contents", S f.contents)]

def assignJ (a : Assign) : Json := S a.render

def irJ (ir : ShellIR) : Json :=
  let portJ := fun (p : CppPortItf) => Json.mkObj [
    ("name", S p.name), ("itf", SL p.dzn.itf.fqn),
    ("sem", Json.str (match p.dzn.sem with | .sts => "sts" | .mts => "mts")),
    ("mc", Json.bool p.isMc), ("accessor", S p.accessor.name), ("accessor_type", S p.accessor.ret.str),
    ("target", S p.target)]
  Json.mkObj [("struct", S ir.structName), ("ns", SL ir.ns), ("sfns", SL ir.sfns),
    ("provides", Json.arr (ir.provides.map portJ).toArray), ("requires", Json.arr (ir.requires.map portJ).toArray),
    ("mil", SL ir.mil), ("assigns", Json.arr (ir.ctorAssigns.map assignJ).toArray),
    ("final", SL ir.finalConstruct)]

/-- run the model of Builder.build on a parsed document and a configuration -/
def runBuild (j : Json) : Except String (R BuildResult) := do
  let ast := ParseOps.jvalOfJson (← field j "ast")
  let cfgR ← configOf (← field j "cfg")
  pure (do
    let fc ← Parser.parse ast
    let cfg ← cfgR
    build fc cfg)

def handle (op : String) (j : Json) : Except String Json := do
  match op with
  | "build" =>
    let r ← runBuild j
    let model := match r with
      | .ok b => okJson (Json.mkObj [("files", Json.arr (b.files.map fileJ).toArray)])
      | .error e => errJson e
    let impl := fieldD j "impl" Json.null
    let expect := (j.getObjValAs? String "expect").toOption.getD "any"
    let cfgJ ← field j "cfg"
    let failed := if impl.isNull then [] else
      let tag := GenOps.ParseOpsTag impl
      let shellName := Py.getBasename ((strField cfgJ "filename").toOption.getD []) ++ ((strField cfgJ "suffix").toOption.getD [])
      let filePrefix := (Support.distillateNs (optIds cfgJ "prefix")).2.2
      let names : List Str := match arrField (fieldD impl "ok" Json.null) "files" with
        | .ok fs => fs.filterMap (fun f => (strField f "name").toOption)
        | _ => []
      (if Spec.outcomeAllowedC13 tag then [] else ["outcome:" ++ tag]) ++
      (if tag == "ok" && names != Spec.expectedFileNames shellName filePrefix then ["incomplete-file-set"] else []) ++
      (if expect == "ok" && tag != "ok" then ["valid-input-rejected:" ++ tag] else []) ++
      (if expect == "lib" && tag == "ok" then ["invalid-input-accepted"] else [])
    pure (Json.mkObj [("model", model), ("failed", clauses failed),
                      ("ir", match r with | .ok b => irJ b.ir | _ => Json.null)])
  | "build.c07" =>
    let r ← runBuild j
    let model := match r with
      | .ok b => okJson (Json.mkObj [("files", Json.arr ((b.files.take 2).map fileJ).toArray)])
      | .error e => errJson e
    let impl := fieldD j "impl" Json.null
    let ast := ParseOps.jvalOfJson (← field j "ast")
    let cfgJ ← field j "cfg"
    let encIds ← strListField cfgJ "encapsulee"
    let failed := if impl.isNull then [] else
      match Parser.parse ast with
      | .error _ => []
      | .ok fc =>
        match Spec.denoted fc encIds [] with
        | [enc] =>
          if !Shell.isComponentOrSystem enc then [] else
          let tag := GenOps.ParseOpsTag impl
          let files := (arrField (fieldD impl "ok" Json.null) "files").toOption.getD []
          let text := fun (i : Nat) => match files[i]? with
            | some f => (strField f "contents").toOption.getD []
            | none => []
          -- the exposed ports with their configured semantics (model of create_dzn_elements)
          let cfgR := (configOf cfgJ).toOption
          let ports : List Shell.DznPortItf := match cfgR with
            | some (.ok cfg) => (match Shell.createDznElements cfg fc enc with
                | .ok de => de.provides ++ de.requires
                | _ => [])
            | _ => []
          (if tag == "ok" && !(match r with | .ok _ => true | _ => false) then ["model-rejects-what-impl-accepts"] else []) ++
          Spec.holdsC07 fc enc tag (text 0) (text 1) ports
        | _ => []
    pure (Json.mkObj [("model", model), ("failed", clauses failed)])
  | "build.c06" =>
    -- structural clauses evaluated on the implementation's file set (and on the model's, for the diff)
    let r ← runBuild j
    let impl := fieldD j "impl" Json.null
    let cfgJ ← field j "cfg"
    let shellName := Py.getBasename ((strField cfgJ "filename").toOption.getD []) ++ ((strField cfgJ "suffix").toOption.getD [])
    let modelHeader := Py.getBasename ((strField cfgJ "filename").toOption.getD []) ++ L ".hh"
    let clausesOf := fun (files : List Spec.CFile) =>
      (Spec.holdsC06 files shellName modelHeader).map (fun (c, d) => c ++ ":" ++ String.ofList d) ++
      ((files.drop 2).flatMap fun f => (Spec.missingStdHeaders files f).map
          (fun (n, h) => "std-name-without-header:" ++ String.ofList f.name ++ ":" ++ n ++ ":<" ++ h ++ ">"))
    let model := match r with
      | .ok b => okJson (clauses (clausesOf (b.files.map fun f => { name := f.filename, contents := f.contents })))
      | .error e => errJson e
    let failed := if impl.isNull then [] else
      match arrField (fieldD impl "ok" Json.null) "files" with
      | .ok fs =>
        let files : List Spec.CFile := fs.filterMap fun f =>
          match (strField f "name", strField f "contents") with
          | (.ok n, .ok c) => some { name := n, contents := c }
          | _ => none
        clausesOf files
      | _ => []
    pure (Json.mkObj [("model", model), ("failed", clauses failed)])
  | "build.route" =>
    -- C01/C02/C04: the routing table read back from the implementation's source text
    -- (IrParse.parseCc) against the table the Dezyne model and the configuration demand
    let r ← runBuild j
    let impl := fieldD j "impl" Json.null
    let ast := ParseOps.jvalOfJson (← field j "ast")
    let cfgJ ← field j "cfg"
    let encIds ← strListField cfgJ "encapsulee"
    let cfgR := (configOf cfgJ).toOption
    -- the parser is validated on the model's own text: it must give back the model's IR
    let parserOk : Bool := match r with
      | .ok b =>
        let cc := ((b.files.drop 1).headD default).contents
        let p := IrParse.parseCc cc
        p.unparsed.isEmpty &&
        p.ctor.map Spec.eraseA == b.ir.ctorAssigns.map Spec.eraseA &&
        p.initPort.map (fun (n, as) => (n, as.map Spec.eraseA)) ==
          b.ir.initPort.map (fun (n, as) => (n, as.map Spec.eraseA))
      | .error _ => true
    let model := match r with
      | .ok b => okJson (Json.mkObj [("files", Json.arr (b.files.map fileJ).toArray)])
      | .error e => errJson e
    let failed : List String := if impl.isNull then [] else
      match Parser.parse ast, cfgR with
      | .ok fc, some (.ok cfg) =>
        (match Spec.denoted fc encIds [] with
        | [enc] =>
          if !Shell.isComponentOrSystem enc then [] else
          match Spec.exposedPorts fc enc cfg.ports with
          | none => []
          | some xs =>
            let files := (arrField (fieldD impl "ok" Json.null) "files").toOption.getD []
            match files[1]? with
            | some f =>
              let cc := (strField f "contents").toOption.getD []
              let pr := IrParse.parseCc cc
              -- a statement that matches no template: no verdict from the table (the text then differs
              -- from the model's, which is reported as a broken correspondence)
              if pr.unparsed.isEmpty then Spec.routingClauses fc xs pr else []
            | none => []
        | _ => [])
      | _, _ => []
    pure (Json.mkObj [("model", model), ("failed", clauses failed), ("parser_ok", Json.bool parserOk)])
  | "build.trace" =>
    -- model prediction of the traces the compiled program prints for the given scripts
    let r ← runBuild j
    let scripts ← (← arrField j "scripts").mapM (fun sc => do (← sc.getArr?).toList.mapM str?)
    match r with
    | .error e => pure (Json.mkObj [("model", errJson e), ("failed", clauses [])])
    | .ok b =>
      let traces := scripts.map (fun sc => Sem.runScript b.ir b.allPorts b.grantIndex sc)
      pure (Json.mkObj [("model", okJson (Json.mkObj [("traces", Json.arr (traces.map SL).toArray)])),
                        ("failed", clauses []), ("ir", irJ b.ir)])
  | "build.md5" =>
    -- {"s": contents, "impl": hexdigest reported by GeneratedContent.hash}
    let str ← strField j "s"
    let h := Md5.md5Hex str
    let impl := fieldD j "impl" Json.null
    let failed := if impl.isNull then [] else
      match impl.getStr? with
      | .ok x => if x.toList = h then [] else ["hash≠md5(utf8(contents))"]
      | _ => ["impl-error"]
    pure (Json.mkObj [("model", S h), ("failed", clauses failed)])
  | _ => throw s!"unknown build op {op}"

end BuildOps
