import Driver.Codec
open Lean Py Codec Scoping PortSel CppGen Text

namespace GenOps

def clauses (l : List String) : Json := Json.arr (l.map Json.str).toArray

/-- {"w":"all|none|remaining"} | {"names":[...]} -/
def portSelectOf (j : Json) : Except String PortSelect := do
  if hasField j "w" then
    match ← (← field j "w").getStr? with
    | "all" => pure (.wild .all)
    | "none" => pure (.wild .none)
    | _ => pure (.wild .remaining)
  else pure (.names (← strListField j "names"))

def semS : Sem → String | .sts => "STS" | .mts => "MTS"

/-- {"psts":..,"pmts":..,"rsts":..,"rmts":..} → PortsCfg through all validating constructors -/
def portsCfgOf (j : Json) (mc : Option MultiClientCfg := none) : Except String (R PortsCfg) := do
  let a ← portSelectOf (← field j "psts")
  let b ← portSelectOf (← field j "pmts")
  let c ← portSelectOf (← field j "rsts")
  let d ← portSelectOf (← field j "rmts")
  pure (do
    let a ← mkPortSelect a
    let b ← mkPortSelect b
    let c ← mkPortSelect c
    let d ← mkPortSelect d
    let p ← mkSemCfg a b
    let r ← mkSemCfg c d
    mkPortsCfg p r mc)

def fqnOf (j : Json) : Except String Fqn := do
  pure { ids := ← strListField j "ids", root := boolFieldD j "root" false }

def typeDescOf (j : Json) : Except String TypeDesc := do
  let targ ← if hasField j "targ" then (do pure (some (← fqnOf (← field j "targ")))) else pure none
  let pfix := match (j.getObjValAs? String "postfix").toOption.getD "" with
    | "&" => Postfix.ref | "*" => Postfix.ptr | _ => Postfix.none
  let dflt := match j.getObjVal? "default" with
    | .ok (.str s) => some s.toList
    | _ => none
  pure { fqn := ← fqnOf (← field j "fqn"), targ, pfix, isConst := boolFieldD j "const" false, dflt }

def paramOf (j : Json) : Except String Param := do
  pure { ty := ← typeDescOf (← field j "type"), name := ← strField j "name" }

def strD (j : Json) (k : String) : Str :=
  match j.getObjVal? k with | .ok (.str s) => s.toList | _ => []

def optStr (j : Json) (k : String) : Option Str :=
  match j.getObjVal? k with | .ok (.str s) => some s.toList | _ => none

def ParseOpsTag (impl : Json) : String :=
  match impl.getObjVal? "err" with
  | .ok (.str s) => s
  | _ => if hasField impl "ok" then "ok" else "?"

def handle (op : String) (j : Json) : Except String Json := do
  let impl := fieldD j "impl" Json.null
  match op with
  | "portsel.match" =>
    let cfgR ← portsCfgOf (← field j "cfg")
    let prov ← strListField j "prov"
    let req ← strListField j "req"
    let r : R (List (Str × Sem)) := do
      let c ← cfgR
      c.matchAll prov req
    let sortedJ := fun (l : List (Str × Sem)) =>
      let l' := l.mergeSort (fun a b => strLe a.1 b.1)
      Json.arr (l'.map (fun (k, v) => Json.arr #[S k, Json.str (semS v)])).toArray
    let model := resJson sortedJ r
    -- monitor: spec evaluated on the implementation's outcome
    let failed ← if impl.isNull then pure [] else do
      let a ← portSelectOf (← field (← field j "cfg") "psts")
      let b ← portSelectOf (← field (← field j "cfg") "pmts")
      let c ← portSelectOf (← field (← field j "cfg") "rsts")
      let d ← portSelectOf (← field (← field j "cfg") "rmts")
      let pc : SemCfg := { sts := a, mts := b }
      let rc : SemCfg := { sts := c, mts := d }
      let malformed := [a, b, c, d].any (fun s => match s with | .names l => l.isEmpty || l.contains [] | _ => false)
      let faults := Spec.sideFaults pc prov ++ Spec.sideFaults rc req ++
        (if pc.sts.isNotEmpty && pc.mts.isNotEmpty then ["mixed-provides"] else []) ++
        (if pc.sts.eq pc.mts || rc.sts.eq rc.mts then ["equal-selections"] else []) ++
        (if malformed then ["malformed-selection"] else [])
      let tag := ParseOpsTag impl
      if !faults.isEmpty then
        pure (if tag == "lib:AdvShellError" then [] else ["fault-not-rejected:" ++ String.intercalate "," faults ++ "→" ++ tag])
      else if (prov ++ req).contains [] then pure []
      else
        match arrField impl "ok" with
        | .ok items =>
          let got : List (Str × String) := items.filterMap fun it =>
            match it.getArr? with
            | .ok a => match (str? a[0]!, a[1]!.getStr?) with
              | (.ok k, .ok v) => some (k, v)
              | _ => none
            | _ => none
          let want := fun (p : Str) (side : SemCfg) => (Spec.sideSem side p).map semS
          let okSide := fun (ports : List Str) (side : SemCfg) =>
            ports.all fun p => (got.lookup p) = want p side
          pure ((if okSide prov pc then [] else ["provides-semantics"]) ++
                (if okSide req rc then [] else ["requires-semantics"]) ++
                (if got.all (fun kv => (prov ++ req).contains kv.1) then [] else ["invented-port"]) ++
                -- the resolution is a function of (configuration, port names): a match neither writes to the
                -- user's selections nor answers differently when the same configuration object is asked again
                (if hasField impl "selection_changed_by_match" then ["match-altered-the-configuration"] else []) ++
                (if hasField impl "second_match_of_same_configuration" then ["same-configuration-resolved-differently"] else []))
        | _ => pure ["valid-configuration-rejected:" ++ tag]
    pure (Json.mkObj [("model", model), ("failed", clauses failed)])
  | "cpp.function" =>
    let f : Function := {
      ret := ← typeDescOf (← field j "ret"), name := ← strField j "name",
      params := ← (← arrField j "params").mapM paramOf,
      pfx := match (j.getObjValAs? String "prefix").toOption.getD "" with
        | "virtual" => .virtual | "static" => .static | _ => .member,
      cav := strD j "cav", override := boolFieldD j "override" false, init := strD j "init",
      contents := .str (strD j "contents"), scope := optStr j "scope" }
    -- `checked`: the description goes through the constructor's own validation first (a refused description
    -- renders nothing)
    let checked := boolFieldD j "checked" false
    let model := if checked then
        resJson (fun (p : Str × Str) => Json.mkObj [("decl", S p.1), ("def", S p.2)]) f.render
      else Json.mkObj [("decl", S f.asDecl), ("def", S f.asDef)]
    let rendered := fun (impl : Json) => if checked then fieldD impl "ok" Json.null else impl
    let failed := if impl.isNull then [] else
      if checked && hasField impl "err" then
        -- a refusal must be the library's own error, and only descriptions the specification calls unrenderable
        -- may be refused: no name, `virtual` without an owner, a pure-specifier on a non-virtual function
        (if ParseOpsTag impl == "lib:CppGenError" then [] else ["refused-with:" ++ ParseOpsTag impl]) ++
        (if f.name.isEmpty || (f.pfx.isVirtual && f.scope.isNone) || ((L "0").isPrefixOf f.init && !f.pfx.isVirtual)
         then [] else ["renderable-description-refused"])
      else
      (if checked && ((L "0").isPrefixOf f.init && !f.pfx.isVirtual) then ["pure-specifier-on-a-non-virtual-function-accepted"] else []) ++
      (if checked && (f.pfx.isVirtual && f.scope.isNone) then ["virtual-without-an-owner-accepted"] else []) ++
      (if checked && f.name.isEmpty then ["nameless-function-accepted"] else []) ++
      match (strField (rendered impl) "decl", strField (rendered impl) "def") with
      | (.ok d, .ok e) => Spec.holdsC20_fn d e f.scope (!f.init.isEmpty) (some (f.params.map (·.ty.dflt)))
      | _ => ["impl-error"]
    pure (Json.mkObj [("model", model), ("failed", clauses failed)])
  | "cpp.constructor" =>
    let cscope ← strField j "scope"
    let cparams ← (← arrField j "params").mapM paramOf
    let cexp := boolFieldD j "explicit" false
    let c : Constructor := {
      scope := cscope, «explicit» := cexp, params := cparams, init := strD j "init",
      mil := (strListField j "mil").toOption.getD [], contents := .str (strD j "contents") }
    let checked := boolFieldD j "checked" false
    let model := if checked then
        resJson (fun (p : Str × Str) => Json.mkObj [("decl", S p.1), ("def", S p.2)]) c.render
      else Json.mkObj [("decl", S c.asDecl), ("def", S c.asDef)]
    let impl0 := impl
    let impl := if checked && !impl0.isNull && !hasField impl0 "err" then fieldD impl0 "ok" Json.null else impl0
    let failed := if impl.isNull then [] else
      if checked && hasField impl0 "err" then
        (if ParseOpsTag impl0 == "lib:CppGenError" then [] else ["refused-with:" ++ ParseOpsTag impl0]) ++
        (if !c.init.isEmpty && !c.mil.isEmpty then [] else ["renderable-description-refused"])
      else
      (if checked && !c.init.isEmpty && !c.mil.isEmpty then ["initialised-constructor-with-member-initialisers-accepted"] else []) ++
      match (strField impl "decl", strField impl "def") with
      | (.ok d, .ok e) =>
        -- constructors have no return type: read them with a dummy one in front
        Spec.holdsC20_fn (L "void " ++ (if c.«explicit» then d.drop 9 else d)) (if e.isEmpty then e else L "void " ++ e)
          (some c.scope) (!c.init.isEmpty)
      | _ => ["impl-error"]
    pure (Json.mkObj [("model", model), ("failed", clauses failed)])
  | "cpp.destructor" =>
    let dscope ← strField j "scope"
    let dovr := boolFieldD j "override" false
    let d : Destructor := {
      scope := dscope, «override» := dovr, init := strD j "init", contents := .str (strD j "contents") }
    let model := Json.mkObj [("decl", S d.asDecl), ("def", S d.asDef)]
    let failed := if impl.isNull then [] else
      match (strField impl "decl", strField impl "def") with
      | (.ok dd, .ok e) =>
        Spec.holdsC20_fn (L "void " ++ dd) (if e.isEmpty then e else L "void " ++ e) (some d.scope) (!d.init.isEmpty)
      | _ => ["impl-error"]
    pure (Json.mkObj [("model", model), ("failed", clauses failed)])
  | "cpp.struct" =>
    let kw := strD j "kw"
    let name ← strField j "name"
    let contents ← strListField j "contents"
    let header := (strListField j "header").toOption.getD []
    let t : TB := { header := header, lines := contents }
    let r := structStr kw name t
    let failed := if impl.isNull then [] else
      match impl.getStr? with
      | .ok s =>
        -- contents = header lines + content lines of the block handed in; unchanged between the braces
        if splitlines s.toList = [kw ++ L " " ++ name, L "{"] ++ (if contents.isEmpty then [] else header ++ contents) ++ [L "};"] then []
        else ["struct-block"]
      | _ => ["impl-error"]
    pure (Json.mkObj [("model", S r), ("failed", clauses failed)])
  | "cpp.namespace" =>
    let ids ← strListField j "ids"
    let contents ← strListField j "contents"
    let header := (strListField j "header").toOption.getD []
    let t : TB := { header := header, lines := contents }
    let r := namespaceStr ids t
    let nsS : Str := if ids.isEmpty then [] else L " " ++ join (L "::") ids
    let failed := if impl.isNull then [] else
      match impl.getStr? with
      | .ok s => Spec.holdsC20_block (L "namespace" ++ nsS ++ L " {") (L "} // namespace" ++ nsS)
                   (L "namespace" ++ nsS ++ L " {}") (if contents.isEmpty then [] else header ++ contents) s.toList
      | _ => ["impl-error"]
    pure (Json.mkObj [("model", S r), ("failed", clauses failed)])
  | "cpp.blocks2" =>
    -- two blocks of one family built WITHOUT contents; the first one's contents are then extended in place through
    -- the getter; both are rendered: {"family":"struct|class|namespace","a":name/ids,"b":name/ids,"extend":[lines]}
    let fam ← (← field j "family").getStr?
    let ext ← strListField j "extend"
    let render (x : Json) (t : TB) : Except String Str := do
      if fam == "namespace" then pure (namespaceStr (← (do (← x.getArr?).toList.mapM str?)) t)
      else pure (structStr fam.toList (← str? x) t)
    let ra ← render (← field j "a") { lines := ext }
    let rb ← render (← field j "b") {}
    -- "around unchanged contents": a block whose contents nobody touched still renders empty; the extended one
    -- renders exactly what was put into it
    let failed := if impl.isNull then [] else
      match impl.getArr? with
      | .ok a =>
        (if (a[0]?.bind (·.getStr?.toOption)).map String.toList = some ra then [] else ["extended-block-does-not-render-its-contents"]) ++
        (if (a[1]?.bind (·.getStr?.toOption)).map String.toList = some rb then [] else ["contents-appeared-in-a-block-they-were-never-put-into"])
      | _ => ["impl-error"]
    pure (Json.mkObj [("model", Json.arr #[S ra, S rb]), ("failed", clauses failed)])
  | "cpp.misc" =>
    -- includes / member variable / access section / fqn / typedesc: correspondence only
    let kind ← (← field j "kind").getStr?
    let r ← match kind with
      | "sysinc" => pure (systemIncludesStr (← strListField j "incs"))
      | "projinc" => pure (projectIncludesStr (← strListField j "incs"))
      | "membervar" => pure (MemberVariable.str { ty := ← typeDescOf (← field j "type"), name := ← strField j "name" })
      | "access" => pure (accessSectionStr (optStr j "spec") { lines := ← strListField j "contents" })
      | "typedesc" => pure (TypeDesc.str (← typeDescOf (← field j "type")))
      | _ => throw "bad misc kind"
    pure (Json.mkObj [("model", S r), ("failed", clauses [])])
  | _ => throw s!"unknown gen op {op}"

end GenOps
