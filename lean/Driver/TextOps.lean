import Driver.Codec
open Lean Py Text Codec

namespace TextOps

def noneC : Content := .none
def clauses (l : List String) : Json := Json.arr (l.map Json.str).toArray

/-- history steps: {"k":"append"|"iadd","c":content} {"k":"trim","end_only":b} {"k":"indent","ind":I?}
    {"k":"set_indentor","ind":I} {"k":"setlines","ls":[str]} {"k":"add","c":content}
    {"k":"pour","in_list":b} {"k":"obs"} -/
def hop (j : Json) : Except String HOp := do
  let k ← (← field j "k").getStr?
  match k with
  | "append" | "iadd" => pure (.append (← content (← field j "c")))
  | "trim" => pure (.trim (boolFieldD j "end_only" false))
  | "indent" => if hasField j "ind" then pure (.indent (some (← indentizer (← field j "ind")))) else pure (.indent none)
  | "set_indentor" => pure (.setIndentor (← indentizer (← field j "ind")))
  | "setlines" => pure (.setLines (← strListField j "ls"))
  | "add" => pure (.add (← content (← field j "c")))
  | "pour" => pure (.pour (boolFieldD j "in_list" false))
  | "obs" => pure .observe
  | _ => throw s!"unknown history step {k}"

/-- each op returns {"model": …, "failed": [clauses]} ; "impl" carries the implementation's output -/
def handle (op : String) (j : Json) : Except String Json := do
  let impl := fieldD j "impl" Json.null
  match op with
  | "tb.new" =>
    let c ← content (← field j "content")
    let h ← contentD j "header" noneC
    let t := TB.mk' c h
    let rt := (TB.mk' (.str (tbStr [] t.lines))).lines
    let model := Json.mkObj [("lines", SL t.lines), ("str", S t.toStr), ("rt", SL rt)]
    let failed := if impl.isNull then [] else
      match (strListField impl "lines", strField impl "str", strListField impl "rt") with
      | (.ok ls, .ok s, .ok r) => Spec.holdsC17_block c h ls s r
      | _ => ["impl-error"]
    pure (Json.mkObj [("model", model), ("failed", clauses failed)])
  | "tb.append" | "tb.iadd" | "tb.add" =>
    let a ← content (← field j "a")
    let b ← content (← field j "b")
    let t := TB.mk' a
    let r := if op == "tb.add" then t.add b else t.append b
    let model := Json.mkObj [("lines", SL r.lines)]
    let failed := if impl.isNull then [] else
      match strListField impl "lines" with
      | .ok ls => if ls = Spec.piecesTop a ++ Spec.piecesTop b then [] else ["append≠concat"]
      | _ => ["impl-error"]
    pure (Json.mkObj [("model", model), ("failed", clauses failed)])
  | "tb.trim" =>
    let c ← content (← field j "content")
    let e := boolFieldD j "end_only" false
    let r := (TB.mk' c).trim e
    let model := Json.mkObj [("lines", SL r.lines)]
    let failed := if impl.isNull then [] else
      match strListField impl "lines" with
      | .ok ls => if ls = Spec.trimSpec (Spec.piecesTop c) e then [] else ["trim"]
      | _ => ["impl-error"]
    pure (Json.mkObj [("model", model), ("failed", clauses failed)])
  | "chunk" =>
    let c ← content (← field j "content")
    let ap ← contentD j "appendix" (.str ['\n'])
    let r := chunk c ap
    let model := match r with | none => Json.null | some t => SL t.lines
    let failed := if !(hasField j "impl") then [] else
      let implv : Option (List Str) := (do (← impl.getArr?).toList.mapM str?).toOption
      if implv = Spec.chunkSpec c ap then [] else ["chunk"]
    pure (Json.mkObj [("model", model), ("failed", clauses failed)])
  | "cond_chunk" =>
    let p ← content (← field j "preamble")
    let c ← content (← field j "content")
    let e ← content (← field j "empty")
    let ap ← contentD j "appendix" (.str ['\n'])
    let aon := boolFieldD j "aon" false
    let r := condChunk p c e ap aon
    let model := match r with | none => Json.null | some t => SL t.lines
    let failed := if !(hasField j "impl") then [] else
      let implv : Option (List Str) := (do (← impl.getArr?).toList.mapM str?).toOption
      if implv = Spec.condChunkSpec p c e ap aon then [] else ["cond_chunk"]
    pure (Json.mkObj [("model", model), ("failed", clauses failed)])
  | "ind.to_list" | "ind.to_str" =>
    let i ← indentizer (← field j "ind")
    let c ← content (← field j "content")
    let flat := flatten false c
    let out := i.toListFlat flat
    let model := if op == "ind.to_list" then SL out
                 else resJson S (i.toStr c)
    let failed := if impl.isNull then [] else
      if op == "ind.to_list" then
        match (impl.getArr?) with
        | .ok a => match a.toList.mapM str? with
          | .ok outs => Spec.holdsC18_step i flat outs
          | _ => ["impl-error"]
        | _ => ["impl-error"]
      else
        match strField impl "ok" with
        | .ok s => if s = Py.join ['\n'] out ++ ['\n'] then [] else ["to_str≠to_list"]
        | _ => ["to_str-raises"]
    pure (Json.mkObj [("model", model), ("failed", clauses failed)])
  | "tb.indent" =>
    -- repeated indentation of a block with a header; impl: {"steps":[[lines]...],"str":…}
    let c ← content (← field j "content")
    let h ← contentD j "header" noneC
    let inds ← (← arrField j "inds").mapM indentizer
    let t0 := TB.mk' c h
    let (tEnd, stepsRev) := inds.foldl (fun (acc : TB × List (List Str)) i =>
        let t' := acc.1.indent (some i); (t', t'.lines :: acc.2)) (t0, [])
    let steps := stepsRev.reverse
    let model := Json.mkObj [("steps", Json.arr (steps.map SL).toArray), ("str", S tEnd.toStr),
                             ("header", SL tEnd.header)]
    let failed := if impl.isNull then [] else
      match (arrField impl "steps", strField impl "str", strListField impl "header") with
      | (.ok st, .ok s, .ok hd) =>
        match st.mapM (fun x => do (← x.getArr?).toList.mapM str?) with
        | .ok implSteps =>
          -- each step is checked against the *implementation's* previous step
          let ins := t0.lines :: implSteps
          let pairs := (inds.zip (ins.zip implSteps))
          let fs := pairs.flatMap (fun (i, a, b) => Spec.holdsC18_step i a b)
          fs ++ (if hd = t0.header then [] else ["header-changed"]) ++
            (if s = Spec.strSpec t0.header (implSteps.getLast?.getD t0.lines) then [] else ["str"])
        | _ => ["impl-error"]
      | _ => ["impl-error"]
    pure (Json.mkObj [("model", model), ("failed", clauses failed)])
  | "comment.str" =>
    let c ← content (← field j "content")
    let ls := contentLines c
    let s := commentStr ls
    -- optionally: the comment extended (in place / by append) after a rendering, rendered again
    let ext? : Option Content ← if hasField j "extend" then (do
        let e ← content (← field j "extend")
        pure (some e)) else pure none
    let model := match ext? with
      | none => Json.mkObj [("before", SL ls), ("str", S s), ("after", SL ls), ("str2", S s)]
      | some e =>
        let s3 := commentStr (ls ++ contentLines e)
        Json.mkObj [("before", SL ls), ("str", S s), ("after", SL ls), ("str2", S s), ("str3", S s3), ("str4", S s3)]
    let failed := if impl.isNull then [] else
      match (strListField impl "before", strField impl "str", strListField impl "after", strField impl "str2") with
      | (.ok b, .ok s1, .ok a, .ok s2) =>
        Spec.holdsC19_comment c s1 b a s2 ++
        (match ext? with
         | none => []
         | some e =>
           let want := Spec.commentSpec (ls ++ contentLines e)
           (match strField impl "str3" with
            | .ok s3 => if s3 = want then [] else ["extended-in-place-then-rendered"]
            | _ => ["impl-error"]) ++
           (match strField impl "str4" with
            | .ok s4 => if s4 = want then [] else ["appended-then-rendered"]
            | _ => ["impl-error"]))
      | _ => ["impl-error"]
    pure (Json.mkObj [("model", model), ("failed", clauses failed)])
  | "tb.hist" =>
    -- one TextBlock / Comment object under a history of operations; impl: [{"lines":..,"str":..,"extra":..|null}]
    let c ← content (← field j "content")
    let h ← contentD j "header" noneC
    let isC := boolFieldD j "comment" false
    let ops ← (← arrField j "steps").mapM hop
    let o := TObj.new isC c h
    let obs := o.run ops
    -- a Comment whose stored indentizer is never touched renders every line behind `//`
    let plainComment := ops.all fun | .indent _ | .setIndentor _ => false | _ => true
    -- lines written through the setter / produced by an indenter are not split (outside "no line break")
    let dirty := ops.any fun | .setLines _ | .indent _ => true | _ => false
    let obsJson (x : HObs) : Json := Json.mkObj [("lines", SL x.lines), ("str", S x.str),
      ("extra", match x.extra with | none => Json.null | some l => SL l)]
    let model := Json.arr (obs.map obsJson).toArray
    let failed := if impl.isNull then [] else
      match impl.getArr? with
      | .ok a =>
        let implObs : List (Option HObs) := a.toList.map fun x =>
          match (strListField x "lines", strField x "str") with
          | (.ok ls, .ok s) =>
            let ex : Option (List Str) := (strListField x "extra").toOption
            some { lines := ls, str := s, extra := ex }
          | _ => none
        if implObs.length ≠ obs.length then ["history-length"] else
        (implObs.zip (ops.zip obs)).flatMap fun (io, op, _) =>
          match io with
          | none => ["impl-error"]
          | some x =>
            -- the string form is fixed by the *implementation's own* current lines
            (if isC then
               (if plainComment then
                  (if x.str = Spec.commentSpec x.lines then [] else ["comment-str≠//-rendering-of-lines"])
                else [])
             else if x.str = Spec.strSpec o.tb.header x.lines then [] else ["str≠header+lines+newline"]) ++
            (match op with
             | .setLines _ | .indent _ | .setIndentor _ => []
             | _ => if !dirty && !(x.lines.all Spec.breakFree) then ["line-contains-break"] else [])
      | _ => ["impl-error"]
    -- the whole observation sequence is the specified one
    let failed := failed ++ (if impl.isNull then [] else
      if impl == model then [] else ["history≠specified"])
    pure (Json.mkObj [("model", model), ("failed", clauses failed)])
  | "tb.hist2" =>
    -- several block objects handed to one another; impl: [{"objs":[{"lines":..,"str":..}..],"extra":..|null}]
    let mk (x : Json) : Except String TObj := do
      let c ← content (← field x "content")
      let h ← contentD x "header" noneC
      pure (TObj.new (boolFieldD x "comment" false) c h)
    let objs ← (← arrField j "objects").mapM mk
    let hop2 (x : Json) : Except String HOp2 := do
      let k ← (← field x "k").getStr?
      let o ← natField x "o"
      match k with
      | "append_ref" | "iadd_ref" => pure (.appendRef o (← natField x "j"))
      | "add_ref" => pure (.addRef o (← natField x "j"))
      | "new_from" => pure (.newFrom o (← natField x "j") (boolFieldD x "comment" false))
      | "append_lines_of" => pure (.appendLinesOf o (← natField x "j"))
      | "new_with_header" => pure (.newWithHeader o (← natField x "j") (← natField x "h"))
      | "clone" => pure (.clone o (← natField x "j"))
      | _ => pure (.on o (← hop x))
    let ops ← (← arrField j "steps").mapM hop2
    let obs := run2 objs ops
    let model := Json.arr (obs.map fun (os, extra) => Json.mkObj [
      ("objs", Json.arr (os.map fun (ls, s) => Json.mkObj [("lines", SL ls), ("str", S s)]).toArray),
      ("extra", match extra with | none => Json.null | some l => SL l)]).toArray
    -- the frame clause on the IMPLEMENTATION's observations: a step changes at most the object it is applied to
    let failed : List String := if impl.isNull then [] else
      match impl.getArr? with
      | .ok a =>
        let snaps : List (List Json) := a.toList.map fun x => (arrField x "objs").toOption.getD []
        let init : List Json := objs.map fun o => Json.mkObj [("lines", SL o.tb.lines), ("str", S o.str)]
        let target : HOp2 → Option Nat
          | .on o (.append _) | .on o (.trim _) | .on o (.indent _) | .on o (.setIndentor _) | .on o (.setLines _) => some o
          | .appendRef o _ | .newFrom o _ _ | .appendLinesOf o _ | .newWithHeader o _ _ | .clone o _ => some o
          | _ => none
        (ops.zip ((init :: snaps).zip snaps)).flatMap fun (op, before, after) =>
          (List.range before.length).flatMap fun i =>
            if target op = some i || (before.getD i Json.null) == (after.getD i Json.null) then []
            else ["a-step-on-one-block-changed-another-block"]
      | _ => ["impl-error"]
    let failed := failed ++ (if impl.isNull || impl == model then [] else ["history≠specified"])
    pure (Json.mkObj [("model", model), ("failed", clauses failed)])
  | "py.splitlines" =>
    let s ← strField j "s"
    pure (Json.mkObj [("model", SL (splitlines s)), ("failed", clauses [])])
  | "py.strip" =>
    let s ← strField j "s"
    pure (Json.mkObj [("model", S (strip s)), ("failed", clauses [])])
  | _ => throw s!"unknown text op {op}"

end TextOps
