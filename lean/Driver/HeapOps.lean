/- driver op `heap`: a history of scoping operations over the explicit heap (DznModel.ScopingHeap) -/
import Driver.Codec
import DznModel.ScopingHeap
open Lean Py Scoping ScopingHeap Codec

namespace HeapOps

def natList (j : Json) (k : String) : Except String (List Nat) := do
  (← arrField j k).mapM (fun x => x.getNat?)

def opOf (j : Json) : Except String Op := do
  let k ← (← field j "k").getStr?
  match k with
  | "fromList" => pure (.fromList (← strListField j "items"))
  | "alias" => pure (.alias (← natField j "r"))
  | "fromStr" => pure (.fromStr (← strField j "s"))
  | "add" => pure (.add (← natField j "a") (← natField j "b"))
  | "iadd" => pure (.iadd (← natField j "a") (← natField j "b"))
  | "pop" => pure (.pop (← natField j "a"))
  | "deepcopy" => pure (.deepcopy (← natField j "a"))
  | "sum" => pure (.sum (← natList j "xs"))
  | "sro" => pure (.sro (← natField j "name") (← natField j "scope"))
  | "sroNone" => pure (.sroNone (← natField j "name"))
  | "fqn" => pure (.fqn (← natList j "trail"))
  | "fqnMember" => pure (.fqnMember (← natList j "trail") (← natField j "m"))
  | _ => throw s!"unknown heap op {k}"

def cellsJ (h : Heap) : Json := Json.arr (h.cells.map SL).toArray

/-- per step: {"out": {"ok":[refs]} | {"err":tag}, "cells": [[ids]…]} -/
def runJ (h : Heap) : List Op → List Json
  | [] => []
  | op :: ops =>
    match step h op with
    | .ok (h', rs) =>
      Json.mkObj [("out", okJson (Json.arr (rs.map (fun (r : Nat) => Json.num r)).toArray)), ("cells", cellsJ h')] :: runJ h' ops
    | .error e =>
      Json.mkObj [("out", errJson e), ("cells", cellsJ h)] :: runJ h ops

/-- the frame clause evaluated on the IMPLEMENTATION's observations: between consecutive snapshots only
    the cell an in-place operation names may change, and cells are never dropped -/
def frameClauses (ops : List Op) (snaps : List (List Ids)) : List String :=
  let pairs := (ops.zip ((([] : List Ids) :: snaps).zip snaps))
  pairs.flatMap fun (op, before, after) =>
    (if after.length < before.length then ["object-disappeared"] else []) ++
    ((List.range before.length).flatMap fun r =>
      if before.getD r [] = after.getD r [] || op.mutates = some r then [] else ["existing-object-changed"])

def handle (op : String) (j : Json) : Except String Json := do
  match op with
  | "heap" =>
    let ops ← (← arrField j "ops").mapM opOf
    let model := Json.arr (runJ {} ops).toArray
    let impl := fieldD j "impl" Json.null
    let failed : List String := if impl.isNull then [] else
      match impl.getArr? with
      | .ok a =>
        let snaps : List (Option (List Ids)) := a.toList.map fun x =>
          ((arrField x "cells").toOption.bind fun cs =>
            (cs.mapM fun (c : Json) => (do let a ← c.getArr?; a.toList.mapM str? : Except String (List Str))).toOption)
        if snaps.any (·.isNone) || snaps.length ≠ ops.length then ["impl-error"]
        else frameClauses ops (snaps.filterMap id)
      | _ => ["impl-error"]
    let failed := failed ++ (if impl.isNull || impl == model then [] else ["history≠heap-model"])
    pure (Json.mkObj [("model", model), ("failed", Json.arr (failed.map Json.str).toArray)])
  | _ => throw s!"unknown heap op {op}"

end HeapOps
