import Driver.Codec
open Lean Py Codec Scoping Ast

namespace ParseOps

/-! ### JVal <-> Lean.Json -/

partial def jvalOfJson : Json → JVal
  | .null => .null
  | .bool b => .bool b
  | .num n => if n.exponent = 0 then .int n.mantissa else .num (toString n).toList
  | .str s => .str s.toList
  | .arr a => .arr (a.toList.map jvalOfJson)
  | .obj kvs => .obj (kvs.toList.map (fun (k, v) => (k.toList, jvalOfJson v)))

partial def jsonOfJval : JVal → Json
  | .null => .null
  | .bool b => .bool b
  | .int i => .num (JsonNumber.fromInt i)
  | .num r => .str ("float:" ++ String.ofList r)
  | .str s => S s
  | .arr l => .arr (l.map jsonOfJval).toArray
  | .obj kvs => Json.mkObj (kvs.map (fun (k, v) => (String.ofList k, jsonOfJval v)))

/-- canonical comparison of two JSON values through their compressed sorted text -/
def jvalEq (a b : JVal) : Bool := (jsonOfJval a).compress == (jsonOfJval b).compress

/-! ### dumps -/

def idsJ (i : Ids) : Json := SL i
def nsJ (t : NsTree) : Json := Json.arr (t.scopes.map idsJ).toArray

def formalDirS : FormalDir → String | .in_ => "In" | .out => "Out" | .inout => "InOut"
def eventDirS : EventDir → String | .in_ => "In" | .out => "Out"
def portDirS : PortDir → String | .requires => "Requires" | .provides => "Provides"

def formalJ (f : Formal) : Json :=
  Json.mkObj [("name", S f.name), ("type", idsJ f.typeName), ("dir", Json.str (formalDirS f.dir))]
def eventJ (e : Event) : Json :=
  Json.mkObj [("name", S e.name), ("reply", idsJ e.replyType),
    ("formals", Json.arr (e.formals.map formalJ).toArray), ("dir", Json.str (eventDirS e.dir))]
def portJ (p : Port) : Json :=
  Json.mkObj [("name", S p.name), ("type", idsJ p.typeName), ("dir", Json.str (portDirS p.dir)),
    ("formals", Json.arr (p.formals.map formalJ).toArray), ("injected", Json.bool p.injected)]
def enumJ (e : EnumD) : Json :=
  Json.mkObj [("fqn", idsJ e.fqn), ("parent", nsJ e.parent), ("name", idsJ e.name),
    ("fields", Json.arr (e.fields.map jsonOfJval).toArray)]
def subintJ (s : SubIntD) : Json :=
  Json.mkObj [("fqn", idsJ s.fqn), ("parent", nsJ s.parent), ("name", idsJ s.name),
    ("from", jsonOfJval s.fromV), ("to", jsonOfJval s.toV)]
def externJ (e : ExternD) : Json :=
  Json.mkObj [("fqn", idsJ e.fqn), ("parent", nsJ e.parent), ("name", idsJ e.name), ("value", S e.value)]
def typeJ : TypeD → Json
  | .enum e => (enumJ e).setObjVal! "k" (Json.str "enum")
  | .subint s => (subintJ s).setObjVal! "k" (Json.str "subint")
def interfaceJ (i : InterfaceD) : Json :=
  Json.mkObj [("fqn", idsJ i.fqn), ("parent", nsJ i.parent), ("trail", nsJ i.trail), ("name", idsJ i.name),
    ("types", Json.arr (i.types.map typeJ).toArray), ("events", Json.arr (i.events.map eventJ).toArray)]
def componentJ (c : ComponentD) : Json :=
  Json.mkObj [("fqn", idsJ c.fqn), ("parent", nsJ c.parent), ("name", idsJ c.name),
    ("ports", Json.arr (c.ports.map portJ).toArray)]
def optS : Option Str → Json | none => Json.null | some s => S s
def endpointJ (e : EndPoint) : Json := Json.mkObj [("port", S e.portName), ("inst", optS e.instanceName)]
def systemJ (s : SystemD) : Json :=
  Json.mkObj [("fqn", idsJ s.fqn), ("parent", nsJ s.parent), ("name", idsJ s.name),
    ("ports", Json.arr (s.ports.map portJ).toArray),
    ("instances", Json.arr (s.instances.map (fun i => Json.mkObj [("name", S i.name), ("type", idsJ i.typeName)])).toArray),
    ("bindings", Json.arr (s.bindings.map (fun b => Json.mkObj [("left", endpointJ b.left), ("right", endpointJ b.right)])).toArray)]
def fcJ (f : FC) : Json :=
  Json.mkObj [("components", Json.arr (f.components.map componentJ).toArray),
    ("enums", Json.arr (f.enums.map enumJ).toArray),
    ("externs", Json.arr (f.externs.map externJ).toArray),
    ("filenames", SL f.filenames),
    ("foreigns", Json.arr (f.foreigns.map componentJ).toArray),
    ("imports", SL f.imports),
    ("interfaces", Json.arr (f.interfaces.map interfaceJ).toArray),
    ("subints", Json.arr (f.subints.map subintJ).toArray),
    ("systems", Json.arr (f.systems.map systemJ).toArray)]

def declsJ (ds : List Decl) : Json :=
  Json.arr (ds.map (fun d => Json.arr #[Json.str d.kind, idsJ d.fqn])).toArray

/-! ### source trees -/

def idsField (j : Json) (k : String) : Except String Ids := strListField j k

def formalDir? : String → Except String FormalDir
  | "in" => pure .in_ | "out" => pure .out | "inout" => pure .inout | s => throw s!"dir {s}"

def formalOf (j : Json) : Except String Formal := do
  pure { name := ← strField j "name", typeName := ← idsField j "type",
         dir := ← formalDir? (← (← field j "dir").getStr?) }

def eventOf (j : Json) : Except String Event := do
  let d ← (← field j "dir").getStr?
  pure { name := ← strField j "name", replyType := ← idsField j "reply",
         formals := ← (← arrField j "formals").mapM formalOf,
         dir := if d == "out" then .out else .in_ }

def portOf (j : Json) : Except String Port := do
  let d ← (← field j "dir").getStr?
  pure { name := ← strField j "name", typeName := ← idsField j "type",
         dir := if d == "provides" then .provides else .requires,
         formals := ← (← arrField j "formals").mapM formalOf,
         injected := boolFieldD j "injected" false }

def intField (j : Json) (k : String) : Except String Int := do (← field j k).getInt?

def dtypeOf (j : Json) : Except String Spec.DType := do
  match ← (← field j "k").getStr? with
  | "enum" => pure (.enum (← idsField j "name") (← strListField j "fields"))
  | "subint" => pure (.subint (← idsField j "name") (← intField j "lo") (← intField j "hi"))
  | _ => pure (.unknown (← strField j "cls"))

def endpointOf (j : Json) : Except String EndPoint := do
  let inst := match j.getObjVal? "inst" with
    | .ok (.str s) => some s.toList
    | _ => none
  pure { portName := ← strField j "port", instanceName := inst }

partial def delemOf (j : Json) : Except String Spec.DElem := do
  match ← (← field j "k").getStr? with
  | "component" => pure (.component (← idsField j "name") (← (← arrField j "ports").mapM portOf))
  | "foreign" => pure (.foreign (← idsField j "name") (← (← arrField j "ports").mapM portOf))
  | "system" =>
    let is ← (← arrField j "instances").mapM fun x => do
      pure ({ name := ← strField x "name", typeName := ← idsField x "type" } : Instance)
    let bs ← (← arrField j "bindings").mapM fun x => do
      pure ({ left := ← endpointOf (← field x "left"), right := ← endpointOf (← field x "right") } : Binding)
    pure (.system (← idsField j "name") (← (← arrField j "ports").mapM portOf) is bs)
  | "interface" =>
    pure (.interface (← idsField j "name") (← (← arrField j "types").mapM dtypeOf)
            (← (← arrField j "events").mapM eventOf))
  | "enum" => pure (.enum (← idsField j "name") (← strListField j "fields"))
  | "subint" => pure (.subint (← idsField j "name") (← intField j "lo") (← intField j "hi"))
  | "extern" => pure (.extern (← idsField j "name") (← strField j "value"))
  | "import" => pure (.import_ (← strField j "name"))
  | "filename" => pure (.filename (← strField j "name"))
  | "namespace" => pure (.nspace (← idsField j "name") (← (← arrField j "elems").mapM delemOf))
  | "unknown" => pure (.unknown (← strField j "cls"))
  | "nondict" => pure (.nondict (← strField j "s"))
  | k => throw s!"bad elem kind {k}"

def clauses (l : List String) : Json := Json.arr (l.map Json.str).toArray

def resultJ : R FC → Json
  | .ok f => okJson (fcJ f)
  | .error e => errJson e

/-- outcome tag of an implementation result object {"ok":…}|{"err":tag} -/
def implTag (impl : Json) : String :=
  match impl.getObjVal? "err" with
  | .ok (.str s) => s
  | _ => if hasField impl "ok" then "ok" else "?"

/-- the out-event clause evaluated on a *dump* -/
def dumpOutEventsOk (dump : Json) : Bool :=
  match arrField dump "interfaces" with
  | .ok is => is.all fun i =>
    match arrField i "events" with
    | .ok es => es.all fun e =>
      let dir := (e.getObjValAs? String "dir").toOption.getD ""
      if dir != "Out" then true else
        let reply := (strListField e "reply").toOption.getD []
        let fs := (arrField e "formals").toOption.getD []
        reply == [L "void"] && fs.all (fun f => (f.getObjValAs? String "dir").toOption.getD "" != "Out")
    | _ => false
  | _ => false

/-! ### parser object histories (C16) -/

structure Inst where
  ast : Option JVal := none
  acc : FC := {}

def idsArgOf (j : Json) : Scoping.IdsArg :=
  match j with
  | .str s => .str s.toList
  | .arr a =>
    match a.toList.mapM (fun x => match x with | Json.str s => some s.toList | _ => none) with
    | some l => .strlist l
    | none => .other
  | _ => .other

def handle (op : String) (j : Json) : Except String Json := do
  let impl := fieldD j "impl" Json.null
  match op with
  | "parse" =>
    let ast := jvalOfJson (← field j "ast")
    let r := Parser.parse ast
    let tag := implTag impl
    let failed := if impl.isNull then [] else
      (if Spec.outcomeAllowedC15 tag then [] else ["outcome:" ++ tag]) ++
      (if tag == "ok" && !(dumpOutEventsOk (fieldD impl "ok" Json.null)) then ["out-event-survived"] else []) ++
      -- the clause read off the INPUT (C15.bad_document_refused): the document lists an out event with an out
      -- parameter or a non-void reply
      (if tag == "ok" && Spec.jBadDoc 2000 ast then ["document-with-an-invalid-out-event-accepted"] else [])
    pure (Json.mkObj [("model", resultJ r), ("failed", clauses failed)])
  | "c05" =>
    let src ← (← arrField j "src").mapM delemOf
    let ast := jvalOfJson (← field j "ast")
    let enc := Spec.encodeRoot src
    let r := Parser.parse enc
    let spec := fcJ (Spec.collectL {} {} src)
    let wf := Spec.wfElems src
    let failed := if impl.isNull then [] else
      (if jvalEq enc ast then [] else ["encode-mismatch"]) ++
      (if !wf then ["generator-not-wf"] else []) ++
      (if (fieldD impl "ok" Json.null).compress == spec.compress then [] else ["impl≠collect"]) ++
      (match r with | .ok f => if (fcJ f).compress == spec.compress then [] else ["model≠collect"] | _ => ["model-error"])
    pure (Json.mkObj [("model", resultJ r), ("failed", clauses failed)])
  | "c05.skip" =>
    -- a document with inserted elements of unknown classes (any payload) against the same document without them:
    -- impl = {"with": result, "without": result}
    let a := Parser.parse (jvalOfJson (← field j "ast"))
    let b := Parser.parse (jvalOfJson (← field j "without"))
    let model := Json.mkObj [("with", resultJ a), ("without", resultJ b)]
    let failed := if impl.isNull then [] else
      let w := fieldD impl "with" Json.null
      let wo := fieldD impl "without" Json.null
      (if implTag wo != "ok" then [] else
       if w.compress == wo.compress then [] else ["unknown-element-affected-its-siblings"])
    pure (Json.mkObj [("model", model), ("failed", clauses failed)])
  | "c16" =>
    let docs := (← arrField j "docs").map jvalOfJson
    let ops ← arrField j "ops"
    -- run the history on the object model (DznModel.ParserObj, the model of the C16 theorems)
    let docOf := fun (x : Json) => match x.getNat? with | .ok d => docs[d]? | _ => none
    let mops ← ops.mapM fun o => do
      let a ← o.getArr?
      let kind ← a[0]!.getStr?
      let k ← a[1]!.getNat?
      pure (match kind with
        | "new" => ParserObj.Op.new k (docOf (a[2]?.getD Json.null))
        | "load" => ParserObj.Op.load k ((docOf (a[2]?.getD Json.null)).getD .null)
        | _ => ParserObj.Op.process k)
    let outsL := (ParserObj.run [] mops).2
    let outs : Array Json := (outsL.map fun o => match o with
      | none => Json.null
      | some r => resultJ r).toArray
    -- the specification: a fresh parse of the document loaded by the history so far
    let expect : Array Json := ((List.range mops.length).map fun i =>
      match mops[i]? with
      | some (ParserObj.Op.process k) =>
        resultJ (Parser.parse ((ParserObj.docAfter k (mops.take i) none).getD .null))
      | _ => Json.null).toArray
    let model := Json.mkObj [("results", Json.arr outs), ("final", Json.arr outs)]
    let failed := if impl.isNull then [] else
      let ir := (fieldD impl "results" Json.null).compress
      let fin := (fieldD impl "final" Json.null).compress
      let ex := (Json.arr expect).compress
      (if ir == ex then [] else ["process≠fresh-parse"]) ++
      (if fin == ex then [] else ["earlier-result-mutated"])
    pure (Json.mkObj [("model", model), ("failed", clauses failed)])
  | "sro" =>
    let name ← idsField j "name"
    let scope ← idsField j "scope"
    let r := scopeResolutionOrder name scope
    let failed := if impl.isNull then [] else
      match impl.getArr? with
      | .ok a => match a.toList.mapM (fun x => do (← x.getArr?).toList.mapM str?) with
        | .ok l => if l = Spec.chain name scope then [] else ["order≠chain"]
        | _ => ["impl-error"]
      | _ => ["impl-error"]
    pure (Json.mkObj [("model", Json.arr (r.map idsJ).toArray), ("failed", clauses failed)])
  | "find_fqn" | "find_any" =>
    let ast := jvalOfJson (← field j "ast")
    let name ← idsField j "name"
    let scope := (idsField j "scope").toOption.getD []
    match Parser.parse ast with
    | .error e => pure (Json.mkObj [("model", errJson e), ("failed", clauses [])])
    | .ok f =>
      let r := if op == "find_fqn" then AstView.findFqn f name scope else AstView.findAny f name
      let spec := if op == "find_fqn" then Spec.findFqnSpec f name scope else Spec.findAnySpec f name
      let failed := if impl.isNull || (op == "find_any" && name.isEmpty) then [] else
        if impl.compress == (declsJ spec).compress then [] else ["result≠spec"]
      pure (Json.mkObj [("model", declsJ r), ("failed", clauses failed)])
  | "find_single" =>
    -- FindResult.has_one_instance / get_single_instance for every type hint, on the result of find_fqn
    let ast := jvalOfJson (← field j "ast")
    let name ← idsField j "name"
    let scope := (idsField j "scope").toOption.getD []
    match Parser.parse ast with
    | .error e => pure (Json.mkObj [("model", errJson e), ("failed", clauses [])])
    | .ok f =>
      let items := AstView.findFqn f name scope
      let hints : List AstView.Hint := [.absent, .kind "component", .kind "enum", .kind "extern", .kind "foreign",
        .kind "interface", .kind "subint", .kind "system", .invalid]
      let one (h : AstView.Hint) : Json := Json.mkObj [
        ("has", resJson Json.bool (AstView.hasOne items h)),
        ("get", resJson (fun d => Json.arr #[Json.str d.kind, idsJ d.fqn]) (AstView.getSingleH items h))]
      let model := Json.arr (hints.map one).toArray
      -- specification on the IMPLEMENTATION's answers: exactly one declaration on the scope chain, of the
      -- hinted kind, is handed out; everything else is a FindError; has_one_instance agrees with it
      let spec := Spec.findFqnSpec f name scope
      let failed : List String := if impl.isNull then [] else
        match impl.getArr? with
        | .ok a =>
          if a.size ≠ hints.length then ["impl-error"] else
          (hints.zip a.toList).flatMap fun (h, x) =>
            let want : Option Decl := match spec, h with
              | [d], .absent => some d
              | [d], .kind k => if d.kind == k then some d else none
              | _, _ => none
            let getJ := fieldD x "get" Json.null
            let hasJ := fieldD x "has" Json.null
            (match want with
             | some d => if getJ.compress == (okJson (Json.arr #[Json.str d.kind, idsJ d.fqn])).compress then [] else ["get_single_instance≠the-unique-declaration"]
             | none => if implTag getJ == "lib:FindError" then [] else ["get_single_instance-should-raise-FindError:" ++ implTag getJ]) ++
            (match h, spec with
             | .invalid, [_] => if implTag hasJ == "lib:FindError" then [] else ["has_one_instance-invalid-hint"]
             | _, _ => if hasJ.compress == (okJson (Json.bool want.isSome)).compress then [] else ["has_one_instance≠get_single_instance-succeeds"])
        | _ => ["impl-error"]
      pure (Json.mkObj [("model", model), ("failed", clauses failed)])
  | "ids_t" =>
    let arg := idsArgOf (← field j "value")
    let r := namespaceidsT arg
    let failed := if impl.isNull then [] else
      match strListField impl "ok" with
      | .ok items => if validIds items then [] else ["invalid-identifier-handed-out"]
      | _ => if implTag impl == "lib:NamespaceIdsTypeError" then [] else ["outcome:" ++ implTag impl]
    pure (Json.mkObj [("model", resJson idsJ r), ("failed", clauses failed)])
  | "ids_notations" =>
    let ids ← idsField j "ids"
    let a := namespaceidsT (.strlist ids)
    let b := namespaceidsT (.str (dotted ids))
    let c := namespaceidsT (.str (colons ids))
    let model := Json.arr #[resJson idsJ a, resJson idsJ b, resJson idsJ c]
    let failed := if impl.isNull then [] else
      if validIds ids then
        let want := (okJson (idsJ ids)).compress
        match impl.getArr? with
        | .ok arr => if arr.all (fun x => x.compress == want) then [] else ["notations-not-lossless"]
        | _ => ["impl-error"]
      else
        match impl.getArr? with
        | .ok arr => if implTag arr[0]! == "lib:NamespaceIdsTypeError" then [] else ["invalid-accepted"]
        | _ => ["impl-error"]
    pure (Json.mkObj [("model", model), ("failed", clauses failed)])
  | _ => throw s!"unknown parse op {op}"

end ParseOps
