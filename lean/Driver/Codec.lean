/- JSON codec shared by all driver ops (trusted base item 3). -/
import Lean.Data.Json
import DznModel
open Lean Py Text

namespace Codec

def S (s : Str) : Json := Json.str (String.ofList s)
def SL (l : List Str) : Json := Json.arr (l.map S).toArray
def str? (j : Json) : Except String Str := do let s ← j.getStr?; pure s.toList
def field (j : Json) (k : String) : Except String Json := j.getObjVal? k
def fieldD (j : Json) (k : String) (d : Json) : Json := (j.getObjVal? k).toOption.getD d
def strField (j : Json) (k : String) : Except String Str := do str? (← field j k)
def boolFieldD (j : Json) (k : String) (d : Bool) : Bool :=
  match (j.getObjVal? k) with
  | .ok (.bool b) => b
  | _ => d
def natField (j : Json) (k : String) : Except String Nat := do (← field j k).getNat?
def arrField (j : Json) (k : String) : Except String (List Json) := do
  let a ← (← field j k).getArr?; pure a.toList
def strListField (j : Json) (k : String) : Except String (List Str) := do
  (← arrField j k).mapM str?
def hasField (j : Json) (k : String) : Bool := (j.getObjVal? k).toOption.isSome

def errJson (e : PyErr) : Json := Json.mkObj [("err", Json.str e.tag)]
def okJson (j : Json) : Json := Json.mkObj [("ok", j)]
def resJson {α} (f : α → Json) : R α → Json
  | .ok a => okJson (f a)
  | .error e => errJson e

/-- content trees: {"s":..} {"i":..} {"b":..} {"n":null} {"l":[..]} {"d":[[k,v],..]}
    {"tb":{"c":content,"h":content}} {"cm":content} {"o":"str of object"} -/
partial def content (j : Json) : Except String Content := do
  if hasField j "s" then return .str (← strField j "s")
  if hasField j "i" then return .int (← (← field j "i").getInt?)
  if hasField j "b" then return .bool (← (← field j "b").getBool?)
  if hasField j "n" then return .none
  if hasField j "shared" then
    -- one list/dict object occurring `times` times: by value, `times` copies
    let c ← content (← field j "shared")
    return .list (List.replicate (← natField j "times") c)
  if hasField j "l" then return .list (← (← arrField j "l").mapM content)
  if hasField j "d" then
    let kvs ← (← arrField j "d").mapM fun kv => do
      let a ← kv.getArr?
      pure ((← str? a[0]!), (← content a[1]!))
    return .dict kvs
  if hasField j "tb" then
    let t ← field j "tb"
    let c ← content (← field t "c")
    let h ← content (fieldD t "h" (Json.mkObj [("n", Json.null)]))
    let tb := TB.mk' c h
    return .tb tb.header tb.lines
  if hasField j "cm" then
    let c ← content (← field j "cm")
    return .comment (contentLines c)
  if hasField j "o" then return .obj (← strField j "o")
  throw s!"bad content {j.compress}"

def contentD (j : Json) (k : String) (d : Content) : Except String Content :=
  if hasField j k then do content (← field j k) else pure d

/-- {"tab":bool,"n":nat,"mode":"none|all|first","glyph":str} -/
def indentizer (j : Json) : Except String Indentizer := do
  let n ← natField j "n"
  let indentor := if boolFieldD j "tab" false then Indentor.tab else .spaces n
  let mode ← (← field j "mode").getStr?
  let glyph ← strField j "glyph"
  let bullet := match mode with
    | "all" => some (BulletMode.all, glyph)
    | "first" => some (BulletMode.firstOnly, glyph)
    | _ => none
  pure { indentor, bullet }

def tbJson (t : TB) : Json :=
  Json.mkObj [("header", SL t.header), ("lines", SL t.lines), ("str", S t.toStr)]

def optTbJson : Option TB → Json
  | none => Json.null
  | some t => tbJson t

end Codec
