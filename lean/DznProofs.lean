import DznModel
import DznProofs.Lemmas.Text
import DznProofs.C17
import DznProofs.C18
import DznProofs.C19
