/-
  DznModel.Py — the CPython 3.12 primitives the dznpy model relies on, over `List Char`.
  Import-free (Lean core only).  Trusted-base item A-5 of DESIGN.md: these definitions are
  tied to the interpreter by the correspondence runs (streams `py.*` of the C17/C18 checks).
-/

abbrev Str := List Char

/-- a (non-literal) `String` as `List Char` -/
abbrev Ls (s : String) : Str := s.toList

open Lean in
/-- `L "abc"`: a string literal as an explicit `List Char` literal `['a','b','c']` (expanded at
    elaboration time, so that comparisons of keys are plain structural list comparisons) -/
macro "L" s:str : term => do
  let cs := s.getString.toList
  let mut t ← `(([] : List Char))
  for c in cs.reverse do
    t ← `(List.cons $(Syntax.mkCharLit c) $t)
  return t

namespace Py

/-! ### errors: Python failure modes are part of the model (DESIGN §3) -/

inductive LibErr
  | DznJsonError | NamespaceIdsTypeError | AdvShellError | MultiClientCfgError
  | FindError | CppGenError
  deriving DecidableEq, Repr, Inhabited

inductive DelibErr | TypeError | ValueError
  deriving DecidableEq, Repr, Inhabited

inductive IntErr | KeyError | AttributeError | IndexError | TypeError | RecursionError
  deriving DecidableEq, Repr, Inhabited

inductive PyErr
  | lib (e : LibErr)
  | deliberate (e : DelibErr)
  | internal (e : IntErr)
  deriving DecidableEq, Repr, Inhabited

abbrev R (α : Type) := Except PyErr α

def PyErr.tag : PyErr → String
  | .lib .DznJsonError => "lib:DznJsonError"
  | .lib .NamespaceIdsTypeError => "lib:NamespaceIdsTypeError"
  | .lib .AdvShellError => "lib:AdvShellError"
  | .lib .MultiClientCfgError => "lib:MultiClientCfgError"
  | .lib .FindError => "lib:FindError"
  | .lib .CppGenError => "lib:CppGenError"
  | .deliberate .TypeError => "deliberate:TypeError"
  | .deliberate .ValueError => "deliberate:ValueError"
  | .internal .KeyError => "internal:KeyError"
  | .internal .AttributeError => "internal:AttributeError"
  | .internal .IndexError => "internal:IndexError"
  | .internal .TypeError => "internal:TypeError"
  | .internal .RecursionError => "internal:RecursionError"

def isOk {α} : R α → Bool
  | .ok _ => true
  | .error _ => false

def isLibErr {α} : R α → Bool
  | .error (.lib _) => true
  | _ => false

/-! ### str.splitlines() -/

/-- The line boundaries of `str.splitlines()` (CPython `Py_UNICODE_ISLINEBREAK`). -/
def isBreak (c : Char) : Bool :=
  c = '\n' || c = '\r' || c = '\x0b' || c = '\x0c' || c = '\x1c' || c = '\x1d' ||
  c = '\x1e' || c = '\x85' || c = '\u2028' || c = '\u2029'

/-- `s.splitlines()` (keepends=False). `"\r\n"` is one boundary. -/
def splitlines : Str → List Str
  | [] => []
  | '\r' :: '\n' :: cs => [] :: splitlines cs
  | c :: cs =>
    if isBreak c then [] :: splitlines cs
    else
      match splitlines cs with
      | [] => [[c]]
      | l :: ls => (c :: l) :: ls

/-! ### str.strip() -/

/-- `str.isspace()` for one character (CPython `_PyUnicode_IsWhitespace`). -/
def isSpace (c : Char) : Bool :=
  let n := c.toNat
  (9 ≤ n && n ≤ 13) || (28 ≤ n && n ≤ 32) || n = 0x85 || n = 0xa0 || n = 0x1680 ||
  (0x2000 ≤ n && n ≤ 0x200a) || n = 0x2028 || n = 0x2029 || n = 0x202f || n = 0x205f ||
  n = 0x3000

def lstrip : Str → Str
  | [] => []
  | c :: cs => if isSpace c then lstrip cs else c :: cs

def rstrip (s : Str) : Str := (lstrip s.reverse).reverse

def strip (s : Str) : Str := rstrip (lstrip s)

/-- `bool(s.strip())` -/
def isBlank (s : Str) : Bool := s.all isSpace

/-- `sub in s` -/
def containsSub (sub : Str) : Str → Bool
  | [] => sub.isEmpty
  | c :: cs => sub.isPrefixOf (c :: cs) || containsSub sub cs

/-! ### joins, numbers -/

def join (sep : Str) : List Str → Str
  | [] => []
  | [x] => x
  | x :: y :: r => x ++ sep ++ join sep (y :: r)

def natToStr (n : Nat) : Str := (Nat.repr n).toList

/-- `str(i)` for a Python int -/
def intToStr : Int → Str
  | .ofNat n => natToStr n
  | .negSucc n => '-' :: natToStr (n + 1)

def boolToStr (b : Bool) : Str := if b then L "True" else L "False"

/-- `' ' * n` -/
def spaces (n : Nat) : Str := List.replicate n ' '

/-- `f'{s : <{w}}'` : pad on the right with spaces to width `w`. -/
def ljust (s : Str) (w : Nat) : Str := s ++ spaces (w - s.length)

/-- `s[0].upper() + s[1:]` for ASCII first characters (identifiers); raises IndexError on `''`. -/
def capFirst : Str → R Str
  | [] => .error (.internal .IndexError)
  | c :: cs => .ok (c.toUpper :: cs)

/-! ### ordering: `sorted()` on str compares code points lexicographically -/

def strLe : Str → Str → Bool
  | [], _ => true
  | _ :: _, [] => false
  | a :: as, b :: bs => if a.toNat < b.toNat then true else if b.toNat < a.toNat then false else strLe as bs

def sorted (l : List Str) : List Str := l.mergeSort (fun a b => strLe a b)

/-- `repr(s)` for a str: quote choice and the escapes of printable-ASCII-plus-controls.
    Non-ASCII printable characters are emitted as they are (true for letters; the generators
    stay inside ASCII for names whose repr is printed). -/
def reprChar (q : Char) (c : Char) : Str :=
  if c = '\\' then L "\\\\"
  else if c = q then ['\\', q]
  else if c = '\n' then L "\\n"
  else if c = '\r' then L "\\r"
  else if c = '\t' then L "\\t"
  else if c.toNat < 32 || c.toNat = 127 then
    let hex := fun (d : Nat) => (Nat.toDigits 16 d).head!
    ['\\', 'x', hex (c.toNat / 16), hex (c.toNat % 16)]
  else [c]

def reprStr (s : Str) : Str :=
  let q : Char := if s.contains '\'' && !s.contains '"' then '"' else '\''
  q :: (s.flatMap (reprChar q)) ++ [q]

/-- `str(list_of_str)` e.g. `['a', 'b']` -/
def reprStrList (l : List Str) : Str :=
  '[' :: join (L ", ") (l.map reprStr) ++ [']']

/-- `os.path.splitext(os.path.basename(f))[0]` (posix) -/
def basename (f : Str) : Str :=
  -- part after the last '/'
  let rec afterSlash : Str → Str → Str
    | [], acc => acc.reverse
    | c :: cs, acc => if c = '/' then afterSlash cs [] else afterSlash cs (c :: acc)
  afterSlash f []

/-- `os.path.splitext(p)[0]`: strip the last `.ext` unless the dot is leading (only leading dots
    before it). -/
def splitextRoot (p : Str) : Str :=
  -- index of last '.'
  let n := p.length
  let rec lastDot : Str → Nat → Option Nat → Option Nat
    | [], _, r => r
    | c :: cs, i, r => lastDot cs (i + 1) (if c = '.' then some i else r)
  match lastDot p 0 none with
  | none => p
  | some i =>
    -- the dot must be preceded by at least one non-dot character
    if (p.take i).any (· ≠ '.') then p.take i else
    let _ := n
    p

def getBasename (f : Str) : Str := splitextRoot (basename f)

end Py
