/-
  DznModel.SpecText — the *specifications* of C17, C18, C19 as executable predicates.
  Each `holdsCxx…` is both (a) what the theorems in DznProofs prove of the model and
  (b) the monitor the driver evaluates on the implementation's output.
-/
import DznModel.Text
open Py Text

namespace Spec

/-! ## C17 -/

def breakFree (s : Str) : Bool := s.all (fun c => !isBreak c)

/-- a string piece split at line breaks; the empty string is one blank line -/
def strPieces (s : Str) : List Str := if s.isEmpty then [[]] else splitlines s

mutual
/-- the depth-first, left-to-right sequence of the pieces of a content tree (nested position) -/
def pieces : Content → List Str
  | .str s => strPieces s
  | .int i => [intToStr i]
  | .bool b => [boolToStr b]
  | .none => []
  | .list l => piecesL l
  | .dict l => piecesD l
  | .tb h ls => h ++ ls                 -- a nested block contributes its header and lines
  | .comment ls => commentLines ls      -- a nested Comment contributes its rendering
  | .obj s => if s.isEmpty then [] else splitlines s
def piecesL : List Content → List Str
  | [] => []
  | c :: cs => pieces c ++ piecesL cs
def piecesD : List (Str × Content) → List Str
  | [] => []
  | (_, c) :: cs => pieces c ++ piecesD cs
end

/-- top-level position: a TextBlock/Comment object hands over its line buffer -/
def piecesTop : Content → List Str
  | .tb _ ls => ls
  | .comment ls => ls
  | c => pieces c

mutual
/-- well-formed content: the line buffers of nested block objects are break-free (which the
    library guarantees for every block it constructed itself, theorem `C17_no_break`) -/
def wfContent : Content → Bool
  | .list l => wfContentL l
  | .dict l => wfContentD l
  | .tb h ls => h.all breakFree && ls.all breakFree
  | .comment ls => ls.all breakFree
  | _ => true
def wfContentL : List Content → Bool
  | [] => true
  | c :: cs => wfContent c && wfContentL cs
def wfContentD : List (Str × Content) → Bool
  | [] => true
  | (_, c) :: cs => wfContent c && wfContentD cs
end

/-- `str(block)`: every header and content line followed by exactly one newline -/
def strSpec (header lines : List Str) : Str := (header ++ lines).flatMap (fun l => l ++ ['\n'])

/-- "empty content": nothing but None, empty strings and empty containers -/
def emptyContent (c : Content) : Bool := (flatten true c).isEmpty

def trimSpec (ls : List Str) (endOnly : Bool) : List Str :=
  let dropLead := fun (l : List Str) => l.dropWhile (·.isEmpty)
  let a := if endOnly then ls else dropLead ls
  (dropLead a.reverse).reverse

/-- chunk: nothing for empty content, content plus appendix otherwise -/
def chunkSpec (content appendix : Content) : Option (List Str) :=
  if emptyContent content then none
  else some (pieces content ++ (flatten true appendix).flatMap strPieces)

/-- cond_chunk: preamble, content (or the empty-response when the content is empty) and appendix;
    with `all_or_nothing` an empty content yields the literal empty-response alone.  The content is
    never filtered: its blank entries stay blank lines. -/
def condChunkSpec (p c e ap : Content) (aon : Bool) : Option (List Str) :=
  let pre := (flatten true p).flatMap strPieces
  let app := (flatten true ap).flatMap strPieces
  if emptyContent c then
    if aon then (if truthy e then some (piecesTop e) else none)
    else if (flatten true p).isEmpty && (flatten true e).isEmpty then none
    else some (pre ++ (flatten true e).flatMap strPieces ++ app)
  else some (pre ++ pieces c ++ app)

/-- monitor for one constructed block: `lines`, `str`, `rt` = `TextBlock(str(block_without_header)).lines` -/
def holdsC17_block (c h : Content) (lines : List Str) (str : Str) (rt : List Str) : List String :=
  let hdr := if truthy h then piecesTop h else []
  (if lines = piecesTop c then [] else ["lines≠pieces"]) ++
  (if lines.all breakFree then [] else ["line-contains-break"]) ++
  (if str = strSpec hdr lines then [] else ["str≠lines+newline"]) ++
  (if lines.isEmpty || rt = lines then [] else ["roundtrip"])

/-! ## C18 -/

/-- the bullet prefix: the glyph, at least one space, padded to the indent width (or glyph+tab) -/
def bulletPrefix (i : Indentizer) (glyph : Str) : Str :=
  match i.indentor with
  | .spaces n => glyph ++ spaces (max 1 (n - glyph.length))
  | .tab => glyph ++ ['\t']

/-- the whitespace put before a non-blank plain (or continuation) line -/
def plainPrefix (i : Indentizer) : Str :=
  match i.indentor, i.bullet with
  | .tab, _ => ['\t']
  | .spaces n, none => spaces n
  | .spaces n, some (_, glyph) => spaces (max n (glyph.length + 1))

def plainLine (i : Indentizer) (l : Str) : Str := if isBlank l then [] else plainPrefix i ++ l

/-- in bullet mode Python's `.strip()` also removes trailing whitespace of the line (reading
    fixed in DESIGN §6 C18): prefix ++ line, stripped -/
def bulletLine (i : Indentizer) (glyph l : Str) : Str := strip (bulletPrefix i glyph ++ l)

/-- clause-by-clause check of one indentation step; returns the failed clauses -/
def holdsC18_step (i : Indentizer) (ins outs : List Str) : List String :=
  (if outs.length = ins.length then [] else ["line-count"]) ++
  (match i.bullet with
   | none =>
     if outs = ins.map (plainLine i) then [] else ["plain"]
   | some (.all, g) =>
     if outs = ins.map (bulletLine i g) then [] else ["bullets-all"]
   | some (.firstOnly, g) =>
     match ins, outs with
     | [], [] => []
     | a :: as, o :: os =>
       (if o = bulletLine i g a then [] else ["first-line"]) ++
       (if os = as.map (plainLine i) then [] else ["continuation"])
     | _, _ => ["line-count"])

/-! ## C19 -/

/-- rendering of one comment line: `//` for a blank line, else `// ` + the text (trailing
    whitespace dropped, leading kept) -/
def commentLine (l : Str) : Str := if isBlank l then L "//" else L "// " ++ rstrip l

def commentSpec (ls : List Str) : Str := strSpec [] (ls.map commentLine)

def holdsC19_comment (c : Content) (rendered : Str) (linesBefore linesAfter : List Str)
    (rendered2 : Str) : List String :=
  let src := piecesTop c
  (if linesBefore = src then [] else ["buffer≠pieces"]) ++
  (if rendered = commentSpec src then [] else ["rendering"]) ++
  (if (splitlines rendered).all (fun l => (L "//").isPrefixOf l) then [] else ["line-without-//"]) ++
  (if linesAfter = linesBefore then [] else ["object-changed"]) ++
  (if rendered2 = rendered then [] else ["re-render-differs"])

end Spec
