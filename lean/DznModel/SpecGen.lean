/-
  DznModel.SpecGen — specifications for C03 (port configuration) and C20 (C++ building blocks).
-/
import DznModel.PortSel
import DznModel.CppGen
open Py Text Scoping PortSel CppGen

namespace Spec

/-! ## C03 -/

/-- the user's intention for one side (provides or requires), as a declarative table -/
def sideFaults (c : SemCfg) (ports : List Str) : List String :=
  let explicit := c.sts.strset ++ c.mts.strset
  (if explicit.any (fun n => !ports.contains n) then ["unknown-port"] else []) ++
  (if c.sts.strset.any (c.mts.strset.contains ·) then ["named-under-both"] else []) ++
  (if (c.sts.isWildcardAll && c.mts.isNotEmpty) || (c.mts.isWildcardAll && c.sts.isNotEmpty)
   then ["all-with-something"] else [])

/-- the semantics the configuration assigns to a port of one side: explicitly named first,
    otherwise the wildcard (`all`/`remaining`) that covers it -/
def sideSem (c : SemCfg) (p : Str) : Option Sem :=
  if c.sts.strset.contains p then some .sts
  else if c.mts.strset.contains p then some .mts
  else match c.sts, c.mts with
    | .wild .all, _ => some .sts
    | .wild .remaining, _ => some .sts
    | _, .wild .all => some .mts
    | _, .wild .remaining => some .mts
    | _, _ => none

/-! ## C20: a small reader of C++ signatures (monitor on the implementation's text) -/

structure SigEntity where
  name : Str                         -- unqualified function name
  owner : Option Str                 -- `Owner::` qualification, if any
  params : List (Str × Str)          -- (type text, parameter name)
  defaults : List (Option Str)
  cav : Str
  tail : List Str                    -- words after `)` other than cav: override, `= x`
  head : List Str                    -- words before the name: prefix and return type
  deriving Repr, Inhabited, DecidableEq

def splitOnChar (c : Char) (s : Str) : List Str := splitChar c s []

/-- split `a, b, c` at top level commas followed by a space -/
def splitParams (s : Str) : List Str :=
  if s.isEmpty then [] else
  let rec go : Str → Str → List Str
    | [], cur => [cur.reverse]
    | ',' :: ' ' :: cs, cur => cur.reverse :: go cs []
    | c :: cs, cur => go cs (c :: cur)
  go s []

/-- split at the last occurrence of a space: (`before`, `after`) -/
def splitLastSpace (s : Str) : Str × Str :=
  let r := s.reverse
  let after := (r.takeWhile (· ≠ ' ')).reverse
  let before := (r.dropWhile (· ≠ ' ')).drop 1 |>.reverse
  (before, after)

/-- position-based split of `x = default` -/
def splitDefault (s : Str) : Str × Option Str :=
  let rec go : Str → Str → Str × Option Str
    | [], cur => (cur.reverse, none)
    | ' ' :: '=' :: ' ' :: cs, cur => (cur.reverse, some cs)
    | c :: cs, cur => go cs (c :: cur)
  go s []

/-- read `prefix ret [Owner::]name(params) cav override = init;` or the first line of a definition -/
def readSig (line : Str) : Option SigEntity :=
  let beforeParen := line.takeWhile (· ≠ '(')
  let rest := (line.dropWhile (· ≠ '(')).drop 1
  if rest.isEmpty && !line.contains '(' then none else
  let paramText := rest.takeWhile (· ≠ ')')
  let after := (rest.dropWhile (· ≠ ')')).drop 1
  let (headText, qname) := splitLastSpace beforeParen
  let (owner, name) :=
    if hasColons qname then
      let parts := splitColons qname []
      (some (join (L "::") parts.dropLast), parts.getLast?.getD [])
    else (none, qname)
  let ps := (splitParams paramText).map fun p =>
    let (core, d) := splitDefault p
    let (ty, nm) := splitLastSpace core
    ((ty, nm), d)
  let afterWords := (splitOnChar ' ' (after.filter (· ≠ ';'))).filter (fun (w : Str) => !w.isEmpty)
  let afterWords := afterWords.filter (fun w => w ≠ L "{}")
  -- the cv-/ref-/noexcept qualifiers belong to the entity (declaration and definition agree on them);
  -- `override`, `final` and `= …` are declaration-only
  let declOnly := fun (w : Str) => w = L "override" || w = L "final"
  let cav := join (L " ") ((afterWords.takeWhile (· ≠ L "=")).filter (fun w => !declOnly w))
  let tail := afterWords.filter declOnly ++ afterWords.dropWhile (· ≠ L "=")
  some { name, owner, params := ps.map (·.1), defaults := ps.map (·.2), cav, tail,
         head := (splitOnChar ' ' headText).filter (fun (w : Str) => !w.isEmpty) }

/-- the clauses of C20 for a function-like descriptor, evaluated on rendered text -/
def holdsC20_fn (declText defText : Str) (scope : Option Str) (initialised : Bool)
    (described : Option (List (Option Str)) := none) : List String :=
  let declLines := splitlines declText
  let defLines := splitlines defText
  match declLines.head? >>= readSig with
  | none => ["decl-unreadable"]
  | some d =>
    -- the declaration carries exactly the described default values (an empty default is no default)
    (match described with
     | none => []
     | some ds =>
       let want := ds.map fun o => match o with | some v => if v.isEmpty then none else some v | none => none
       if d.defaults = want then [] else ["default-value-not-as-described"]) ++
    -- C++ member-declarator order: virt-specifiers (`override`, `final`) come before the pure-specifier / `= default`
    (if ((d.tail.dropWhile (· ≠ L "=")).any (fun w => w = L "override" || w = L "final")) then
       ["virt-specifier-after-the-initialiser"] else []) ++
    if initialised then (if defText.isEmpty then [] else ["definition-despite-initialisation"]) else
    match defLines.head? >>= readSig with
    | none => ["def-unreadable"]
    | some f =>
      (if d.name = f.name then [] else ["name"]) ++
      (if d.params = f.params then [] else ["params"]) ++
      (if d.cav = f.cav then [] else ["cav"]) ++
      (if f.defaults.all (·.isNone) then [] else ["default-in-definition"]) ++
      (if f.tail.isEmpty then [] else ["decl-only-word-in-definition"]) ++
      (if f.head.all (fun w => w ≠ L "virtual" && w ≠ L "static" && w ≠ L "explicit") then [] else ["prefix-in-definition"]) ++
      (if f.owner = scope then [] else ["owner"]) ++
      (if d.owner.isNone then [] else ["owner-in-declaration"])

/-- balanced block: opener line, unchanged contents, closer line (or the one-liner when empty) -/
def holdsC20_block (opener closer oneLiner : Str) (contents : List Str) (rendered : Str) : List String :=
  let ls := splitlines rendered
  if contents.isEmpty then (if ls = [oneLiner] || ls = [opener, closer] then [] else ["empty-block"])
  else if ls = opener :: contents ++ [closer] then [] else ["block"]

end Spec

namespace Spec
open Py

/-! ## C13 -/

/-- the eight file names of a complete result -/
def expectedFileNames (shellName filePrefix : Str) : List Str :=
  [shellName ++ L ".hh", shellName ++ L ".cc"] ++
  [L "_StrictPort.hh", L "_ILog.hh", L "_MiscUtils.hh", L "_MetaHelpers.hh", L "_MultiClientSelector.hh",
   L "_MutexWrapped.hh"].map (fun s => filePrefix ++ s)

/-- outcome classes a build may have: a complete result or one of the library's own errors -/
def outcomeAllowedC13 (tag : String) : Bool := tag = "ok" || tag.startsWith "lib:"

/-! ## C19 (files): the code projection -/

/-- a line of code: not blank and not a `//` comment line -/
def isCodeLine (l : Str) : Bool := !isBlank l && !(L "//").isPrefixOf (lstrip l)

def codeOf (contents : Str) : List Str := (splitlines contents).filter isCodeLine

end Spec
