/-
  DznModel.ScopingHeap — the scoping operations of dznpy/scoping.py over an explicit heap.

  `NamespaceIds` is a frozen dataclass around a *mutable* list: `__iadd__` extends that list in place,
  `scope_resolution_order` pops from a deep copy, `namespaceids_t(list)` wraps the caller's own list.
  The pure model (`DznModel.Scoping`) cannot exhibit aliasing, so this layer threads a heap of list
  cells.  An object is identified with the list object it holds (the field is frozen, it never rebinds);
  two `NamespaceIds` objects built on the same list are the same cell.  Operations that return objects
  allocate their result cells in result order; temporaries (the deep copy inside
  `scope_resolution_order`, the accumulator of `sum_namespaceids_items` before it is returned) that never
  escape are not allocated.
-/
import DznModel.Scoping
open Py Scoping

namespace ScopingHeap

abbrev Ref := Nat

structure Heap where
  cells : List Ids := []
  deriving Repr, Inhabited, DecidableEq

def Heap.get (h : Heap) (r : Ref) : Ids := h.cells.getD r []
def Heap.size (h : Heap) : Nat := h.cells.length
def Heap.alloc (h : Heap) (v : Ids) : Heap × Ref := ({ cells := h.cells ++ [v] }, h.cells.length)
def Heap.set (h : Heap) (r : Ref) (v : Ids) : Heap := { cells := h.cells.set r v }

/-- allocate several result cells, in order -/
def Heap.allocAll (h : Heap) : List Ids → Heap × List Ref
  | [] => (h, [])
  | v :: vs =>
    let (h1, r) := h.alloc v
    let (h2, rs) := h1.allocAll vs
    (h2, r :: rs)

inductive Op
  | fromList (items : List Str)          -- `NamespaceIds(items=[…])` / `namespaceids_t([…])` on a new list
  | alias (r : Ref)                      -- `namespaceids_t(x)` for an existing object, or for the list it holds
  | fromStr (s : Str)                    -- `namespaceids_t("a.b")`
  | add (a b : Ref)                      -- `a + b`
  | iadd (a b : Ref)                     -- `a += b`
  | pop (a : Ref)                        -- `a.items.pop()`
  | deepcopy (a : Ref)
  | sum (xs : List Ref)                  -- `sum_namespaceids_items([…])`
  | sro (name scope : Ref)               -- `scope_resolution_order(name, scope)`
  | sroNone (name : Ref)                 -- `scope_resolution_order(name, None)`
  | fqn (trail : List Ref)               -- `NamespaceTree(...).fqn` for the chain of scope names `trail`
  | fqnMember (trail : List Ref) (m : Ref)   -- `NamespaceTree(...).fqn_member_name(m)`
  deriving Repr, Inhabited

/-- one operation: the new heap and the objects returned (references), or the Python error -/
def step (h : Heap) : Op → R (Heap × List Ref)
  | .fromList items => do
    let v ← mkIds items
    let (h', r) := h.alloc v
    pure (h', [r])
  | .alias r => .ok (h, [r])
  | .fromStr s => do
    let v ← namespaceidsT (.str s)
    let (h', r) := h.alloc v
    pure (h', [r])
  | .add a b => do
    -- `NamespaceIds(items=self.items + other.items)`: validated again, a new list
    let v ← mkIds (h.get a ++ h.get b)
    let (h', r) := h.alloc v
    pure (h', [r])
  | .iadd a b => .ok (h.set a (h.get a ++ h.get b), [a])
  | .pop a =>
    if h.get a = [] then .error (.internal .IndexError) else .ok (h.set a (h.get a).dropLast, [])
  | .deepcopy a =>
    let (h', r) := h.alloc (h.get a)
    .ok (h', [r])
  | .sum xs =>
    let (h', r) := h.alloc (sumIds (xs.map h.get))
    .ok (h', [r])
  | .sro name scope => do
    let vs ← (scopeResolutionOrder (h.get name) (h.get scope)).mapM mkIds
    let (h', rs) := h.allocAll vs
    pure (h', rs)
  | .sroNone name => do
    let vs ← (scopeResolutionOrder (h.get name) []).mapM mkIds
    let (h', rs) := h.allocAll vs
    pure (h', rs)
  | .fqn trail =>
    let (h', r) := h.alloc (sumIds (trail.map h.get))
    .ok (h', [r])
  | .fqnMember trail m => do
    let v ← mkIds (sumIds (trail.map h.get) ++ h.get m)
    let (h', r) := h.alloc v
    pure (h', [r])

/-- a history of operations; a failing operation leaves the heap as it was -/
def run (h : Heap) : List Op → Heap × List (R (List Ref))
  | [] => (h, [])
  | op :: ops =>
    match step h op with
    | .ok (h', rs) =>
      let (h'', outs) := run h' ops
      (h'', .ok rs :: outs)
    | .error e =>
      let (h'', outs) := run h ops
      (h'', .error e :: outs)

/-- the operations that write to an existing object -/
def Op.mutates : Op → Option Ref
  | .iadd a _ => some a
  | .pop a => some a
  | _ => none

/-- the operations whose results are new objects -/
def Op.allocates : Op → Bool
  | .alias _ | .iadd _ _ | .pop _ => false
  | _ => true

end ScopingHeap
