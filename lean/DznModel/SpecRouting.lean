/-
  DznModel.SpecRouting — the routing table a shell must establish (C01/C02/C04), stated from the
  Dezyne model and the configuration alone, and its comparison with the assignments read back from
  generated text (`IrParse.parseCc`).  Nothing here uses the generator model (`Shell.build`).
-/
import DznModel.SpecBuild
import DznModel.IrParse
open Py Text Scoping Ast PortSel Shell IrParse

deriving instance DecidableEq for Shell.Handler
deriving instance DecidableEq for Shell.Assign

namespace Spec

/-- a port the shell exposes, with what the configuration says about it -/
structure XPort where
  port : Port
  itf : InterfaceD
  sem : Sem
  mc : Option MultiClientCfg       -- the multi-client settings, if this is the multi-client port
  deriving Repr, Inhabited

/-- the exposed ports (provides ports and non-injected requires ports) of an encapsulee, each with
    the unique interface its type name denotes and the semantics the configuration selects;
    `none` when the build has to be refused -/
def exposedPorts (fc : FC) (enc : Decl) (cfg : PortsCfg) : Option (List XPort) :=
  let scope := enc.parent.fqn
  (Shell.Decl.ports enc).filter (fun p => p.dir = .provides || !p.injected) |>.mapM fun p =>
    match portInterface fc scope p with
    | none => none
    | some itf =>
      let side := if p.dir = .provides then cfg.provides else cfg.requires
      match sideSem side p.name with
      | none => none
      | some sem =>
        let mc := match cfg.multiclient with
          | some m => if p.dir = .provides && m.portName = p.name then some m else none
          | none => none
        some { port := p, itf, sem, mc }

def paramsOf (fc : FC) (itf : InterfaceD) (ev : Event) (refs : Bool) : List LParam :=
  ev.formals.map fun f =>
    -- a parameter reads back as by-reference when the text before its name ends in `&`: that is the mark the
    -- shell adds for out/inout formals, or the extern's own C++ spelling (`const T&`) whatever the direction
    let tyRef := match formalType fc itf f with
      | some t => (L "&").isSuffixOf t
      | none => false
    { ctype := [], byRef := (refs && f.dir != .in_) || tyRef, name := f.name }

/-- the object through which the environment reaches an MTS port: read from the text -/
def objOf (as : List Assign) (p : Str) : Option PortObj :=
  as.findSome? fun a =>
    match a.rhs with
    | .ref s => if a.lhs.obj = .enc p then some s.obj else none
    | .shell c _ _ _ => if c.obj = .enc p then some a.lhs.obj else none
    | .post c _ _ _ => if c.obj = .enc p then some a.lhs.obj else none
    | _ => none

def objName : PortObj → Str
  | .enc p => p | .bnd mv => mv | .arb mv => mv | .local_ => []

/-- the text `::<enum fqn>::<value>` of the granting reply -/
def grantText (fc : FC) (x : XPort) (m : MultiClientCfg) : Option Str :=
  match x.itf.events.filter (fun e => e.name = m.claimEvent) with
  | claim :: _ =>
    match denoted fc claim.replyType x.itf.fqn, m.grant with
    | [.enum en], v :: _ => some (CppGen.Fqn.str { ids := en.fqn ++ [v], root := true })
    | _, _ => none
  | [] => none

/-- constructor assignments the shell owes to one exposed port reached through `o` -/
def ctorRouting (fc : FC) (x : XPort) (o : PortObj) : List Assign :=
  let p := x.port.name
  let ins := Shell.inEvents x.itf
  let outs := Shell.outEvents x.itf
  match x.sem, x.port.dir, x.mc with
  | .sts, _, _ => []
  | .mts, .provides, none =>
    ins.map (fun ev => { lhs := ⟨o, .in_, ev.name⟩,
                         rhs := .shell ⟨.enc p, .in_, ev.name⟩ (paramsOf fc x.itf ev true) (formalNames ev) (inFormalNames ev) }) ++
    outs.map (fun ev => { lhs := ⟨.enc p, .out, ev.name⟩, rhs := .ref ⟨o, .out, ev.name⟩ })
  | .mts, .requires, _ =>
    outs.map (fun ev => { lhs := ⟨o, .out, ev.name⟩,
                          rhs := .post ⟨.enc p, .out, ev.name⟩ (paramsOf fc x.itf ev false) (formalNames ev) (inFormalNames ev) }) ++
    ins.map (fun ev => { lhs := ⟨.enc p, .in_, ev.name⟩, rhs := .ref ⟨o, .in_, ev.name⟩ })
  | .mts, .provides, some _ =>
    ins.map (fun ev => { lhs := ⟨o, .in_, ev.name⟩,
                         rhs := .shell ⟨.enc p, .in_, ev.name⟩ (paramsOf fc x.itf ev true) (formalNames ev) (inFormalNames ev) }) ++
    outs.map (fun ev => { lhs := ⟨o, .out, ev.name⟩,
                          rhs := .mcDeliver (objName o) ev.name (paramsOf fc x.itf ev false) (formalNames ev) }) ++
    outs.map (fun ev => { lhs := ⟨.enc p, .out, ev.name⟩, rhs := .ref ⟨o, .out, ev.name⟩ })

/-- per-client port assignments of a multi-client port reached through `o` -/
def clientRouting (fc : FC) (x : XPort) (m : MultiClientCfg) (o : PortObj) : List Assign :=
  (Shell.inEvents x.itf).map fun ev =>
    if ev.name = m.claimEvent then
      { lhs := ⟨.local_, .in_, ev.name⟩,
        rhs := .mcClaim (objName o) ev.name (paramsOf fc x.itf ev true) (formalNames ev) ((grantText fc x m).getD []) }
    else if ev.name = m.releaseEvent then
      { lhs := ⟨.local_, .in_, ev.name⟩,
        rhs := .mcRelease (objName o) ev.name ev.name (paramsOf fc x.itf ev true) (formalNames ev) }
    else { lhs := ⟨.local_, .in_, ev.name⟩, rhs := .ref ⟨o, .in_, ev.name⟩ }

def eraseA (a : Assign) : Assign := { a with rhs := IrParse.eraseH a.rhs }

def slotStr (s : Slot) : String := String.ofList s.str

def hasDupSlots : List Slot → List Slot
  | [] => []
  | a :: r => (if r.contains a then [a] else []) ++ hasDupSlots r

/-- compare what the text establishes with what the model and configuration demand -/
def routingClauses (fc : FC) (xs : List XPort) (pr : Parsed) : List String :=
  let got := pr.ctor.map eraseA
  let objs := xs.map fun x => (x, objOf pr.ctor x.port.name)
  -- the expected constructor assignments; a port without events needs no object
  let want := objs.flatMap fun (x, o?) =>
    match o? with
    | some o => ctorRouting fc x o
    | none => if x.sem = .mts then ctorRouting fc x (.bnd (L "?" ++ x.port.name)) else []
  let shapeOk := objs.all fun (x, o?) =>
    match o?, x.sem, x.mc with
    | none, _, _ => true
    | some (.bnd _), .mts, none => true
    | some (.arb _), .mts, some _ => true
    | _, _, _ => false
  let mtsObjs := (objs.filterMap (·.2)).map objName
  (pr.unparsed.map fun l => "unparsed:" ++ String.ofList l) ++
  (if shapeOk then [] else ["port-object-of-the-wrong-kind"]) ++
  ((hasDupSlots (mtsObjs.map fun n => (⟨.bnd n, .in_, []⟩ : Slot))).map fun s => "two-ports-share-one-boundary-object:" ++ String.ofList (objName s.obj)) ++
  ((want.filter (fun a => !got.contains a)).map fun a => "unrouted:" ++ slotStr a.lhs) ++
  ((got.filter (fun a => !want.contains a)).map fun a => "stray-or-wrong-assignment:" ++ slotStr a.lhs) ++
  ((hasDupSlots (got.map (·.lhs))).map fun s => "routed-twice:" ++ slotStr s) ++
  -- per-client ports
  (objs.flatMap fun (x, o?) =>
    match x.mc with
    | none => []
    | some m =>
      let o := o?.getD (.arb (L "?" ++ x.port.name))
      let wantC := clientRouting fc x m o
      let gotC := (((pr.initPort.find? (·.1 = x.port.name)).map (·.2)).getD []).map eraseA
      ((wantC.filter (fun a => !gotC.contains a)).map fun a => "client-unrouted:" ++ slotStr a.lhs) ++
      ((gotC.filter (fun a => !wantC.contains a)).map fun a => "client-stray-or-wrong-assignment:" ++ slotStr a.lhs) ++
      ((hasDupSlots (gotC.map (·.lhs))).map fun s => "client-routed-twice:" ++ slotStr s)) ++
  ((pr.initPort.filter (fun (n, _) => !(xs.any fun x => x.mc.isSome && x.port.name = n))).map fun (n, _) =>
      "client-port-block-for-a-port-that-is-not-multiclient:" ++ String.ofList n)

end Spec
