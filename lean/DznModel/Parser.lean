/-
  DznModel.Parser — model of dznpy/json_ast.py: ElementHelper, every parse_* function and
  DznJsonAst.parse_element / process.  Evaluation order follows the Python so that the *first*
  error raised is the same one.
-/
import DznModel.Ast
open Py Scoping Ast JVal

namespace Parser

abbrev Obj := List (Str × JVal)
def jerr {α} : R α := .error (.lib .DznJsonError)

/-- `ElementHelper(element, ctx)`: the element must be a dict -/
def asObj : JVal → R Obj
  | .obj kvs => .ok kvs
  | _ => jerr

def tryGetStr (o : Obj) (k : Str) : R (Option Str) :=
  match lookup k o with
  | none => .ok none
  | some (.str s) => .ok (some s)
  | some _ => jerr

def getStr (o : Obj) (k : Str) : R Str := do
  match ← tryGetStr o k with
  | none => jerr
  | some s => pure s

def tryGetDict (o : Obj) (k : Str) : R (Option JVal) :=
  match lookup k o with
  | none => .ok none
  | some v => if v.isObj then .ok (some v) else jerr

def getDict (o : Obj) (k : Str) : R JVal := do
  match ← tryGetDict o k with
  | none => jerr
  | some d => pure d

/-- `get_int_value`: `isinstance(x, int)` holds for ints and bools -/
def getInt (o : Obj) (k : Str) : R JVal :=
  match lookup k o with
  | some (.int i) => .ok (.int i)
  | some (.bool b) => .ok (.bool b)
  | _ => jerr

def getList (o : Obj) (k : Str) : R (List JVal) :=
  match lookup k o with
  | some (.arr l) => .ok l
  | _ => jerr

def assertClass (o : Obj) (cls : Str) : R Unit :=
  match lookup (L "<class>") o with
  | none => jerr
  | some v => if v.eqStr cls then .ok () else jerr

/-- `get_class_value(element)` -/
def getClassValue : JVal → R JVal
  | .obj kvs => match lookup (L "<class>") kvs with
    | none => jerr
    | some v => .ok v
  | _ => jerr

/-- `ns_ids_t(ids)` on a JSON list: a list of str goes through validation, anything else is
    refused with NamespaceIdsTypeError -/
def strOf? : JVal → Option Str
  | .str s => some s
  | _ => none

def idsOfJson (l : List JVal) : R Ids :=
  match l.mapM strOf? with
  | some strs => mkIds strs
  | none => .error (.lib .NamespaceIdsTypeError)

def parseScopeName (j : JVal) : R Ids := do
  let o ← asObj j
  assertClass o (L "scope_name")
  let ids ← getList o (L "ids")
  if ids.isEmpty then jerr else idsOfJson ids

def parseFormalDirection (s : Str) : R FormalDir :=
  if s = L "in" then .ok .in_ else if s = L "out" then .ok .out
  else if s = L "inout" then .ok .inout else jerr

def parseFormal (j : JVal) : R Formal := do
  let o ← asObj j
  assertClass o (L "formal")
  let name ← getStr o (L "name")
  let ty ← parseScopeName (← getDict o (L "type_name"))
  let dir ← parseFormalDirection (← getStr o (L "direction"))
  pure { name, typeName := ty, dir }

def parseFormals (j : JVal) : R (List Formal) := do
  let o ← asObj j
  assertClass o (L "formals")
  (← getList o (L "elements")).mapM parseFormal

def parseEventDirection (s : Str) : R EventDir :=
  if s = L "in" then .ok .in_ else if s = L "out" then .ok .out else jerr

def parseSignature (j : JVal) : R (Ids × List Formal) := do
  let o ← asObj j
  assertClass o (L "signature")
  let ty ← parseScopeName (← getDict o (L "type_name"))
  let fs ← parseFormals (← getDict o (L "formals"))
  pure (ty, fs)

def parseEvent (j : JVal) : R Event := do
  let o ← asObj j
  assertClass o (L "event")
  let name ← getStr o (L "name")
  let (ty, fs) ← parseSignature (← getDict o (L "signature"))
  let dir ← parseEventDirection (← getStr o (L "direction"))
  -- detect invalid content (1): out events have a void reply
  if dir = .out && ty ≠ [L "void"] then jerr
  -- detect invalid content (2): out events have no out parameter
  else if dir = .out && fs.any (fun f => f.dir = .out) then jerr
  else pure { name, replyType := ty, formals := fs, dir }

def parseEvents (j : JVal) : R (List Event) := do
  let o ← asObj j
  assertClass o (L "events")
  (← getList o (L "elements")).mapM parseEvent

def parsePortDirection (s : Str) : R PortDir :=
  if s = L "requires" then .ok .requires else if s = L "provides" then .ok .provides else jerr

def parseInjected (j : JVal) : R Bool := do
  let o ← asObj j
  assertClass o (L "port")
  match ← tryGetStr o (L "injected?") with
  | none => pure false
  | some s => if s = L "injected" then pure true else jerr

def parsePort (j : JVal) : R Port := do
  let o ← asObj j
  assertClass o (L "port")
  let name ← getStr o (L "name")
  let ty ← parseScopeName (← getDict o (L "type_name"))
  let dir ← parsePortDirection (← getStr o (L "direction"))
  let fs ← parseFormals (← getDict o (L "formals"))
  let inj ← parseInjected j
  pure { name, typeName := ty, dir, formals := fs, injected := inj }

def parsePorts (j : JVal) : R (List Port) := do
  let o ← asObj j
  assertClass o (L "ports")
  (← getList o (L "elements")).mapM parsePort

def parseFields (j : JVal) : R (List JVal) := do
  let o ← asObj j
  assertClass o (L "fields")
  getList o (L "elements")

def parseEnum (j : JVal) (ns : NsTree) : R EnumD := do
  let o ← asObj j
  assertClass o (L "enum")
  let name ← parseScopeName (← getDict o (L "name"))
  let fields ← parseFields (← getDict o (L "fields"))
  pure { fqn := ns.fqnMember name, parent := ns, name, fields }

def parseRange (j : JVal) : R (JVal × JVal) := do
  let o ← asObj j
  assertClass o (L "range")
  let a ← getInt o (L "from")
  let b ← getInt o (L "to")
  pure (a, b)

def parseSubint (j : JVal) (ns : NsTree) : R SubIntD := do
  let o ← asObj j
  assertClass o (L "subint")
  let name ← parseScopeName (← getDict o (L "name"))
  let (a, b) ← parseRange (← getDict o (L "range"))
  pure { fqn := ns.fqnMember name, parent := ns, name, fromV := a, toV := b }

def parseData (j : JVal) : R Str := do
  let o ← asObj j
  assertClass o (L "data")
  getStr o (L "value")

def parseExtern (j : JVal) (ns : NsTree) : R ExternD := do
  let o ← asObj j
  assertClass o (L "extern")
  let name ← parseScopeName (← getDict o (L "name"))
  let v ← parseData (← getDict o (L "value"))
  pure { fqn := ns.fqnMember name, parent := ns, name, value := v }

def parseComponentLike (cls : Str) (j : JVal) (ns : NsTree) : R ComponentD := do
  let o ← asObj j
  assertClass o cls
  let name ← parseScopeName (← getDict o (L "name"))
  let ports ← parsePorts (← getDict o (L "ports"))
  pure { fqn := ns.fqnMember name, parent := ns, name, ports }

def parseTypeItem (ns : NsTree) (item : JVal) : R (Option TypeD) := do
  let cls ← getClassValue item
  if cls.eqStr (L "enum") then pure (some (.enum (← parseEnum item ns)))
  else if cls.eqStr (L "subint") then pure (some (.subint (← parseSubint item ns)))
  else pure none   -- printed and skipped

def parseTypes (j : JVal) (ns : NsTree) : R (List TypeD) := do
  let o ← asObj j
  assertClass o (L "types")
  let items ← (← getList o (L "elements")).mapM (parseTypeItem ns)
  pure (items.filterMap id)

def parseInterface (j : JVal) (ns : NsTree) : R InterfaceD := do
  let o ← asObj j
  assertClass o (L "interface")
  let name ← parseScopeName (← getDict o (L "name"))
  let trail := ns.push name
  let types ← parseTypes (← getDict o (L "types")) trail
  let events ← parseEvents (← getDict o (L "events"))
  pure { fqn := ns.fqnMember name, parent := ns, trail, name, types, events }

def parseInstance (j : JVal) : R Instance := do
  let o ← asObj j
  assertClass o (L "instance")
  let name ← getStr o (L "name")
  let ty ← parseScopeName (← getDict o (L "type_name"))
  pure { name, typeName := ty }

def parseInstances (j : JVal) : R (List Instance) := do
  let o ← asObj j
  assertClass o (L "instances")
  (← getList o (L "elements")).mapM parseInstance

def parseEndpoint (j : JVal) : R EndPoint := do
  let o ← asObj j
  assertClass o (L "end-point")
  let p ← getStr o (L "port_name")
  let i ← tryGetStr o (L "instance_name")
  pure { portName := p, instanceName := i }

def parseBinding (j : JVal) : R Binding := do
  let o ← asObj j
  assertClass o (L "binding")
  let l ← parseEndpoint (← getDict o (L "left"))
  let r ← parseEndpoint (← getDict o (L "right"))
  pure { left := l, right := r }

def parseBindings (j : JVal) : R (List Binding) := do
  let o ← asObj j
  assertClass o (L "bindings")
  (← getList o (L "elements")).mapM parseBinding

def parseSystem (j : JVal) (ns : NsTree) : R SystemD := do
  let o ← asObj j
  assertClass o (L "system")
  let name ← parseScopeName (← getDict o (L "name"))
  let ports ← parsePorts (← getDict o (L "ports"))
  let instances ← parseInstances (← getDict o (L "instances"))
  let bindings ← parseBindings (← getDict o (L "bindings"))
  pure { fqn := ns.fqnMember name, parent := ns, name, ports, instances, bindings }

def parseFilename (j : JVal) : R Str := do
  let o ← asObj j
  assertClass o (L "file-name")
  getStr o (L "name")

def parseImport (j : JVal) : R Str := do
  let o ← asObj j
  assertClass o (L "import")
  getStr o (L "name")

def parseComment (j : JVal) : R Str := do
  let o ← asObj j
  assertClass o (L "comment")
  getStr o (L "string")

/-- header of `parse_namespace`: class check, scope name, then the `elements` list — returned
    with the evidence that it is smaller than the enclosing object (for termination) -/
def parseNamespaceHead (kvs : Obj) : R (Ids × { l : List JVal // sizeOf l < sizeOf kvs }) := do
  assertClass kvs (L "namespace")
  let name ← parseScopeName (← getDict kvs (L "name"))
  match lookupW (L "elements") kvs with
  | some ⟨.arr l, h⟩ => pure (name, ⟨l, by simp at h; omega⟩)
  | _ => jerr

/-- append one parsed declaration (or keep the accumulator and report the error) -/
def addTo {α} (fc : FC) (r : R α) (f : FC → α → FC) : FC × Option PyErr :=
  match r with
  | .ok a => (f fc a, none)
  | .error e => (fc, some e)

/-- `parse_element` for every class except `namespace` (which recurses) -/
def parseSimple (cls : JVal) (j : JVal) (ns : NsTree) (fc : FC) : FC × Option PyErr :=
  if cls.eqStr (L "component") then
    addTo fc (parseComponentLike (L "component") j ns) (fun fc c => { fc with components := fc.components ++ [c] })
  else if cls.eqStr (L "enum") then
    addTo fc (parseEnum j ns) (fun fc c => { fc with enums := fc.enums ++ [c] })
  else if cls.eqStr (L "extern") then
    addTo fc (parseExtern j ns) (fun fc c => { fc with externs := fc.externs ++ [c] })
  else if cls.eqStr (L "foreign") then
    addTo fc (parseComponentLike (L "foreign") j ns) (fun fc c => { fc with foreigns := fc.foreigns ++ [c] })
  else if cls.eqStr (L "file-name") then
    addTo fc (parseFilename j) (fun fc c => { fc with filenames := fc.filenames ++ [c] })
  else if cls.eqStr (L "import") then
    addTo fc (parseImport j) (fun fc c => { fc with imports := fc.imports ++ [c] })
  else if cls.eqStr (L "interface") then
    addTo fc (parseInterface j ns) (fun fc i =>
      { fc with interfaces := fc.interfaces ++ [i], enums := fc.enums ++ i.enums,
                subints := fc.subints ++ i.subints })
  else if cls.eqStr (L "system") then
    addTo fc (parseSystem j ns) (fun fc c => { fc with systems := fc.systems ++ [c] })
  else if cls.eqStr (L "subint") then
    addTo fc (parseSubint j ns) (fun fc c => { fc with subints := fc.subints ++ [c] })
  else (fc, none)          -- unknown class: logged, skipped

mutual
/-- `DznJsonAst.parse_element(element, parent_ns)`: appends into the accumulator; on an error
    the elements appended so far stay (the exception leaves the object as it is) -/
def parseElement (j : JVal) (ns : NsTree) (fc : FC) : FC × Option PyErr :=
  match j with
  | .obj kvs =>
    match lookup (L "<class>") kvs with
    | none => (fc, some (.lib .DznJsonError))
    | some cls =>
      if cls.eqStr (L "namespace") then
        match parseNamespaceHead kvs with
        | .ok (name, ⟨elems, _h⟩) => parseElements elems (ns.push name) fc
        | .error e => (fc, some e)
      else parseSimple cls j ns fc
  | _ => (fc, none)            -- non-dict element: logged, skipped
termination_by sizeOf j
decreasing_by simp; omega

def parseElements (js : List JVal) (ns : NsTree) (fc : FC) : FC × Option PyErr :=
  match js with
  | [] => (fc, none)
  | j :: rest =>
    match parseElement j ns fc with
    | (fc', none) => parseElements rest ns fc'
    | (fc', some e) => (fc', some e)
termination_by sizeOf js
decreasing_by all_goals simp; all_goals omega
end

/-- the optional `comment` of the root: parsed (and validated) when present -/
def parseRootComment (o : Obj) : R Unit := do
  match ← tryGetDict o (L "comment") with
  | none => pure ()
  | some c => do
    let _ ← parseComment c
    pure ()

/-- `parse_root` -/
def parseRoot (j : JVal) : R (List JVal) := do
  let o ← asObj j
  assertClass o (L "root")
  parseRootComment o
  let elems ← getList o (L "elements")
  let _ ← getStr o (L "working-directory")
  pure elems

/-- `DznJsonAst.process()` starting from accumulator `fc0` (fresh instance: empty) — returns the
    accumulator afterwards and the error, if any -/
def processFrom (ast : JVal) (fc0 : FC) : FC × Option PyErr :=
  match parseRoot ast with
  | .error e => (fc0, some e)
  | .ok elems => parseElements elems {} fc0

/-- parsing a document with a fresh parser -/
def parse (ast : JVal) : R FC :=
  match processFrom ast {} with
  | (fc, none) => .ok fc
  | (_, some e) => .error e

end Parser
