/-
  DznModel.PortSel — model of dznpy/adv_shell/port_selection.py.
  A Python `set` is a duplicate-free list in whatever iteration order the interpreter chose; that
  order is a parameter of the model (it is what C08 quantifies over).
-/
import DznModel.Scoping
open Py Scoping

namespace PortSel

inductive Sem | sts | mts deriving DecidableEq, Repr, Inhabited

inductive Wildcard | remaining | all | none deriving DecidableEq, Repr, Inhabited

inductive PortSelect
  | wild (w : Wildcard)
  | names (s : List Str)
  deriving Repr, Inhabited

def adv {α} : R α := .error (.lib .AdvShellError)

/-- `PortSelect(value)` with its `__post_init__` -/
def mkPortSelect (p : PortSelect) : R PortSelect :=
  match p with
  | .wild _ => .ok p
  | .names s => if s.isEmpty then adv else if s.contains [] then adv else .ok p

def PortSelect.strset : PortSelect → List Str
  | .names s => s
  | .wild _ => []

def PortSelect.isWildcardAll : PortSelect → Bool
  | .wild .all => true
  | _ => false

def PortSelect.isNotEmpty : PortSelect → Bool
  | .names _ => true
  | .wild w => w != .none

/-- set equality of two duplicate-free lists -/
def setEq (a b : List Str) : Bool := a.all (b.contains ·) && b.all (a.contains ·)

/-- dataclass `==` of two PortSelects (sets compare as sets) -/
def PortSelect.eq : PortSelect → PortSelect → Bool
  | .wild a, .wild b => a == b
  | .names a, .names b => setEq a b
  | _, _ => false

structure SemCfg where
  sts : PortSelect
  mts : PortSelect
  deriving Repr, Inhabited

/-- `PortsSemanticsCfg(sts, mts)` with its `__post_init__` -/
def mkSemCfg (sts mts : PortSelect) : R SemCfg :=
  if sts.eq mts then adv
  else if sts.strset.any (mts.strset.contains ·) then adv
  else if (sts.isWildcardAll && mts.isNotEmpty) || (sts.isNotEmpty && mts.isWildcardAll) then adv
  else .ok { sts, mts }

structure MultiClientCfg where
  portName : Str
  claimEvent : Str
  grant : Ids
  releaseEvent : Str
  deriving Repr, Inhabited

def mcErr {α} : R α := .error (.lib .MultiClientCfgError)

/-- `MultiClientPortCfg(...)` with its `__post_init__` -/
def mkMultiClientCfg (m : MultiClientCfg) : R MultiClientCfg :=
  if m.portName.isEmpty then mcErr
  else if m.claimEvent.isEmpty then mcErr
  else if m.grant.isEmpty then mcErr
  else if m.releaseEvent.isEmpty then mcErr
  else if m.releaseEvent = m.claimEvent then mcErr      -- contradictory (after the repair of D-13)
  else .ok m

structure PortsCfg where
  provides : SemCfg
  requires : SemCfg
  multiclient : Option MultiClientCfg := none
  deriving Repr, Inhabited

/-- `PortsCfg(provides, requires, multiclient)` with its `__post_init__` -/
def mkPortsCfg (p r : SemCfg) (m : Option MultiClientCfg := none) : R PortsCfg :=
  if p.sts.isNotEmpty && p.mts.isNotEmpty then adv else .ok { provides := p, requires := r, multiclient := m }

/-- first matching rule for one port (the if/elif chain of `match`) -/
def SemCfg.semOf (c : SemCfg) (port : Str) : Option Sem :=
  if c.sts.strset.contains port then some .sts
  else if c.mts.strset.contains port then some .mts
  else match c.sts with
    | .wild w => if w != .none then some .sts else
        (match c.mts with | .wild w' => if w' != .none then some .mts else none | _ => none)
    | _ => (match c.mts with | .wild w' => if w' != .none then some .mts else none | _ => none)

/-- `PortsSemanticsCfg.match(expected_ports, label)`; `expected` in its iteration order -/
def SemCfg.matchPorts (c : SemCfg) (expected : List Str) : R (List (Str × Sem)) :=
  let explicit := c.sts.strset ++ c.mts.strset
  if explicit.any (fun n => !expected.contains n) then adv
  else if expected.contains [] then .error (.deliberate .TypeError)   -- `_check_port_name('')`
  else .ok (expected.filterMap (fun p => (c.semOf p).map (fun s => (p, s))))

/-- `dict.update`: later entries win -/
def dictUpdate (a b : List (Str × Sem)) : List (Str × Sem) :=
  b ++ a.filter (fun kv => !(b.map (·.1)).contains kv.1)

/-- `PortsCfg.match(provides_ports, requires_ports)` -/
def PortsCfg.matchAll (c : PortsCfg) (prov req : List Str) : R (List (Str × Sem)) := do
  let a ← c.provides.matchPorts prov
  let b ← c.requires.matchPorts req
  pure (dictUpdate a b)

/-! ### stringification (header comment) -/

def wildcardValue : Wildcard → Str
  | .remaining => L "Remaining ports" | .all => L "All ports" | .none => L "None of the ports"

/-- `str(PortsSemanticsCfg)`; explicit names are printed sorted (after the repair of D-3; before it
    `list(set)` printed them in hash order) -/
def SemCfg.str (c : SemCfg) : Str :=
  if c.mts.isWildcardAll then L "All MTS"
  else if c.sts.isWildcardAll then L "All STS"
  else
    let parts : List Str :=
      (if c.sts.strset.isEmpty then [] else [L "STS=" ++ reprStrList (sorted c.sts.strset)]) ++
      (if c.mts.strset.isEmpty then [] else [L "MTS=" ++ reprStrList (sorted c.mts.strset)]) ++
      (match c.sts with | .wild .remaining => [L "STS=[<Remaining ports>]"] | _ => []) ++
      (match c.mts with | .wild .remaining => [L "MTS=[<Remaining ports>]"] | _ => [])
    join [' '] parts

def MultiClientCfg.str (m : MultiClientCfg) : Str :=
  L "Out-event ClientSelector port \"" ++ m.portName ++ L "\" (Claim event \"" ++ m.claimEvent ++
  L "\" with granting reply value \"" ++ dotted m.grant ++ L "\", Release event \"" ++
  m.releaseEvent ++ L "\")"

/-- dataclass `==` of two PortsSemanticsCfg -/
def SemCfg.eq (a b : SemCfg) : Bool := a.sts.eq b.sts && a.mts.eq b.mts

/-- the lines of `str(PortsCfg)` -/
def PortsCfg.strLines (c : PortsCfg) : List Str :=
  (if c.provides.eq c.requires then [L "> provides/requires: " ++ c.provides.str]
   else [L "> provides ports: " ++ c.provides.str, L "> requires ports: " ++ c.requires.str]) ++
  (match c.multiclient with
   | some m => [L "> multiclient: " ++ m.str]
   | none => [])

end PortSel
