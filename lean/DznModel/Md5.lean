/-
  DznModel.Md5 — MD5 (RFC 1321) on byte lists and UTF-8 encoding of `List Char`, for the
  `GeneratedContent.hash` clause of C08.  Validated against the RFC test vectors (DznProofs/C08)
  and against hashlib in the correspondence run.
-/
import DznModel.Py
open Py

namespace Md5

def sTable : Array Nat := #[
  7, 12, 17, 22, 7, 12, 17, 22, 7, 12, 17, 22, 7, 12, 17, 22,
  5, 9, 14, 20, 5, 9, 14, 20, 5, 9, 14, 20, 5, 9, 14, 20,
  4, 11, 16, 23, 4, 11, 16, 23, 4, 11, 16, 23, 4, 11, 16, 23,
  6, 10, 15, 21, 6, 10, 15, 21, 6, 10, 15, 21, 6, 10, 15, 21]

def kTable : Array UInt32 := #[
  0xd76aa478, 0xe8c7b756, 0x242070db, 0xc1bdceee, 0xf57c0faf, 0x4787c62a, 0xa8304613, 0xfd469501,
  0x698098d8, 0x8b44f7af, 0xffff5bb1, 0x895cd7be, 0x6b901122, 0xfd987193, 0xa679438e, 0x49b40821,
  0xf61e2562, 0xc040b340, 0x265e5a51, 0xe9b6c7aa, 0xd62f105d, 0x02441453, 0xd8a1e681, 0xe7d3fbc8,
  0x21e1cde6, 0xc33707d6, 0xf4d50d87, 0x455a14ed, 0xa9e3e905, 0xfcefa3f8, 0x676f02d9, 0x8d2a4c8a,
  0xfffa3942, 0x8771f681, 0x6d9d6122, 0xfde5380c, 0xa4beea44, 0x4bdecfa9, 0xf6bb4b60, 0xbebfbc70,
  0x289b7ec6, 0xeaa127fa, 0xd4ef3085, 0x04881d05, 0xd9d4d039, 0xe6db99e5, 0x1fa27cf8, 0xc4ac5665,
  0xf4292244, 0x432aff97, 0xab9423a7, 0xfc93a039, 0x655b59c3, 0x8f0ccc92, 0xffeff47d, 0x85845dd1,
  0x6fa87e4f, 0xfe2ce6e0, 0xa3014314, 0x4e0811a1, 0xf7537e82, 0xbd3af235, 0x2ad7d2bb, 0xeb86d391]

def rotl (x : UInt32) (n : Nat) : UInt32 :=
  (x <<< n.toUInt32) ||| (x >>> (32 - n).toUInt32)

/-- UTF-8 encoding of one code point -/
def utf8Char (c : Char) : List UInt8 :=
  let n := c.toNat
  if n < 0x80 then [n.toUInt8]
  else if n < 0x800 then [(0xC0 + n / 64).toUInt8, (0x80 + n % 64).toUInt8]
  else if n < 0x10000 then [(0xE0 + n / 4096).toUInt8, (0x80 + (n / 64) % 64).toUInt8, (0x80 + n % 64).toUInt8]
  else [(0xF0 + n / 262144).toUInt8, (0x80 + (n / 4096) % 64).toUInt8, (0x80 + (n / 64) % 64).toUInt8,
        (0x80 + n % 64).toUInt8]

def utf8 (s : Str) : List UInt8 := s.flatMap utf8Char

def le32 (n : Nat) : List UInt8 :=
  [n.toUInt8, (n / 256).toUInt8, (n / 65536).toUInt8, (n / 16777216).toUInt8]

/-- padding: 0x80, zeros to 56 mod 64, 64-bit little-endian bit length -/
def pad (msg : List UInt8) : List UInt8 :=
  let len := msg.length
  let zeros := (119 - len % 64) % 64
  let bits := len * 8
  msg ++ [0x80] ++ List.replicate zeros 0 ++ le32 (bits % 4294967296) ++ le32 (bits / 4294967296 % 4294967296)

def word (b : Array UInt8) (i : Nat) : UInt32 :=
  (b[i]!).toUInt32 ||| ((b[i+1]!).toUInt32 <<< 8) ||| ((b[i+2]!).toUInt32 <<< 16) ||| ((b[i+3]!).toUInt32 <<< 24)

structure St where
  a : UInt32
  b : UInt32
  c : UInt32
  d : UInt32

def processBlock (st : St) (blk : Array UInt8) (off : Nat) : St := Id.run do
  let mut a := st.a
  let mut b := st.b
  let mut c := st.c
  let mut d := st.d
  for i in [0:64] do
    let (f, g) :=
      if i < 16 then ((b &&& c) ||| ((~~~ b) &&& d), i)
      else if i < 32 then ((d &&& b) ||| ((~~~ d) &&& c), (5 * i + 1) % 16)
      else if i < 48 then (b ^^^ c ^^^ d, (3 * i + 5) % 16)
      else (c ^^^ (b ||| (~~~ d)), (7 * i) % 16)
    let f' := f + a + kTable[i]! + word blk (off + 4 * g)
    a := d
    d := c
    c := b
    b := b + rotl f' sTable[i]!
  return { a := st.a + a, b := st.b + b, c := st.c + c, d := st.d + d }

def digest (msg : List UInt8) : List UInt8 := Id.run do
  let p := (pad msg).toArray
  let mut st : St := { a := 0x67452301, b := 0xefcdab89, c := 0x98badcfe, d := 0x10325476 }
  for k in [0:p.size / 64] do
    st := processBlock st p (k * 64)
  return le32 st.a.toNat ++ le32 st.b.toNat ++ le32 st.c.toNat ++ le32 st.d.toNat

def hexDigit (n : Nat) : Char := if n < 10 then Char.ofNat (48 + n) else Char.ofNat (87 + n)

def hex (bs : List UInt8) : Str := bs.flatMap (fun b => [hexDigit (b.toNat / 16), hexDigit (b.toNat % 16)])

/-- `hashlib.md5(contents.encode('utf-8')).hexdigest().lower()` -/
def md5Hex (contents : Str) : Str := hex (digest (utf8 contents))

end Md5
