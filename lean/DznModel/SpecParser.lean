/-
  DznModel.SpecParser — specification side of C05 / C15 / C16 / C14:
  the declaration tree the Dezyne grammar can produce (`DElem`), its JSON encoding (`encode`, what
  `dzn parse --json` emits), and the obvious depth-first specification `collect` of what the parsed
  file contents must be.
-/
import DznModel.Parser
import DznModel.AstView
open Py Scoping Ast

namespace Spec

/-- types nested in an interface -/
inductive DType
  | enum (name : Ids) (fields : List Str)
  | subint (name : Ids) (lo hi : Int)
  | unknown (cls : Str)
  deriving Repr, Inhabited

/-- a source-level element of a Dezyne file -/
inductive DElem
  | component (name : Ids) (ports : List Port)
  | foreign (name : Ids) (ports : List Port)
  | system (name : Ids) (ports : List Port) (instances : List Instance) (bindings : List Binding)
  | interface (name : Ids) (types : List DType) (events : List Event)
  | enum (name : Ids) (fields : List Str)
  | subint (name : Ids) (lo hi : Int)
  | extern (name : Ids) (value : Str)
  | import_ (name : Str)
  | filename (name : Str)
  | nspace (name : Ids) (elems : List DElem)
  | unknown (cls : Str)          -- an element class the parser does not know
  | nondict (s : Str)            -- a non-dict element (a bare string)
  deriving Repr, Inhabited

/-! ### encoding (what the Dezyne tool emits) -/

def jstr (s : Str) : JVal := .str s
def cls (c : Str) : Str × JVal := (L "<class>", .str c)

def encScopeName (ids : Ids) : JVal := .obj [cls (L "scope_name"), (L "ids", .arr (ids.map jstr))]

def encFormalDir : FormalDir → Str
  | .in_ => L "in" | .out => L "out" | .inout => L "inout"

def encFormal (f : Formal) : JVal :=
  .obj [cls (L "formal"), (L "name", jstr f.name), (L "type_name", encScopeName f.typeName),
        (L "direction", jstr (encFormalDir f.dir))]

def encFormals (fs : List Formal) : JVal :=
  .obj [cls (L "formals"), (L "elements", .arr (fs.map encFormal))]

def encEventDir : EventDir → Str
  | .in_ => L "in" | .out => L "out"

def encEvent (e : Event) : JVal :=
  .obj [cls (L "event"), (L "name", jstr e.name),
        (L "signature", .obj [cls (L "signature"), (L "type_name", encScopeName e.replyType),
                              (L "formals", encFormals e.formals)]),
        (L "direction", jstr (encEventDir e.dir))]

def encPortDir : PortDir → Str
  | .requires => L "requires" | .provides => L "provides"

def encPort (p : Port) : JVal :=
  .obj ([cls (L "port"), (L "name", jstr p.name), (L "type_name", encScopeName p.typeName),
         (L "direction", jstr (encPortDir p.dir)), (L "formals", encFormals p.formals)] ++
        (if p.injected then [(L "injected?", jstr (L "injected"))] else []))

def encPorts (ps : List Port) : JVal := .obj [cls (L "ports"), (L "elements", .arr (ps.map encPort))]

def encEnum (name : Ids) (fields : List Str) : JVal :=
  .obj [cls (L "enum"), (L "name", encScopeName name),
        (L "fields", .obj [cls (L "fields"), (L "elements", .arr (fields.map jstr))])]

def encSubint (name : Ids) (lo hi : Int) : JVal :=
  .obj [cls (L "subint"), (L "name", encScopeName name),
        (L "range", .obj [cls (L "range"), (L "from", .int lo), (L "to", .int hi)])]

def encType : DType → JVal
  | .enum n f => encEnum n f
  | .subint n lo hi => encSubint n lo hi
  | .unknown c => .obj [(L "<class>", .str c)]

def encInstance (i : Instance) : JVal :=
  .obj [cls (L "instance"), (L "name", jstr i.name), (L "type_name", encScopeName i.typeName)]

def encEndpoint (e : EndPoint) : JVal :=
  .obj ([cls (L "end-point"), (L "port_name", jstr e.portName)] ++
        (match e.instanceName with | none => [] | some i => [(L "instance_name", jstr i)]))

def encBinding (b : Binding) : JVal :=
  .obj [cls (L "binding"), (L "left", encEndpoint b.left), (L "right", encEndpoint b.right)]

mutual
def encode : DElem → JVal
  | .component n ps => .obj [cls (L "component"), (L "name", encScopeName n), (L "ports", encPorts ps)]
  | .foreign n ps => .obj [cls (L "foreign"), (L "name", encScopeName n), (L "ports", encPorts ps)]
  | .system n ps is bs =>
    .obj [cls (L "system"), (L "name", encScopeName n), (L "ports", encPorts ps),
          (L "instances", .obj [cls (L "instances"), (L "elements", .arr (is.map encInstance))]),
          (L "bindings", .obj [cls (L "bindings"), (L "elements", .arr (bs.map encBinding))])]
  | .interface n ts es =>
    .obj [cls (L "interface"), (L "name", encScopeName n),
          (L "types", .obj [cls (L "types"), (L "elements", .arr (ts.map encType))]),
          (L "events", .obj [cls (L "events"), (L "elements", .arr (es.map encEvent))])]
  | .enum n f => encEnum n f
  | .subint n lo hi => encSubint n lo hi
  | .extern n v =>
    .obj [cls (L "extern"), (L "name", encScopeName n),
          (L "value", .obj [cls (L "data"), (L "value", jstr v)])]
  | .import_ n => .obj [cls (L "import"), (L "name", jstr n)]
  | .filename n => .obj [cls (L "file-name"), (L "name", jstr n)]
  | .nspace n es =>
    .obj [cls (L "namespace"), (L "name", encScopeName n), (L "elements", .arr (encodeL es))]
  | .unknown c => .obj [(L "<class>", .str c)]
  | .nondict s => .str s
def encodeL : List DElem → List JVal
  | [] => []
  | e :: es => encode e :: encodeL es
end

def encodeRoot (es : List DElem) : JVal :=
  .obj [cls (L "root"), (L "elements", .arr (encodeL es)), (L "working-directory", jstr (L "/w"))]

/-! ### the specification: depth-first collection -/

def collectType (trail : NsTree) : DType → Option TypeD
  | .enum n f => some (.enum { fqn := trail.fqn ++ n, parent := trail, name := n, fields := f.map jstr })
  | .subint n lo hi =>
    some (.subint { fqn := trail.fqn ++ n, parent := trail, name := n, fromV := .int lo, toV := .int hi })
  | .unknown _ => none

mutual
/-- one entry per declaration, fqn = enclosing namespace identifiers ++ name, source order per
    container, nested types hoisted where the interface is met; unknown / non-dict skipped -/
def collect (ns : NsTree) (fc : FC) : DElem → FC
  | .component n ps => { fc with components := fc.components ++ [{ fqn := ns.fqn ++ n, parent := ns, name := n, ports := ps }] }
  | .foreign n ps => { fc with foreigns := fc.foreigns ++ [{ fqn := ns.fqn ++ n, parent := ns, name := n, ports := ps }] }
  | .system n ps is bs =>
    { fc with systems := fc.systems ++ [{ fqn := ns.fqn ++ n, parent := ns, name := n, ports := ps, instances := is, bindings := bs }] }
  | .interface n ts es =>
    let trail := ns.push n
    let types := ts.filterMap (collectType trail)
    let i : InterfaceD := { fqn := ns.fqn ++ n, parent := ns, trail, name := n, types, events := es }
    { fc with interfaces := fc.interfaces ++ [i], enums := fc.enums ++ i.enums, subints := fc.subints ++ i.subints }
  | .enum n f => { fc with enums := fc.enums ++ [{ fqn := ns.fqn ++ n, parent := ns, name := n, fields := f.map jstr }] }
  | .subint n lo hi =>
    { fc with subints := fc.subints ++ [{ fqn := ns.fqn ++ n, parent := ns, name := n, fromV := .int lo, toV := .int hi }] }
  | .extern n v => { fc with externs := fc.externs ++ [{ fqn := ns.fqn ++ n, parent := ns, name := n, value := v }] }
  | .import_ n => { fc with imports := fc.imports ++ [n] }
  | .filename n => { fc with filenames := fc.filenames ++ [n] }
  | .nspace n es => collectL (ns.push n) fc es
  | .unknown _ => fc
  | .nondict _ => fc
def collectL (ns : NsTree) (fc : FC) : List DElem → FC
  | [] => fc
  | e :: es => collectL ns (collect ns fc e) es
end

/-! ### the grammar's well-formedness (decidable) -/

def knownClasses : List Str :=
  [L "component", L "enum", L "extern", L "foreign", L "file-name", L "import", L "interface",
   L "namespace", L "system", L "subint"]

def wfName (n : Ids) : Bool := !n.isEmpty && validIds n

def wfFormal (f : Formal) : Bool := wfName f.typeName
def wfEvent (e : Event) : Bool :=
  wfName e.replyType && e.formals.all wfFormal &&
  (e.dir = .in_ || (e.replyType = [L "void"] && e.formals.all (fun f => f.dir ≠ .out)))
def wfPort (p : Port) : Bool := wfName p.typeName && p.formals.all wfFormal
def wfType : DType → Bool
  | .enum n _ => wfName n
  | .subint n _ _ => wfName n
  | .unknown c => c ≠ L "enum" && c ≠ L "subint"

mutual
def wfElem : DElem → Bool
  | .component n ps => wfName n && ps.all wfPort
  | .foreign n ps => wfName n && ps.all wfPort
  | .system n ps is _ => wfName n && ps.all wfPort && is.all (fun i => wfName i.typeName)
  | .interface n ts es => wfName n && ts.all wfType && es.all wfEvent
  | .enum n _ => wfName n
  | .subint n _ _ => wfName n
  | .extern n _ => wfName n
  | .import_ _ => true
  | .filename _ => true
  | .nspace n es => wfName n && wfElems es
  | .unknown c => !knownClasses.contains c
  | .nondict _ => true
def wfElems : List DElem → Bool
  | [] => true
  | e :: es => wfElem e && wfElems es
end

/-! ### C15 monitor helpers -/

def outcomeAllowedC15 (tag : String) : Bool :=
  tag = "ok" || tag = "lib:DznJsonError" || tag = "lib:NamespaceIdsTypeError"

/-- no out event with a non-void reply or an `out` formal survives in a result -/
def fcOutEventsOk (f : FC) : Bool :=
  f.interfaces.all (fun i => i.events.all (fun e =>
    e.dir = .in_ || (e.replyType = [L "void"] && e.formals.all (fun x => x.dir ≠ .out))))

/-! ### C15 on the *input*: documents that must be refused

What the JSON document says, read without the parser: an event written with direction "out" whose signature lists a
formal written with direction "out" or whose written reply type is not the single id `void`, in the events of an interface that is an element of the root or of (nested)
namespaces.  No outcome of parsing such a document is a success — whatever else the document contains. -/

def jDirIsOut (kvs : List (Str × JVal)) : Bool :=
  match JVal.lookup (L "direction") kvs with
  | some v => v.eqStr (L "out")
  | none => false

def jFormalIsOut : JVal → Bool
  | .obj kvs => jDirIsOut kvs
  | _ => false

def jFormalsOf (kvs : List (Str × JVal)) : List JVal :=
  match JVal.lookup (L "signature") kvs with
  | some (.obj sg) =>
    match JVal.lookup (L "formals") sg with
    | some (.obj fm) =>
      match JVal.lookup (L "elements") fm with
      | some (.arr fs) => fs
      | _ => []
    | _ => []
  | _ => []

/-- the written reply type is something other than the single id `void` -/
def jReplyNotVoid (kvs : List (Str × JVal)) : Bool :=
  match JVal.lookup (L "signature") kvs with
  | some (.obj sg) =>
    match JVal.lookup (L "type_name") sg with
    | some (.obj tn) =>
      match JVal.lookup (L "ids") tn with
      | some (.arr [.str s]) => s != L "void"
      | some (.arr _) => true
      | _ => false
    | _ => false
  | _ => false

def jBadEvent : JVal → Bool
  | .obj kvs => jDirIsOut kvs && ((jFormalsOf kvs).any jFormalIsOut || jReplyNotVoid kvs)
  | _ => false

def jEventsOf (kvs : List (Str × JVal)) : List JVal :=
  match JVal.lookup (L "events") kvs with
  | some (.obj ev) =>
    match JVal.lookup (L "elements") ev with
    | some (.arr es) => es
    | _ => []
  | _ => []

/-- one element of an `elements` list: a namespace (look into its elements with `inner`) or an interface -/
def jBadElem (inner : List JVal → Bool) : JVal → Bool
  | .obj kvs =>
    match JVal.lookup (L "<class>") kvs with
    | some cls =>
      if cls.eqStr (L "namespace") then
        match JVal.lookup (L "elements") kvs with
        | some (.arr es) => inner es
        | _ => false
      else if cls.eqStr (L "interface") then (jEventsOf kvs).any jBadEvent
      else false
    | none => false
  | _ => false

/-- `fuel` bounds the namespace nesting that is looked into -/
def jBadElems : Nat → List JVal → Bool
  | 0, _ => false
  | n + 1, l => l.any (jBadElem (jBadElems n))

def jBadDoc (fuel : Nat) : JVal → Bool
  | .obj kvs =>
    match JVal.lookup (L "elements") kvs with
    | some (.arr es) => jBadElems fuel es
    | _ => false
  | _ => false

/-! ### C14 specifications -/

/-- the scope chain: the searched name prefixed by the calling scope and each enclosing scope down
    to the global scope, innermost first -/
def chain (name scope : Ids) : List Ids :=
  (List.range (scope.length + 1)).map (fun i => scope.take (scope.length - i) ++ name)

def findFqnSpec (f : FC) (name scope : Ids) : List Decl :=
  f.decls.filter (fun d => (chain name scope).contains d.fqn)

def findAnySpec (f : FC) (ends : Ids) : List Decl :=
  f.decls.filter (fun d => ends.isSuffixOf d.fqn)

end Spec
