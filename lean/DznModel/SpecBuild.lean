/-
  DznModel.SpecBuild — specifications / monitors that need the shell model: C07.
-/
import DznModel.SpecParser
import DznModel.SpecGen
import DznModel.ShellBuild

namespace Spec
open Py Scoping Ast AstView Shell CppGen

/-! ## C07: what the scoping rules select -/

/-- the declarations a written name denotes from a referring scope: those on the scope chain -/
def denoted (fc : FC) (name scope : Ids) : List Decl := findFqnSpec fc name scope

/-- the unique interface a port's written type name denotes, if there is exactly one candidate
    on the chain and it is an interface -/
def portInterface (fc : FC) (scope : Ids) (p : Port) : Option InterfaceD :=
  match denoted fc p.typeName scope with
  | [.interface i] => some i
  | _ => none

/-- the C++ data type of a formal: the `$value$` of the unique extern its written type denotes
    from the interface's own scope -/
def formalType (fc : FC) (itf : InterfaceD) (f : Formal) : Option Str :=
  match denoted fc f.typeName itf.fqn with
  | [.extern e] => some e.value
  | _ => none

/-- the events of a port whose formals the shell must know the C++ types of -/
def typedEvents (p : DznPortItf) : List Event :=
  if p.sem = .sts then []
  else if p.port.dir = .provides then
    (if p.mc.isSome then p.itf.events else p.itf.events.filter (·.dir = .in_))
  else p.itf.events.filter (·.dir = .out)

/-- the accessor's name: direction, `MultiClient` for a multi-client port, capitalised port name -/
def accessorName (p : DznPortItf) : Str :=
  portDirValue p.port.dir ++ (if p.mc.isSome then L "MultiClient" else []) ++
  (match capFirst p.port.name with | .ok c => c | .error _ => [])

/-- C07 monitor on an implementation result.  `tag` = outcome class, `hh`/`cc` = shell header and
    source text (empty on failure), `ir` = the model's view of the exposed ports. -/
def holdsC07 (fc : FC) (enc : Decl) (tag : String) (hh cc : Str) (ports : List DznPortItf) : List String :=
  let scope := enc.parent.fqn
  let allPorts := Shell.Decl.ports enc
  let unresolved := allPorts.filter (fun p => (portInterface fc scope p).isNone)
  if !unresolved.isEmpty then
    (if tag.startsWith "lib:" then [] else ["port-type-not-uniquely-an-interface-but:" ++ tag])
  else
    -- every port type denotes exactly one interface
    let badFormal := ports.any fun p =>
      (typedEvents p).any fun ev => ev.formals.any fun f =>
        match portInterface fc scope p.port with
        | some i => (formalType fc i f).isNone
        | none => true
    if badFormal then
      (if tag.startsWith "lib:" then [] else ["formal-type-not-uniquely-an-extern-but:" ++ tag])
    else if tag != "ok" then []          -- other configuration errors are not C07's subject
    else
      let hhLines := splitlines hh
      let ccLines := splitlines cc
      ports.flatMap fun p =>
        match portInterface fc scope p.port with
        | none => ["internal"]
        | some i =>
          let want := L "<" ++ Fqn.str { ids := i.fqn, root := true } ++ L "> " ++ accessorName p ++ L "("
          (if hhLines.any (fun l => containsSub want l) then [] else
             ["accessor-of-" ++ String.ofList p.port.name ++ "-not-typed-by-the-denoted-interface"]) ++
          (typedEvents p).flatMap fun ev =>
            let ps := ev.formals.map fun f =>
              (formalType fc i f).getD [] ++ (if ev.dir = .in_ ∧ f.dir ≠ .in_ then L "&" else []) ++ L " " ++ f.name
            if ps.isEmpty then [] else
            let want := L "." ++ (if ev.dir = .in_ then L "in" else L "out") ++ L "." ++ ev.name ++ L " = [&" 
            let sig := L "(" ++ join (L ", ") ps ++ L ") {"
            if ccLines.any (fun l => containsSub want l ∧ containsSub sig l) then []
            else ["event-" ++ String.ofList p.port.name ++ "." ++ String.ofList ev.name ++ "-not-typed-by-the-denoted-externs"]

end Spec
