/-
  DznModel.SpecBuild — specifications / monitors that need the shell model: C07.
-/
import DznModel.SpecParser
import DznModel.SpecGen
import DznModel.ShellBuild

namespace Spec
open Py Scoping Ast AstView Shell CppGen

/-! ## C07: what the scoping rules select -/

/-- the declarations a written name denotes from a referring scope: those on the scope chain -/
def denoted (fc : FC) (name scope : Ids) : List Decl := findFqnSpec fc name scope

/-- the unique interface a port's written type name denotes, if there is exactly one candidate
    on the chain and it is an interface -/
def portInterface (fc : FC) (scope : Ids) (p : Port) : Option InterfaceD :=
  match denoted fc p.typeName scope with
  | [.interface i] => some i
  | _ => none

/-- the C++ data type of a formal: the `$value$` of the unique extern its written type denotes
    from the interface's own scope -/
def formalType (fc : FC) (itf : InterfaceD) (f : Formal) : Option Str :=
  match denoted fc f.typeName itf.fqn with
  | [.extern e] => some e.value
  | _ => none

/-- the events of a port whose formals the shell must know the C++ types of -/
def typedEvents (p : DznPortItf) : List Event :=
  if p.sem = .sts then []
  else if p.port.dir = .provides then
    (if p.mc.isSome then p.itf.events else p.itf.events.filter (·.dir = .in_))
  else p.itf.events.filter (·.dir = .out)

/-- the accessor's name: direction, `MultiClient` for a multi-client port, capitalised port name -/
def accessorName (p : DznPortItf) : Str :=
  portDirValue p.port.dir ++ (if p.mc.isSome then L "MultiClient" else []) ++
  (match capFirst p.port.name with | .ok c => c | .error _ => [])

/-- C07 monitor on an implementation result.  `tag` = outcome class, `hh`/`cc` = shell header and
    source text (empty on failure), `ir` = the model's view of the exposed ports. -/
def holdsC07 (fc : FC) (enc : Decl) (tag : String) (hh cc : Str) (ports : List DznPortItf) : List String :=
  let scope := enc.parent.fqn
  let allPorts := Shell.Decl.ports enc
  let unresolved := allPorts.filter (fun p => (portInterface fc scope p).isNone)
  if !unresolved.isEmpty then
    (if tag.startsWith "lib:" then [] else ["port-type-not-uniquely-an-interface-but:" ++ tag])
  else
    -- every port type denotes exactly one interface
    let badFormal := ports.any fun p =>
      (typedEvents p).any fun ev => ev.formals.any fun f =>
        match portInterface fc scope p.port with
        | some i => (formalType fc i f).isNone
        | none => true
    if badFormal then
      (if tag.startsWith "lib:" then [] else ["formal-type-not-uniquely-an-extern-but:" ++ tag])
    else if tag != "ok" then []          -- other configuration errors are not C07's subject
    else
      let hhLines := splitlines hh
      let ccLines := splitlines cc
      ports.flatMap fun p =>
        match portInterface fc scope p.port with
        | none => ["internal"]
        | some i =>
          let want := L "<" ++ Fqn.str { ids := i.fqn, root := true } ++ L "> " ++ accessorName p ++ L "("
          (if hhLines.any (fun l => containsSub want l) then [] else
             ["accessor-of-" ++ String.ofList p.port.name ++ "-not-typed-by-the-denoted-interface"]) ++
          (typedEvents p).flatMap fun ev =>
            let ps := ev.formals.map fun f =>
              (formalType fc i f).getD [] ++ (if ev.dir = .in_ ∧ f.dir ≠ .in_ then L "&" else []) ++ L " " ++ f.name
            if ps.isEmpty then [] else
            let want := L "." ++ (if ev.dir = .in_ then L "in" else L "out") ++ L "." ++ ev.name ++ L " = [&" 
            let sig := L "(" ++ join (L ", ") ps ++ L ") {"
            if ccLines.any (fun l => containsSub want l ∧ containsSub sig l) then []
            else ["event-" ++ String.ofList p.port.name ++ "." ++ String.ofList ev.name ++ "-not-typed-by-the-denoted-externs"]

end Spec

namespace Spec
open Py Scoping Ast AstView Shell CppGen

/-! ## C06: structural obligations of "valid, self-contained C++" on a returned file set -/

structure CFile where
  name : Str
  contents : Str
  deriving Repr, Inhabited

def includeOf (l : Str) : Option (Bool × Str) :=
  -- (isQuoted, target) of an `#include` line
  let t := lstrip l
  if (L "#include \"").isPrefixOf t then some (true, (t.drop 10).takeWhile (· ≠ '"'))
  else if (L "#include <").isPrefixOf t then some (false, (t.drop 10).takeWhile (· ≠ '>'))
  else none

def quotedIncludes (f : CFile) : List Str :=
  (splitlines f.contents).filterMap (fun l => match includeOf l with | some (true, t) => some t | _ => none)

def systemIncludes (f : CFile) : List Str :=
  (splitlines f.contents).filterMap (fun l => match includeOf l with | some (false, t) => some t | _ => none)

def isHeader (f : CFile) : Bool := (L ".hh").isSuffixOf f.name

/-- the first line that is neither blank nor a `//` comment -/
def firstCodeLine (f : CFile) : Str := ((splitlines f.contents).filter isCodeLine).head?.getD []

def hasIncludeGuard (f : CFile) : Bool :=
  let l := firstCodeLine f
  (L "#pragma once").isPrefixOf l || (L "#ifndef").isPrefixOf l

/-- names declared as members of the shell struct: functions (`name(`) and variables (`name;`) -/
def memberNames (hh : CFile) : List Str :=
  let ls := (splitlines hh.contents).filter isCodeLine
  let inside := (ls.dropWhile (fun l => !(L "struct ").isPrefixOf (lstrip l))).drop 2
  let body := inside.takeWhile (fun l => l ≠ L "};")
  body.filterMap fun l =>
    let t := strip l
    if t = L "private:" || t = L "public:" then none
    else if t.contains '(' then
      let before := t.takeWhile (· ≠ '(')
      some (splitLastSpace before).2
    else if (L ";").isSuffixOf t then
      some (splitLastSpace (t.dropLast)).2
    else none

def hasDuplicates : List Str → Bool
  | [] => false
  | a :: r => r.contains a || hasDuplicates r

/-- the signatures declared in the struct (functions only) and defined in the source -/
def declaredSigs (hh : CFile) : List SigEntity :=
  let ls := (splitlines hh.contents).filter isCodeLine
  let inside := (ls.dropWhile (fun l => !(L "struct ").isPrefixOf (lstrip l))).drop 2
  let body := inside.takeWhile (fun l => l ≠ L "};")
  body.filterMap fun l =>
    let t := strip l
    if t.contains '(' && (L ";").isSuffixOf t then
      -- constructors have no return type: give the reader a dummy one
      let t' := if (splitLastSpace (t.takeWhile (· ≠ '('))).1.isEmpty then L "void " ++ t else t
      readSig t'
    else none

def definedSigs (cc : CFile) (structName : Str) : List SigEntity :=
  (splitlines cc.contents).filterMap fun l =>
    if l.contains '(' && containsSub (structName ++ L "::") l && !(L " ").isPrefixOf l && !(L "//").isPrefixOf l then
      let l' := if (structName ++ L "::").isPrefixOf l then L "void " ++ l else l
      readSig l'
    else none

/-- maximal runs of identifier characters of a line -/
def identTokens (l : Str) : List Str :=
  let rec go : Str → Str → List Str
    | [], cur => if cur.isEmpty then [] else [cur.reverse]
    | c :: cs, cur =>
      if c.isAlphanum || c = '_' then go cs (c :: cur)
      else if cur.isEmpty then go cs [] else cur.reverse :: go cs []
  go l []

/-- the `m_…` member names the source file uses -/
def usedMembers (cc : CFile) : List Str :=
  (((splitlines cc.contents).filter isCodeLine).flatMap identTokens).filter (fun t => (L "m_").isPrefixOf t) |>.eraseDups

def sigKey (s : SigEntity) : Str × List (Str × Str) × Str := (s.name, s.params, s.cav)

/-- structural clauses of C06; returns (clause, detail) pairs -/
def holdsC06 (files : List CFile) (structName modelHeader : Str) : List (String × Str) :=
  let names := files.map (·.name)
  let hh := files.headD default
  let cc := (files.drop 1).headD default
  (if files.length = 8 then [] else [("eight-files", [])]) ++
  -- every quoted include names another returned file or the model header; none includes itself
  (files.flatMap fun f => (quotedIncludes f).filterMap fun q =>
     if q = f.name then some ("self-include", f.name)
     else if names.contains q || q = modelHeader then none
     else some ("include-closure", f.name ++ L " -> " ++ q)) ++
  -- re-includable: every header starts with an include guard
  ((files.filter isHeader).filterMap fun f => if hasIncludeGuard f then none else some ("reincludable", f.name)) ++
  -- the struct is not placed in an unnamed namespace
  ((files.take 2).filterMap fun f =>
     if (splitlines f.contents).any (fun l => l = L "namespace {") then some ("named-scope", f.name) else none) ++
  -- member names pairwise distinct
  (if hasDuplicates (memberNames hh) then [("member-names-distinct", hh.name)] else []) ++
  -- every member the source file uses is declared in the struct
  ((usedMembers cc).filterMap fun m => if (memberNames hh).contains m then none else some ("member-used-but-not-declared", m)) ++
  -- every declared member function is defined once with a matching signature, and vice versa
  (let ds := (declaredSigs hh).map sigKey
   let fs := (definedSigs cc structName).map sigKey
   (ds.filterMap fun d => if fs.contains d then none else some ("declared-not-defined", d.1)) ++
   (fs.filterMap fun d => if ds.contains d then none else some ("defined-not-declared", d.1)) ++
   (if hasDuplicates (fs.map (·.1)) && !hasDuplicates (ds.map (·.1)) then [("defined-twice", cc.name)] else []))

/-! standard-library names used by the support headers and the header that provides them -/
def stdNameTable : List (String × String) :=
  [("std::string", "string"), ("std::wstring", "string"), ("std::function", "functional"),
   ("std::reference_wrapper", "functional"), ("std::runtime_error", "stdexcept"),
   ("std::optional", "optional"), ("std::nullopt", "optional"), ("std::vector", "vector"), ("std::map", "map"),
   ("std::unique_ptr", "memory"), ("std::mutex", "mutex"), ("std::unique_lock", "mutex"),
   ("std::move", "utility"), ("std::transform", "algorithm"), ("std::toupper", "cctype"),
   ("std::towupper", "cwctype"), ("std::is_same_v", "type_traits")]

/-- headers that are known to be pulled in by another standard header on every implementation
    (not relied upon: only <utility> via <functional>/<memory>/<string>, <type_traits> via any) -/
def impliedBy (h : String) (incs : List Str) : Bool :=
  (h = "utility" || h = "type_traits") && !incs.isEmpty

/-- `std::` names a support header uses without including their header, directly or through the
    other returned headers it includes -/
def missingStdHeaders (files : List CFile) (f : CFile) : List (String × String) :=
  let direct := files.filter (fun g => (quotedIncludes f).contains g.name)
  let incs0 := systemIncludes f ++ direct.flatMap systemIncludes
  -- the Dezyne runtime header <dzn/meta.hh> includes these standard headers (Appendix B of DESIGN.md)
  let incs := incs0 ++ (if incs0.contains (L "dzn/meta.hh") then
      [L "algorithm", L "functional", L "memory", L "stdexcept", L "string", L "vector"] else [])
  let code := ((splitlines f.contents).filter isCodeLine)
  stdNameTable.filter fun (n, h) =>
    code.any (fun l => containsSub n.toList l) && !incs.contains h.toList && !impliedBy h incs

end Spec
