/-
  DznModel.Ast — model of dznpy/ast.py (the dataclasses the parser fills).
-/
import DznModel.Json
import DznModel.Scoping
open Py Scoping

namespace Ast

inductive FormalDir | in_ | out | inout deriving DecidableEq, Repr, Inhabited
inductive EventDir | in_ | out deriving DecidableEq, Repr, Inhabited
inductive PortDir | requires | provides deriving DecidableEq, Repr, Inhabited

structure Formal where
  name : Str
  typeName : Ids
  dir : FormalDir
  deriving Repr, Inhabited

structure Event where
  name : Str
  replyType : Ids          -- signature.type_name
  formals : List Formal    -- signature.formals
  dir : EventDir
  deriving Repr, Inhabited

structure Port where
  name : Str
  typeName : Ids
  dir : PortDir
  formals : List Formal
  injected : Bool
  deriving Repr, Inhabited

structure EnumD where
  fqn : Ids
  parent : NsTree
  name : Ids
  fields : List JVal       -- `Fields.elements` is stored unvalidated
  deriving Repr, Inhabited

structure SubIntD where
  fqn : Ids
  parent : NsTree
  name : Ids
  fromV : JVal             -- `isinstance(x, int)` accepts bools: stored as given
  toV : JVal
  deriving Repr, Inhabited

structure ExternD where
  fqn : Ids
  parent : NsTree
  name : Ids
  value : Str
  deriving Repr, Inhabited

inductive TypeD | enum (e : EnumD) | subint (s : SubIntD)
  deriving Repr, Inhabited

structure InterfaceD where
  fqn : Ids
  parent : NsTree
  trail : NsTree
  name : Ids
  types : List TypeD
  events : List Event
  deriving Repr, Inhabited

structure ComponentD where
  fqn : Ids
  parent : NsTree
  name : Ids
  ports : List Port
  deriving Repr, Inhabited

structure Instance where
  name : Str
  typeName : Ids
  deriving Repr, Inhabited

structure EndPoint where
  portName : Str
  instanceName : Option Str
  deriving Repr, Inhabited

structure Binding where
  left : EndPoint
  right : EndPoint
  deriving Repr, Inhabited

structure SystemD where
  fqn : Ids
  parent : NsTree
  name : Ids
  ports : List Port
  instances : List Instance
  bindings : List Binding
  deriving Repr, Inhabited

/-- `FileContents` -/
structure FC where
  components : List ComponentD := []
  enums : List EnumD := []
  externs : List ExternD := []
  filenames : List Str := []
  foreigns : List ComponentD := []
  imports : List Str := []
  interfaces : List InterfaceD := []
  subints : List SubIntD := []
  systems : List SystemD := []
  deriving Repr, Inhabited

def InterfaceD.enums (i : InterfaceD) : List EnumD :=
  i.types.filterMap (fun t => match t with | .enum e => some e | _ => none)
def InterfaceD.subints (i : InterfaceD) : List SubIntD :=
  i.types.filterMap (fun t => match t with | .subint s => some s | _ => none)

/-- the declarations `find_fqn`/`find_any` range over, in container order -/
inductive Decl
  | component (c : ComponentD) | enum (e : EnumD) | extern (e : ExternD) | foreign (c : ComponentD)
  | interface (i : InterfaceD) | subint (s : SubIntD) | system (s : SystemD)
  deriving Repr, Inhabited

def Decl.fqn : Decl → Ids
  | .component c => c.fqn | .enum e => e.fqn | .extern e => e.fqn | .foreign c => c.fqn
  | .interface i => i.fqn | .subint s => s.fqn | .system s => s.fqn

def Decl.parent : Decl → NsTree
  | .component c => c.parent | .enum e => e.parent | .extern e => e.parent | .foreign c => c.parent
  | .interface i => i.parent | .subint s => s.parent | .system s => s.parent

def Decl.name : Decl → Ids
  | .component c => c.name | .enum e => e.name | .extern e => e.name | .foreign c => c.name
  | .interface i => i.name | .subint s => s.name | .system s => s.name

def Decl.kind : Decl → String
  | .component _ => "component" | .enum _ => "enum" | .extern _ => "extern" | .foreign _ => "foreign"
  | .interface _ => "interface" | .subint _ => "subint" | .system _ => "system"

/-- `[fct.components, fct.enums, fct.externs, fct.foreigns, fct.interfaces, fct.subints, fct.systems]` -/
def FC.decls (f : FC) : List Decl :=
  f.components.map .component ++ f.enums.map .enum ++ f.externs.map .extern ++
  f.foreigns.map .foreign ++ f.interfaces.map .interface ++ f.subints.map .subint ++
  f.systems.map .system

end Ast
