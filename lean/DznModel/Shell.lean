/-
  DznModel.Shell — model of dznpy/adv_shell: Builder.build, core/processing.py, common.py.
  `build fc cfg` returns the eight generated files (byte-exact text) or the Python failure; on the
  way it computes the *wiring IR* (`ShellIR`) from which the constructor body and the
  InitializePort bodies are rendered — so text equality with the implementation pins the IR.
-/
import DznModel.AstView
import DznModel.PortSel
import DznModel.Support
open Py Text Scoping Ast AstView PortSel CppGen Support

namespace Shell

inductive Origin | import_ | create deriving DecidableEq, Repr, Inhabited

structure Config where
  dezyneFilename : Str
  suffix : Str
  encapsulee : Ids
  ports : PortsCfg
  origin : Origin
  copyright : Content                  -- normally a str
  pfx : Option Ids := none
  creatorInfo : Content := .none       -- Optional[str]
  deriving Repr, Inhabited

/-! ### Dezyne elements -/

structure McFixture where
  claimEvent : Event
  grant : Ids                 -- enum fqn ++ value
  grantIndex : Nat := 0       -- position of the granting value among the enum's fields
  releaseEvent : Event
  deriving Repr, Inhabited

structure DznPortItf where
  port : Port
  itf : InterfaceD
  sem : Sem
  mc : Option McFixture := none
  deriving Repr, Inhabited

def eventEq (a b : Event) : Bool :=
  a.name = b.name && a.replyType = b.replyType && a.dir = b.dir &&
  a.formals.length = b.formals.length &&
  (a.formals.zip b.formals).all (fun (x, y) => x.name = y.name && x.typeName = y.typeName && x.dir = y.dir)

/-- `str(x) in fields.elements` for JSON field values -/
def fieldsContain (fields : List JVal) (s : Str) : Bool :=
  fields.any (fun j => match j with | .str t => t = s | _ => false)

/-- `check_multiclient_cfg` -/
def checkMulticlientCfg (cfg : Option MultiClientCfg) (portName : Str) (itf : InterfaceD) (fc : FC) :
    R (Option McFixture) :=
  match cfg with
  | none => .ok none
  | some c =>
    if portName ≠ c.portName then .ok none else
    match itf.events.filter (fun e => e.name = c.claimEvent) with
    | [] => mcErr
    | claim :: _ =>
      match getSingle (findFqn fc claim.replyType itf.fqn) (some isEnum) with
      | .error _ => mcErr                       -- FindError is re-raised as MultiClientCfgError
      | .ok (.enum en) =>
        match c.grant with
        | [] => .error (.internal .IndexError)
        | v :: _ =>
          if !fieldsContain en.fields v then mcErr else
          match itf.events.filter (fun e => e.name = c.releaseEvent) with
          | [] => mcErr
          | release :: _ =>
            -- clients call the release event: an out-event is refused (after the repair of D-12)
            if release.dir ≠ .in_ then mcErr else
            .ok (some { claimEvent := claim, grant := en.fqn ++ [v], releaseEvent := release,
                        grantIndex := (en.fields.findIdx? (fun j => match j with | .str t => t = v | _ => false)).getD 0 })
      | .ok _ => mcErr

def isComponentOrSystem : Decl → Bool
  | .component _ => true | .system _ => true | _ => false

def Decl.ports : Decl → List Port
  | .component c => c.ports | .system s => s.ports | .foreign c => c.ports | _ => []

/-- the exposed ports with interface, semantics and multi-client fixture -/
structure DznElements where
  encapsulee : Decl
  scope : Ids                         -- scope_fqn
  provides : List DznPortItf
  requires : List DznPortItf
  allPorts : List (Port × InterfaceD) := []   -- every port (also injected ones) with its interface
  deriving Repr, Inhabited

/-- `DznPortItf(...)`: multi-client only on MTS (a configuration error after the repair of D-11;
    `ValueError` before) -/
def mkDznPortItf (port : Port) (itf : InterfaceD) (sem : Sem) (mc : Option McFixture) : R DznPortItf :=
  if mc.isSome && sem != .mts then mcErr else .ok { port, itf, sem, mc }

/-- the per-port loop body of `create_dzn_elements` -/
def processPort (cfg : Config) (fc : FC) (scope : Ids) (sems : List (Str × Sem))
    (acc : List DznPortItf × List DznPortItf) (port : Port) : R (List DznPortItf × List DznPortItf) := do
  let d ← getSingle (findFqn fc port.typeName scope) (some isInterface)
  match d with
  | .interface itf =>
    if port.dir = .provides then
      let mc ← checkMulticlientCfg cfg.ports.multiclient port.name itf fc
      match sems.lookup port.name with
      | none => adv                    -- no semantics configured (KeyError before the repair of D-5)
      | some s =>
        let p ← mkDznPortItf port itf s mc
        pure (acc.1 ++ [p], acc.2)
    else if !port.injected then
      match sems.lookup port.name with
      | none => adv
      | some s =>
        let p ← mkDznPortItf port itf s none
        pure (acc.1, acc.2 ++ [p])
    else pure acc
  | _ => .error (.lib .FindError)

/-- `create_dzn_elements(cfg, fct, encapsulee)`; `provOrder`/`reqOrder` are the iteration orders
    of the two port-name sets (only membership matters, see C08) -/
def createDznElements (cfg : Config) (fc : FC) (enc : Decl) : R DznElements := do
  if !isComponentOrSystem enc then adv else
  let scope := enc.parent.fqn
  let ports := Decl.ports enc
  let prov := (ports.filter (·.dir = .provides)).map (·.name) |>.eraseDups
  let req := (ports.filter (·.dir = .requires)).map (·.name) |>.eraseDups
  let sems ← cfg.ports.matchAll prov req
  let (pp, rp) ← ports.foldlM (processPort cfg fc scope sems) ([], [])
  if cfg.ports.multiclient.isSome && !(pp.any (·.mc.isSome)) then adv
  else
    let allPorts := ports.filterMap fun p =>
      match getSingle (findFqn fc p.typeName scope) (some isInterface) with
      | .ok (.interface i) => some (p, i)
      | _ => none
    pure { encapsulee := enc, scope, provides := pp, requires := rp, allPorts }

/-! ### the wiring IR -/

inductive PortObj
  | enc (port : Str)            -- m_encapsulee.<port>
  | bnd (mv : Str)              -- m_pp<Port> / m_rp<Port>
  | arb (mv : Str)              -- m_pp<Port>()  — the arbitered port inside the selector
  | local_                      -- `port` : the per-client port under construction
  deriving DecidableEq, Repr, Inhabited

inductive EvDir | in_ | out deriving DecidableEq, Repr, Inhabited

structure Slot where
  obj : PortObj
  dir : EvDir
  ev : Str
  deriving DecidableEq, Repr, Inhabited

structure LParam where
  ctype : Str
  byRef : Bool
  name : Str
  deriving DecidableEq, Repr, Inhabited

inductive Handler
  | shell (callee : Slot) (params : List LParam) (callArgs : List Str) (byVal : List Str)
  | post (callee : Slot) (params : List LParam) (callArgs : List Str) (byVal : List Str)
  | ref (s : Slot)
  | mcDeliver (mv : Str) (ev : Str) (params : List LParam) (callArgs : List Str)
  | mcClaim (mv : Str) (ev : Str) (params : List LParam) (callArgs : List Str) (grant : Str)
  | mcRelease (mv : Str) (ev : Str) (calledEv : Str) (params : List LParam) (callArgs : List Str)
  deriving Repr, Inhabited

structure Assign where
  lhs : Slot
  rhs : Handler
  deriving Repr, Inhabited

def PortObj.str : PortObj → Str
  | .enc p => L "m_encapsulee." ++ p
  | .bnd mv => mv
  | .arb mv => mv ++ L "()"
  | .local_ => L "port"

def EvDir.str : EvDir → Str | .in_ => L "in" | .out => L "out"

def Slot.str (s : Slot) : Str := s.obj.str ++ L "." ++ s.dir.str ++ L "." ++ s.ev

def LParam.str (p : LParam) : Str := p.ctype ++ (if p.byRef then L "&" else []) ++ L " " ++ p.name

def lambdaParams (ps : List LParam) : Str :=
  if ps.isEmpty then [] else L "(" ++ join (L ", ") (ps.map LParam.str) ++ L ")"

def captures (byVal : List Str) : Str := (byVal.map (fun x => L ", " ++ x)).flatten

/-- the C++ text of one assignment (possibly several lines, joined with `\n`) -/
def Assign.render (a : Assign) : Str :=
  match a.rhs with
  | .shell callee ps args byVal =>
    a.lhs.str ++ L " = [&]" ++ lambdaParams ps ++ L " {\n" ++
    L "    return dzn::shell(m_dispatcher, [&" ++ captures byVal ++ L "] { return " ++ callee.str ++
    L "(" ++ join (L ", ") args ++ L "); });\n" ++ L "};"
  | .post callee ps args byVal =>
    a.lhs.str ++ L " = [&]" ++ lambdaParams ps ++ L " {\n" ++
    L "    return m_dispatcher([&" ++ captures byVal ++ L "] { return " ++ callee.str ++
    L "(" ++ join (L ", ") args ++ L "); });\n" ++ L "};"
  | .ref s => a.lhs.str ++ L " = std::ref(" ++ s.str ++ L ");"
  | .mcDeliver mv ev ps args =>
    a.lhs.str ++ L " = [&]" ++ lambdaParams ps ++ L " {\n" ++
    L "    auto lockAndData = " ++ mv ++ L ".CurrentClient();\n" ++
    L "    if (lockAndData->has_value()) lockAndData->value().get().dznPort.out." ++ ev ++
    L "(" ++ join (L ", ") args ++ L ");\n" ++ L "};"
  | .mcClaim mv ev ps args grant =>
    a.lhs.str ++ L " = [&, identifier]" ++ lambdaParams ps ++ L " {\n" ++
    L "    const auto r = " ++ mv ++ L ".Arbitered().in." ++ ev ++ L "(" ++ join (L ", ") args ++ L ");\n" ++
    L "    if (r == " ++ grant ++ L ") " ++ mv ++ L ".Select(identifier);\n" ++
    L "    return r;\n" ++ L "};"
  | .mcRelease mv _ev calledEv ps args =>
    a.lhs.str ++ L " = [&, identifier]" ++ lambdaParams ps ++ L " {\n" ++
    L "    " ++ mv ++ L ".Arbitered().in." ++ calledEv ++ L "(" ++ join (L ", ") args ++ L ");\n" ++
    L "    " ++ mv ++ L ".Deselect(identifier);\n" ++ L "};"

/-! ### C++ port interfaces -/

structure CppPortItf where
  dzn : DznPortItf
  ty : TypeDesc
  accessor : Function
  target : Str                    -- accessor_target
  memberVar : Option MemberVariable := none
  capName : Str
  deriving Repr, Inhabited

def CppPortItf.name (p : CppPortItf) : Str := p.dzn.port.name
def CppPortItf.isMc (p : CppPortItf) : Bool := p.dzn.mc.isSome

def portDirValue : PortDir → Str | .provides => L "Provides" | .requires => L "Requires"

def constParamRef (fqn : Fqn) (name : Str) (dflt : Str := []) : Param :=
  { ty := { fqn, pfix := .ref, isConst := true, dflt := some dflt }, name }
def constParamPtr (fqn : Fqn) (name : Str) (dflt : Str := []) : Param :=
  { ty := { fqn, pfix := .ptr, isConst := true, dflt := some dflt }, name }

/-- `create_cpp_portitf` -/
def createCppPortItf (d : DznPortItf) (structName : Str) (sfns : Ids) : R CppPortItf := do
  let typ : TypeDesc := { fqn := { ids := d.itf.fqn, root := true } }
  let fnPrefix := portDirValue d.port.dir
  let cap ← capFirst d.port.name
  match d.sem, d.mc with
  | .sts, _ =>
    let strict : TypeDesc := { fqn := { ids := sfns ++ [L "Sts"], root := true }, targ := some typ.fqn }
    let target := L "m_encapsulee." ++ d.port.name
    pure { dzn := d, ty := typ, target, memberVar := none, capName := cap,
           accessor := { ret := strict, name := fnPrefix ++ cap, scope := some structName,
                         contents := .str (L "return {" ++ target ++ L "};") } }
  | .mts, none =>
    let strict : TypeDesc := { fqn := { ids := sfns ++ [L "Mts"], root := true }, targ := some typ.fqn }
    let mvPrefix := if d.port.dir = .provides then L "m_pp" else L "m_rp"
    let mv : MemberVariable := { ty := typ, name := mvPrefix ++ cap }
    pure { dzn := d, ty := typ, target := mv.name, memberVar := some mv, capName := cap,
           accessor := { ret := strict, name := fnPrefix ++ cap, scope := some structName,
                         contents := .str (L "return {" ++ mv.name ++ L "};") } }
  | .mts, some _ =>
    let mcT : TypeDesc := { fqn := { ids := sfns ++ [L "MultiClientSelector"], root := true },
                            targ := some { ids := d.itf.fqn, root := true } }
    let strict : TypeDesc := { fqn := { ids := sfns ++ [L "Mts"], root := true }, targ := some typ.fqn }
    let mv : MemberVariable := { ty := mcT, name := L "m_pp" ++ cap }
    pure { dzn := d, ty := typ, target := mv.name, memberVar := some mv, capName := cap,
           accessor := { ret := strict, name := fnPrefix ++ L "MultiClient" ++ cap,
                         params := [constParamRef { ids := sfns ++ [L "ClientIdentifier"], root := true } (L "identifier")],
                         scope := some structName,
                         contents := .str (L "return {" ++ mv.name ++ L ".Index(identifier).dznPort};") } }

/-! ### lambda parameters from event formals (the `find_fqn(...).get_single_instance()` lookups) -/

/-- C++ type text of one formal: the `$value$` of the unique *extern* found on the scope chain of
    the interface (wrong kind: a lookup error after the repair of D-6; `AttributeError` before) -/
def formalCType (fc : FC) (itf : InterfaceD) (f : Formal) : R Str := do
  let d ← getSingle (findFqn fc f.typeName itf.fqn) (some isExtern)
  match d with
  | .extern e => pure e.value
  | _ => .error (.lib .FindError)

/-- the `args` list; `refs = true`: out/inout formals are references (in-events), `false`: all by value -/
def lambdaParamsOf (fc : FC) (itf : InterfaceD) (ev : Event) (refs : Bool) : R (List LParam) :=
  ev.formals.mapM fun f => do
    let ct ← formalCType fc itf f
    pure { ctype := ct, byRef := refs && f.dir != .in_, name := f.name }

def inFormalNames (ev : Event) : List Str := (ev.formals.filter (·.dir = .in_)).map (·.name)
def formalNames (ev : Event) : List Str := ev.formals.map (·.name)

def inEvents (i : InterfaceD) : List Event := i.events.filter (·.dir = .in_)
def outEvents (i : InterfaceD) : List Event := i.events.filter (·.dir = .out)

/-- `reroute_in_events(port, …)` -/
def rerouteInEvents (fc : FC) (p : CppPortItf) : R (List Assign) :=
  (inEvents p.dzn.itf).mapM fun ev => do
    let ps ← lambdaParamsOf fc p.dzn.itf ev true
    let lhsObj := if p.isMc then PortObj.arb p.target else .bnd p.target
    pure { lhs := { obj := lhsObj, dir := .in_, ev := ev.name },
           rhs := .shell { obj := .enc p.name, dir := .in_, ev := ev.name } ps (formalNames ev) (inFormalNames ev) }

/-- `reroute_out_events(port, …)` -/
def rerouteOutEvents (fc : FC) (p : CppPortItf) : R (List Assign) :=
  (outEvents p.dzn.itf).mapM fun ev => do
    let ps ← lambdaParamsOf fc p.dzn.itf ev false
    pure { lhs := { obj := .bnd p.target, dir := .out, ev := ev.name },
           rhs := .post { obj := .enc p.name, dir := .out, ev := ev.name } ps (formalNames ev) (inFormalNames ev) }

/-- `stdref_provides_out_events` -/
def stdrefProvidesOut (p : CppPortItf) : List Assign :=
  (outEvents p.dzn.itf).map fun ev =>
    { lhs := { obj := .enc p.name, dir := .out, ev := ev.name },
      rhs := .ref { obj := .bnd p.target, dir := .out, ev := ev.name } }

/-- `stdref_requires_in_events` -/
def stdrefRequiresIn (p : CppPortItf) : List Assign :=
  (inEvents p.dzn.itf).map fun ev =>
    { lhs := { obj := .enc p.name, dir := .in_, ev := ev.name },
      rhs := .ref { obj := .bnd p.target, dir := .in_, ev := ev.name } }

/-- `reroute_multiclient_out_events` -/
def rerouteMcOutEvents (fc : FC) (p : CppPortItf) : R (List Assign) :=
  (outEvents p.dzn.itf).mapM fun ev => do
    let ps ← lambdaParamsOf fc p.dzn.itf ev false
    pure { lhs := { obj := .arb p.target, dir := .out, ev := ev.name },
           rhs := .mcDeliver p.target ev.name ps (formalNames ev) }

/-- the `tmp` loop: encapsulee out-events referenced to the arbitered port -/
def stdrefEncapsuleeOut (p : CppPortItf) : List Assign :=
  (outEvents p.dzn.itf).map fun ev =>
    { lhs := { obj := .enc p.name, dir := .out, ev := ev.name },
      rhs := .ref { obj := .arb p.target, dir := .out, ev := ev.name } }

/-- the assignments of `initialize_port_impl` for a multi-client port: claim / release / plain -/
def initializePortAssigns (fc : FC) (p : CppPortItf) (mc : McFixture) : R (List Assign) :=
  (inEvents p.dzn.itf).mapM fun ev => do
    if eventEq ev mc.claimEvent then
      let ps ← lambdaParamsOf fc p.dzn.itf mc.claimEvent true
      pure { lhs := { obj := .local_, dir := .in_, ev := mc.claimEvent.name },
             rhs := .mcClaim p.target mc.claimEvent.name ps (formalNames mc.claimEvent)
                      (Fqn.str { ids := mc.grant, root := true }) }
    else if eventEq ev mc.releaseEvent then
      let ps ← lambdaParamsOf fc p.dzn.itf mc.releaseEvent true
      -- after the repair of D-4 the configured release event is called (`Release` literally before)
      pure { lhs := { obj := .local_, dir := .in_, ev := mc.releaseEvent.name },
             rhs := .mcRelease p.target mc.releaseEvent.name mc.releaseEvent.name ps (formalNames mc.releaseEvent) }
    else
      pure { lhs := { obj := .local_, dir := .in_, ev := ev.name },
             rhs := .ref { obj := (if p.isMc then PortObj.arb p.target else .bnd p.target), dir := .in_, ev := ev.name } }

/-- what the shell wires: everything the program-level properties are about -/
structure ShellIR where
  structName : Str
  ns : Ids
  sfns : Ids
  origin : Origin
  provides : List CppPortItf
  requires : List CppPortItf
  mil : List Str
  ctorAssigns : List Assign          -- in emission order
  initPort : List (Str × List Assign) -- per multi-client port: InitializePort body assignments
  finalConstruct : List Str          -- statements of FinalConstruct, in order
  deriving Repr, Inhabited

/-! ### text pieces -/

def strC (s : Str) : Content := .str s
def strsC (l : List Str) : Content := .list (l.map .str)
def commentC (s : Str) : Content := commentOf (.str s)

/-- `flatten_to_strlist([f(p) for p in ports])` where `f` returns `str(TextBlock(result))` or None -/
def assignsText (as : List Assign) : Option Str :=
  if as.isEmpty then none else some (TB.mk' (strsC (as.map Assign.render))).toStr

def optStrs (l : List (Option Str)) : Content := .list (l.map (fun o => match o with | some s => .str s | none => .none))

/-- `initialize_port_impl` → the str used as function contents -/
def initializePortImpl (p : CppPortItf) (sfns : Ids) (as : List Assign) : Str :=
  let arbiter := L "arbiter" ++ (match capFirst p.name with | .ok c => c | .error _ => [])
  let createPort := Fqn.str { ids := sfns ++ [L "CreatePort"], root := true }
  let cppPortType := Fqn.str { ids := p.dzn.itf.fqn, root := true }
  let localVar := L "auto port(" ++ createPort ++ L "<" ++ cppPortType ++ L ">(\"" ++ p.name ++ L "\", \"" ++
                  arbiter ++ L "\"));"
  let tb2 : List Content := as.map fun a => (TB.mk' (.list [.str a.render])).asContent
  (TB.mk' (.list [.list [optTB (chunk (.str localVar))], optTB (chunk (.list tb2)), .list [.str (L "return port;")]])).toStr

end Shell
