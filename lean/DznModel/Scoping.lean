/-
  DznModel.Scoping — model of dznpy/scoping.py: NamespaceIds, NamespaceTree, namespaceids_t,
  sum_namespaceids_items, scope_resolution_order.
-/
import DznModel.Py
open Py

namespace Scoping

/-- `NamespaceIds.items` -/
abbrev Ids := List Str

def isIdStart (c : Char) : Bool := ('a' ≤ c && c ≤ 'z') || ('A' ≤ c && c ≤ 'Z') || c = '_'
def isIdChar (c : Char) : Bool := isIdStart c || ('0' ≤ c && c ≤ '9')

/-- `re.fullmatch('^[a-zA-Z_][a-zA-Z0-9_]*$', s)` -/
def validId : Str → Bool
  | [] => false
  | c :: cs => isIdStart c && cs.all isIdChar

def validIds (ids : Ids) : Bool := ids.all validId

/-- `NamespaceIds(items=…)` with its `__post_init__` check (items already known to be strs) -/
def mkIds (items : List Str) : R Ids :=
  if validIds items then .ok items else .error (.lib .NamespaceIdsTypeError)

/-- `s.split('.')` (`cur` = the current piece, reversed) -/
def splitChar (sep : Char) : Str → Str → List Str
  | [], cur => [cur.reverse]
  | c :: cs, cur => if c = sep then cur.reverse :: splitChar sep cs [] else splitChar sep cs (c :: cur)

/-- `s.split('::')`: leftmost, non-overlapping occurrences -/
def splitColons : Str → Str → List Str
  | [], cur => [cur.reverse]
  | ':' :: ':' :: cs, cur => cur.reverse :: splitColons cs []
  | c :: cs, cur => splitColons cs (c :: cur)

/-- `'::' in s` -/
def hasColons : Str → Bool
  | [] => false
  | ':' :: ':' :: _ => true
  | _ :: cs => hasColons cs

/-- the argument kinds of `namespaceids_t` -/
inductive IdsArg
  | ids (i : Ids)                 -- already a NamespaceIds
  | strlist (l : List Str)        -- a list of str
  | str (s : Str)
  | other                         -- anything else (None, int, list with non-str, …)
  deriving Repr, Inhabited

/-- `namespaceids_t(value)` -/
def namespaceidsT : IdsArg → R Ids
  | .ids i => .ok i
  | .strlist l => mkIds l
  | .other => .error (.lib .NamespaceIdsTypeError)
  | .str s =>
    if s.isEmpty then mkIds []
    else if s.contains '.' then mkIds (splitChar '.' s [])
    else if hasColons s then mkIds (splitColons s [])
    else mkIds [s]

/-- `str(NamespaceIds)` -/
def dotted (i : Ids) : Str := join ['.'] i
def colons (i : Ids) : Str := join [':', ':'] i

/-- `NamespaceTree`: the chain of scope names from the root (root = no scopes).  A scope name may
    consist of several identifiers. -/
structure NsTree where
  scopes : List Ids := []
  deriving Repr, Inhabited, DecidableEq

/-- `sum_namespaceids_items` on a list of NamespaceIds -/
def sumIds (items : List Ids) : Ids := items.flatten

/-- `NamespaceTree.fqn` (recursive over the parent chain) -/
def NsTree.fqn (t : NsTree) : Ids := sumIds t.scopes

def NsTree.push (t : NsTree) (scope : Ids) : NsTree := { scopes := t.scopes ++ [scope] }

/-- `NamespaceTree.fqn_member_name` -/
def NsTree.fqnMember (t : NsTree) (m : Ids) : Ids := t.fqn ++ m

/-- `scope_resolution_order(searchable, calling_scope)` — the `while items: pop()` loop -/
def scopeResolutionOrder (name : Ids) (scope : Ids) : List Ids :=
  (scope ++ name) ::
    (if _h : scope = [] then [] else scopeResolutionOrder name scope.dropLast)
termination_by scope.length
decreasing_by
  simp only [List.length_dropLast]
  have : scope.length ≠ 0 := by simpa using _h
  omega

end Scoping
