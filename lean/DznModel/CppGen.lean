/-
  DznModel.CppGen — model of dznpy/cpp_gen.py: Fqn, TypeDesc, Param, Function, Constructor,
  Destructor, Struct/Class, Namespace, Includes, MemberVariable, AccessSpecifiedSection, Comment.
  Every `.str`/`asDecl`/`asDef` is the Python `str()` / property of the same name.
-/
import DznModel.Text
import DznModel.Scoping
open Py Text Scoping

namespace CppGen

structure Fqn where
  ids : Ids
  root : Bool := false
  deriving Repr, Inhabited, DecidableEq

/-- `str(Fqn)` -/
def Fqn.str (f : Fqn) : Str :=
  if f.ids.isEmpty then [] else (if f.root then L "::" else []) ++ join (L "::") f.ids

inductive Postfix | none | ref | ptr deriving DecidableEq, Repr, Inhabited

def Postfix.str : Postfix → Str
  | .none => [] | .ref => L "&" | .ptr => L "*"

structure TypeDesc where
  fqn : Fqn
  targ : Option Fqn := none          -- TemplateArg
  pfix : Postfix := .none
  isConst : Bool := false
  dflt : Option Str := none
  deriving Repr, Inhabited

/-- `str(TypeDesc)`; a TemplateArg object is always truthy -/
def TypeDesc.str (t : TypeDesc) : Str :=
  let tpl := match t.targ with | some a => L "<" ++ a.str ++ L ">" | none => []
  let mandatory := t.fqn.str ++ tpl ++ t.pfix.str
  if t.isConst then L "const " ++ mandatory else mandatory

structure Param where
  ty : TypeDesc
  name : Str
  deriving Repr, Inhabited

def Param.asDef (p : Param) : Str := p.ty.str ++ L " " ++ p.name

/-- the default value is printed only when it is a non-empty string -/
def Param.asDecl (p : Param) : Str :=
  match p.ty.dflt with
  | some d => if d.isEmpty then p.asDef else p.asDef ++ L " = " ++ d
  | none => p.asDef

inductive FnPrefix | member | virtual | static deriving DecidableEq, Repr, Inhabited

def FnPrefix.isVirtual : FnPrefix → Bool
  | .virtual => true | _ => false

def FnPrefix.str : FnPrefix → Str
  | .member => [] | .virtual => L "virtual " | .static => L "static "

/-- `str(TB(text))` for a single string -/
def tbOfStr (s : Str) : Str := (TB.mk' (.str s)).toStr

structure Function where
  ret : TypeDesc
  name : Str
  params : List Param := []
  pfx : FnPrefix := .member
  cav : Str := []
  override : Bool := false
  init : Str := []
  contents : Content := .str []     -- a str, or (as the shell builder does) a TextBlock object
  scope : Option Str := none        -- name of the owning struct/class
  deriving Repr, Inhabited

def paramsDecl (ps : List Param) : Str := join (L ", ") (ps.map Param.asDecl)
def paramsDef (ps : List Param) : Str := join (L ", ") (ps.map Param.asDef)

/-- the one-line text of `Function.as_decl` before it is poured into a TextBlock -/
def Function.declText (f : Function) : Str :=
  f.pfx.str ++ f.ret.str ++ L " " ++ f.name ++ L "(" ++ paramsDecl f.params ++ L ")" ++
  (if f.cav.isEmpty then [] else L " " ++ f.cav) ++
  (if f.override then L " override" else []) ++
  (if f.init.isEmpty then [] else L " = " ++ f.init) ++ L ";"

def Function.asDecl (f : Function) : Str := tbOfStr f.declText

/-- the signature line of `Function.as_def` -/
def Function.defSig (f : Function) : Str :=
  f.ret.str ++ L " " ++ (match f.scope with | some s => s ++ L "::" | none => []) ++ f.name ++
  L "(" ++ paramsDef f.params ++ L ")" ++ (if f.cav.isEmpty then [] else L " " ++ f.cav)

/-- a body block: signature, `{`, indented contents, `}` -/
def bodyBlock (sig : Str) (mil : Option TB) (contents : Content) : Str :=
  (TB.mk' (.list [.str sig, optTB mil, .str (L "{"),
                   (if truthy contents then ((TB.mk' contents).indent).asContent else .none),
                   .str (L "}")])).toStr

def Function.asDef (f : Function) : Str :=
  if !f.init.isEmpty then []
  else if !truthy f.contents then tbOfStr (f.defSig ++ L " {}")
  else bodyBlock f.defSig none f.contents

/-- `Function.__post_init__` (on a description whose return type is a `TypeDesc`, the only kind the model carries):
    which descriptions are refused with `CppGenError`, in the order of the checks -/
def Function.check (f : Function) : R Unit :=
  if f.name.isEmpty then .error (.lib .CppGenError)
  else if f.pfx.isVirtual && f.scope.isNone then .error (.lib .CppGenError)
  else if (L "0").isPrefixOf f.init && !f.pfx.isVirtual then .error (.lib .CppGenError)
  else .ok ()

/-- a checked description rendered: what a user gets from `Function(...)` followed by `as_decl` / `as_def` -/
def Function.render (f : Function) : R (Str × Str) := do
  f.check
  pure (f.asDecl, f.asDef)

structure Constructor where
  scope : Str                       -- struct/class name
  explicit : Bool := false
  params : List Param := []
  init : Str := []
  mil : List Str := []
  contents : Content := .str []
  deriving Repr, Inhabited

/-- `Constructor.__post_init__` (scope a Struct/Class, member initialiser list a list of strings: the only kinds the
    model carries): `= default/delete` together with a member initialiser list is refused -/
def Constructor.check (c : Constructor) : R Unit :=
  if !c.init.isEmpty && !c.mil.isEmpty then .error (.lib .CppGenError) else .ok ()

def Constructor.declText (c : Constructor) : Str :=
  (if c.explicit then L "explicit " else []) ++ c.scope ++ L "(" ++ paramsDecl c.params ++ L ")" ++
  (if c.init.isEmpty then [] else L " = " ++ c.init) ++ L ";"

def Constructor.asDecl (c : Constructor) : Str := tbOfStr c.declText

def Constructor.defSig (c : Constructor) : Str :=
  c.scope ++ L "::" ++ c.scope ++ L "(" ++ paramsDef c.params ++ L ")"

def Constructor.asDef (c : Constructor) : Str :=
  if !c.init.isEmpty then []
  else
    let mil : Option TB :=
      if c.mil.isEmpty then none
      else some ((TB.mk' (.list [.str (L ": " ++ join (L "\n, ") c.mil)])).indent)
    if mil.isNone && !truthy c.contents then tbOfStr (c.defSig ++ L " {}")
    else bodyBlock c.defSig mil c.contents

def Constructor.render (c : Constructor) : R (Str × Str) := do
  c.check
  pure (c.asDecl, c.asDef)

structure Destructor where
  scope : Str
  override : Bool := false
  init : Str := []
  contents : Content := .str []
  deriving Repr, Inhabited

def Destructor.declText (d : Destructor) : Str :=
  L "~" ++ d.scope ++ L "()" ++ (if d.override then L " override" else []) ++
  (if d.init.isEmpty then [] else L " = " ++ d.init) ++ L ";"

def Destructor.asDecl (d : Destructor) : Str := tbOfStr d.declText

def Destructor.defSig (d : Destructor) : Str := d.scope ++ L "::~" ++ d.scope ++ L "()"

def Destructor.asDef (d : Destructor) : Str :=
  if !d.init.isEmpty then []
  else if !truthy d.contents then tbOfStr (d.defSig ++ L " {}")
  else bodyBlock d.defSig none d.contents

/-- the text block `Struct.__str__` / `Class.__str__` prints; `kw` = `struct` or `class`;
    contents is a TextBlock object -/
def structBlock (kw name : Str) (contents : TB) : TB :=
  if contents.lines.isEmpty then
    TB.mk' (.list [.str (kw ++ L " " ++ name), .str (L "{"), .str (L "};")])
  else
    TB.mk' (.list [.str (kw ++ L " " ++ name), .str (L "{"), contents.asContent, .str (L "};")])

def structStr (kw name : Str) (contents : TB) : Str := (structBlock kw name contents).toStr

def nsSuffix (ns : Ids) : Str := if ns.isEmpty then [] else L " " ++ (Fqn.str { ids := ns })

/-- the text block `Namespace.__str__` prints -/
def namespaceBlock (ns : Ids) (contents : TB) : TB :=
  let head := L "namespace" ++ nsSuffix ns ++ L " {"
  let tail := L "} // namespace" ++ nsSuffix ns
  if contents.lines.isEmpty then TB.mk' (.list [.str (head ++ L "}")])
  else TB.mk' (.list [.str head, contents.asContent, .str tail])

/-- `str(Namespace)` -/
def namespaceStr (ns : Ids) (contents : TB) : Str := (namespaceBlock ns contents).toStr

/-- a `Comment(content)` object as content value -/
def commentOf (c : Content) : Content := .comment (contentLines c)

def systemIncludesStr (incs : List Str) : Str :=
  (TB.mk' (.list [commentOf (.str (L "System " ++ plural (L "include") incs.length)),
                   .list (incs.map (fun x => .str (L "#include <" ++ x ++ L ">")))])).toStr

def projectIncludesStr (incs : List Str) : Str :=
  (TB.mk' (.list [commentOf (.str (L "Project " ++ plural (L "include") incs.length)),
                   .list (incs.map (fun x => .str (L "#include \"" ++ x ++ L "\"")))])).toStr

structure MemberVariable where
  ty : TypeDesc
  name : Str
  deriving Repr, Inhabited

def MemberVariable.str (m : MemberVariable) : Str := m.ty.str ++ L " " ++ m.name ++ L ";"

/-- `str(AccessSpecifiedSection(spec, contents))`; `spec = none` is ANONYMOUS -/
def accessSectionStr (spec : Option Str) (contents : TB) : Str :=
  let head : TB := TB.mk' (match spec with | some s => .str s | none => .none)
  (head.add ((TB.mk' contents.asContent).indent).asContent).toStr

end CppGen
