/-
  DznModel.Json — JSON values as orjson hands them to the parser (a Python dict keeps the last of
  duplicate keys; the harness sends the loaded value, so objects here are duplicate-free).
-/
import DznModel.Py
open Py

inductive JVal
  | null
  | bool (b : Bool)
  | int (i : Int)
  | num (repr : Str)            -- a non-integer number (Python float): never an `int`
  | str (s : Str)
  | arr (l : List JVal)
  | obj (kvs : List (Str × JVal))
  deriving Repr, Inhabited

namespace JVal

/-- `key in element` / `element[key]` on a dict -/
def lookup (k : Str) : List (Str × JVal) → Option JVal
  | [] => none
  | (k', v) :: r => if k' = k then some v else lookup k r

theorem lookup_sizeOf {k : Str} {kvs : List (Str × JVal)} {v : JVal} (h : lookup k kvs = some v) :
    sizeOf v < sizeOf kvs := by
  induction kvs with
  | nil => simp [lookup] at h
  | cons p r ih =>
    obtain ⟨k', v'⟩ := p
    simp only [lookup] at h
    split at h
    · injection h with h; subst h; simp; omega
    · have := ih h; simp; omega

/-- lookup returning the size witness (used for well-founded recursion through a lookup) -/
def lookupW (k : Str) (kvs : List (Str × JVal)) : Option { v : JVal // sizeOf v < sizeOf kvs } :=
  match h : lookup k kvs with
  | none => none
  | some v => some ⟨v, lookup_sizeOf h⟩

/-- `isinstance(v, dict)` -/
def isObj : JVal → Bool
  | .obj _ => true
  | _ => false

/-- Python `==` between a JSON value and a str literal -/
def eqStr (j : JVal) (s : Str) : Bool :=
  match j with
  | .str t => t = s
  | _ => false

end JVal
