/-
  DznModel.IrParse — read the wiring IR back from generated C++ text.

  `parseCc text` recognises, in the source file of a generated shell, every statement that assigns
  to an event slot (`<obj>.in.<ev> = …` / `<obj>.out.<ev> = …`) and classifies its right-hand side
  by the templates of `Shell.Assign.render`.  It is run by the driver on the *implementation's*
  text (so that the routing specification `Spec.routing…` and the semantics `Sem` speak about
  what the real generator emitted, not about the model's own IR) and on the model's text (where
  the result must equal the model's IR: `C01.parse_render`, and checked on every case).
-/
import DznModel.ShellBuild
open Py Text Scoping Ast Shell

namespace IrParse

/-! ### small string tools (structural recursion, so that they can be reasoned about) -/

/-- `s` without the prefix `p`, if it starts with it -/
def dropPrefix? : (p s : Str) → Option Str
  | [], s => some s
  | _ :: _, [] => none
  | a :: p, b :: s => if a = b then dropPrefix? p s else none

/-- `s` without the suffix `p`, if it ends with it -/
def dropSuffix? (p s : Str) : Option Str := (dropPrefix? p.reverse s.reverse).map List.reverse

/-- split at the first occurrence of `sep`: (before, after) -/
def breakOn (sep : Str) : Str → Option (Str × Str)
  | [] => if sep.isEmpty then some ([], []) else none
  | c :: cs =>
    match dropPrefix? sep (c :: cs) with
    | some rest => some ([], rest)
    | none => (breakOn sep cs).map fun (a, b) => (c :: a, b)

/-- split at every `", "` that is not nested in `<…>` or `(…)` -/
def splitTop (s : Str) : List Str :=
  let rec go : Str → Nat → Str → List Str
    | [], _, cur => [cur.reverse]
    | ',' :: ' ' :: cs, 0, cur => cur.reverse :: go cs 0 []
    | c :: cs, d, cur =>
      let d' := if c = '<' || c = '(' then d + 1 else if c = '>' || c = ')' then d - 1 else d
      go cs d' (c :: cur)
  if s.isEmpty then [] else go s 0 []

def isIdentChar (c : Char) : Bool := c.isAlphanum || c = '_'
def isIdent (s : Str) : Bool := !s.isEmpty && s.all isIdentChar

/-! ### slots -/

def parseObj (parts : List Str) : Option PortObj :=
  match parts with
  | [x] =>
    if x = L "port" then some .local_
    else match dropSuffix? (L "()") x with
      | some mv => if isIdent mv then some (.arb mv) else none
      | none => if isIdent x then some (.bnd x) else none
  | [e, p] => if e = L "m_encapsulee" && isIdent p then some (.enc p) else none
  | _ => none

/-- `<obj>.in.<ev>` / `<obj>.out.<ev>` -/
def parseSlot (s : Str) : Option Slot :=
  match (splitChar '.' s []).reverse with
  | ev :: d :: objRev =>
    let dir? : Option EvDir := if d = L "in" then some .in_ else if d = L "out" then some .out else none
    match dir?, parseObj objRev.reverse with
    | some dir, some obj => if isIdent ev then some { obj, dir, ev } else none
    | _, _ => none
  | _ => none

/-! ### lambda heads and bodies -/

/-- one lambda parameter `<ctype>[&] <name>`; a trailing `&` of the type is the by-reference mark -/
def parseParam (s : Str) : Option LParam :=
  let r := s.reverse
  let name := (r.takeWhile (· ≠ ' ')).reverse
  let before := ((r.dropWhile (· ≠ ' ')).drop 1).reverse
  if !isIdent name || before.isEmpty then none
  else match dropSuffix? (L "&") before with
    | some t => some { ctype := t, byRef := true, name }
    | none => some { ctype := before, byRef := false, name }

/-- the text between the capture list and ` {`: empty or `(<params>)` -/
def parseParams (s : Str) : Option (List LParam) :=
  if s.isEmpty then some []
  else match dropPrefix? (L "(") s with
    | none => none
    | some t => match dropSuffix? (L ")") t with
      | none => none
      | some inner => (splitTop inner).mapM parseParam

/-- split at the last occurrence of the character `c`: (before, after) -/
def breakOnLastChar (c : Char) (s : Str) : Option (Str × Str) :=
  let r := s.reverse
  if r.contains c then
    some (((r.dropWhile (· ≠ c)).drop 1).reverse, (r.takeWhile (· ≠ c)).reverse)
  else none

/-- `<callee>(<a>, <b>)`; the arguments are plain names, so the last `(` opens the argument list -/
def parseCall (s : Str) : Option (Str × List Str) :=
  match dropSuffix? (L ")") s with
  | none => none
  | some t =>
    match breakOnLastChar '(' t with
    | none => none
    | some (callee, inner) =>
      let args := splitTop inner
      if args.all isIdent then some (callee, args) else none

/-- the by-value captures `, a, b` after `[&` -/
def parseCaptures (s : Str) : Option (List Str) :=
  if s.isEmpty then some []
  else match dropPrefix? (L ", ") s with
    | none => none
    | some t => let cs := splitTop t; if cs.all isIdent then some cs else none

inductive Stmt
  | assign (a : Assign)
  | unparsed (line : Str)
  deriving Repr, Inhabited

/-- the right-hand side of `lhs = [&]<params> {` with the given body lines (stripped) -/
def parsePlainLambda (lhs : Slot) (ps : List LParam) (body : List Str) : Option Assign :=
  match body with
  | [l] =>
    -- return dzn::shell(m_dispatcher, [&<caps>] { return <call>; });
    match dropPrefix? (L "return dzn::shell(m_dispatcher, [&") l with
    | some t =>
      (breakOn (L "] { return ") t).bind fun (caps, rest) =>
      (dropSuffix? (L "; });") rest).bind fun call =>
      (parseCaptures caps).bind fun byVal =>
      (parseCall call).bind fun (callee, args) =>
      (parseSlot callee).map fun c => { lhs, rhs := .shell c ps args byVal }
    | none =>
      -- return m_dispatcher([&<caps>] { return <call>; });
      (dropPrefix? (L "return m_dispatcher([&") l).bind fun t =>
      (breakOn (L "] { return ") t).bind fun (caps, rest) =>
      (dropSuffix? (L "; });") rest).bind fun call =>
      (parseCaptures caps).bind fun byVal =>
      (parseCall call).bind fun (callee, args) =>
      (parseSlot callee).map fun c => { lhs, rhs := .post c ps args byVal }
  | [l1, l2] =>
    -- auto lockAndData = <mv>.CurrentClient();
    -- if (lockAndData->has_value()) lockAndData->value().get().dznPort.out.<ev>(<args>);
    (dropPrefix? (L "auto lockAndData = ") l1).bind fun t =>
    (dropSuffix? (L ".CurrentClient();") t).bind fun mv =>
    (dropPrefix? (L "if (lockAndData->has_value()) lockAndData->value().get().dznPort.out.") l2).bind fun t2 =>
    (dropSuffix? (L ";") t2).bind fun call =>
    (parseCall call).bind fun (ev, args) =>
    if isIdent mv && isIdent ev then some { lhs, rhs := .mcDeliver mv ev ps args } else none
  | _ => none

/-- the right-hand side of `lhs = [&, identifier]<params> {` -/
def parseClientLambda (lhs : Slot) (ps : List LParam) (body : List Str) : Option Assign :=
  match body with
  | [l1, l2, l3] =>
    -- const auto r = <mv>.Arbitered().in.<ev>(<args>);  if (r == <grant>) <mv>.Select(identifier);  return r;
    (dropPrefix? (L "const auto r = ") l1).bind fun t =>
    (dropSuffix? (L ";") t).bind fun call =>
    (parseCall call).bind fun (callee, args) =>
    (breakOn (L ".Arbitered().in.") callee).bind fun (mv, ev) =>
    (dropPrefix? (L "if (r == ") l2).bind fun t2 =>
    (breakOn (L ") ") t2).bind fun (grant, sel) =>
    if sel = mv ++ L ".Select(identifier);" && l3 = L "return r;" && isIdent mv && isIdent ev then
      some { lhs, rhs := .mcClaim mv ev ps args grant }
    else none
  | [l1, l2] =>
    -- <mv>.Arbitered().in.<ev>(<args>);   <mv>.Deselect(identifier);
    (dropSuffix? (L ";") l1).bind fun call =>
    (parseCall call).bind fun (callee, args) =>
    (breakOn (L ".Arbitered().in.") callee).bind fun (mv, ev) =>
    if l2 = mv ++ L ".Deselect(identifier);" && isIdent mv && isIdent ev then
      some { lhs, rhs := .mcRelease mv lhs.ev ev ps args }
    else none
  | _ => none

/-- result of reading a source file -/
structure Parsed where
  ctor : List Assign := []                        -- assignments outside InitializePort bodies
  initPort : List (Str × List Assign) := []       -- per `auto port(…("<name>", …` block
  unparsed : List Str := []                       -- slot assignments that match no template
  deriving Repr, Inhabited

def Parsed.add (p : Parsed) (cur : Option Str) (a : Assign) : Parsed :=
  match cur with
  | none => { p with ctor := p.ctor ++ [a] }
  | some n =>
    match p.initPort.reverse with
    | (m, as) :: rest => if m = n then { p with initPort := (rest.reverse) ++ [(m, as ++ [a])] }
                         else { p with initPort := p.initPort ++ [(n, [a])] }
    | [] => { p with initPort := [(n, [a])] }

/-- the port name in `auto port(<CreatePort><<type>>("<name>", "<arbiter>"));` -/
def localPortName (l : Str) : Option Str :=
  (dropPrefix? (L "auto port(") l).bind fun t =>
  (breakOn (L "(\"") t).bind fun (_, rest) =>
  (breakOn (L "\"") rest).map (·.1)

/-- walk the stripped code lines -/
def walk : (fuel : Nat) → List Str → Option Str → Parsed → Parsed
  | 0, _, _, acc => acc
  | _, [], _, acc => acc
  | fuel + 1, l :: rest, cur, acc =>
    match localPortName l with
    | some n => walk fuel rest (some n) { acc with initPort := acc.initPort ++ [(n, [])] }
    | none =>
      if l = L "return port;" then walk fuel rest none acc else
      match breakOn (L " = ") l with
      | none => walk fuel rest cur acc
      | some (lhsText, rhsText) =>
        match parseSlot lhsText with
        | none => walk fuel rest cur acc
        | some lhs =>
          match dropPrefix? (L "std::ref(") rhsText with
          | some t =>
            match (dropSuffix? (L ");") t).bind parseSlot with
            | some s => walk fuel rest cur (acc.add cur { lhs, rhs := .ref s })
            | none => walk fuel rest cur { acc with unparsed := acc.unparsed ++ [l] }
          | none =>
            let body := rest.takeWhile (· ≠ L "};")
            let after := (rest.dropWhile (· ≠ L "};")).drop 1
            let lam : Option Assign :=
              match dropPrefix? (L "[&, identifier]") rhsText with
              | some t =>
                (dropSuffix? (L " {") t).bind fun pt => (parseParams pt).bind fun ps => parseClientLambda lhs ps body
              | none =>
                (dropPrefix? (L "[&]") rhsText).bind fun t =>
                (dropSuffix? (L " {") t).bind fun pt => (parseParams pt).bind fun ps => parsePlainLambda lhs ps body
            match lam with
            | some a => walk fuel after cur (acc.add cur a)
            | none => walk fuel rest cur { acc with unparsed := acc.unparsed ++ [l] }

/-- read the slot assignments of a generated shell source file -/
def parseCc (text : Str) : Parsed :=
  let ls := ((splitlines text).map strip).filter (fun l => !l.isEmpty && !(L "//").isPrefixOf l)
  walk (ls.length + 1) ls none {}

/-! ### normal form used for comparisons: the C++ type text is C07's subject, not the routing's -/

def normParam (p : LParam) : LParam :=
  match dropSuffix? (L "&") p.ctype with
  | some t => { p with ctype := t, byRef := true }
  | none => p

def eraseType (p : LParam) : LParam := { (normParam p) with ctype := [] }

def eraseH : Handler → Handler
  | .shell c ps a b => .shell c (ps.map eraseType) a b
  | .post c ps a b => .post c (ps.map eraseType) a b
  | .ref s => .ref s
  | .mcDeliver mv ev ps a => .mcDeliver mv ev (ps.map eraseType) a
  | .mcClaim mv ev ps a g => .mcClaim mv ev (ps.map eraseType) a g
  | .mcRelease mv ev c ps a => .mcRelease mv ev c (ps.map eraseType) a

end IrParse
