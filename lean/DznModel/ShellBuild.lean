/-
  DznModel.ShellBuild — second half of the adv_shell model: facilities, helper methods,
  constructor, FinalConstruct, FacilitiesCheck, the CppPorts text properties, header and source
  file assembly, `Builder.build`.
-/
import DznModel.Shell
open Py Text Scoping Ast AstView PortSel CppGen Support

namespace Shell

/-! ### facilities -/

structure Facilities where
  origin : Origin
  dispatcher : MemberVariable
  runtime : Option MemberVariable
  locator : Option MemberVariable
  locatorAccessor : Option Function
  deriving Repr, Inhabited

def fqnOf (ids : List Str) : Fqn := { ids }

def createFacilities (o : Origin) (structName : Str) : Facilities :=
  match o with
  | .import_ =>
    { origin := o, dispatcher := { ty := { fqn := fqnOf [L "dzn", L "pump"], pfix := .ref }, name := L "m_dispatcher" },
      runtime := none, locator := none, locatorAccessor := none }
  | .create =>
    { origin := o,
      dispatcher := { ty := { fqn := fqnOf [L "dzn", L "pump"] }, name := L "m_dispatcher" },
      runtime := some { ty := { fqn := fqnOf [L "dzn", L "runtime"] }, name := L "m_runtime" },
      locator := some { ty := { fqn := fqnOf [L "dzn", L "locator"] }, name := L "m_locator" },
      locatorAccessor := some { ret := { fqn := fqnOf [L "dzn", L "locator"], pfix := .ref }, name := L "Locator",
                                scope := some structName, contents := .str (L "return m_locator;") } }

def Facilities.accessorsDecl (f : Facilities) : TB :=
  let fns := f.locatorAccessor.toList
  let accessors : Content := if fns.isEmpty then commentC (L "<none>") else strsC (fns.map Function.asDecl)
  TB.mk' (.list [commentC (L "Facility " ++ plural (L "accessor") fns.length), accessors])

def Facilities.accessorsDef (f : Facilities) : Option TB :=
  match f.locatorAccessor with
  | some fn => some (TB.mk' (strsC [fn.asDef]))
  | none => none

def Facilities.memberVariables (f : Facilities) : TB :=
  let mvs := (f.runtime.toList ++ [f.dispatcher] ++ f.locator.toList).map MemberVariable.str
  TB.mk' (.list [commentC (L "Facilities"), strsC mvs])

def Facilities.systemIncludes (f : Facilities) : List Str :=
  [L "dzn/locator.hh", L "dzn/pump.hh"] ++ (if f.runtime.isSome then [L "dzn/runtime.hh"] else [])

/-! ### CppPorts -/

def mtsPorts (ps : List CppPortItf) : List CppPortItf := ps.filter (·.dzn.sem = .mts)
def stsPorts (ps : List CppPortItf) : List CppPortItf := ps.filter (·.dzn.sem = .sts)

/-- `CppPorts.direction`: the `.value` of the common direction, `?` when there is no port -/
def portsDirection (ps : List CppPortItf) : Str :=
  match ps with
  | [] => L "?"
  | p :: _ => portDirValue p.dzn.port.dir

def lowerAscii (s : Str) : Str := s.map Char.toLower

def accessorsDecl (ps : List CppPortItf) : TB :=
  if ps.isEmpty then {} else
  TB.mk' (.list [commentC (portsDirection ps ++ L " port " ++ plural (L "accessor") ps.length),
                  strsC (ps.map (·.accessor.asDecl))])

def accessorsDef (ps : List CppPortItf) : TB :=
  if ps.isEmpty then {} else TB.mk' (.str (join (L "\n") (ps.map (·.accessor.asDef))))

/-- `CppPorts.rerouting_class_members` -/
def reroutingClassMembers (ps : List CppPortItf) : TB :=
  let plain := ps.filter (fun p => p.memberVar.isSome && !p.isMc)
  let mc := ps.filter (fun p => p.memberVar.isSome && p.isMc)
  let mvStrs := fun (l : List CppPortItf) => l.filterMap (fun p => p.memberVar.map MemberVariable.str)
  let dirL := lowerAscii (portsDirection ps)
  let tb1 : TB :=
    if ps.isEmpty then {} else
      ({} : TB).append (.list [commentC (L "Boundary " ++ dirL ++ L "-" ++ plural (L "port") plain.length ++
                                         L " (MTS) to reroute inwards events"),
                               (if (mvStrs plain).isEmpty then commentC (L "<none>") else strsC (mvStrs plain))])
  if (mvStrs mc).isEmpty then tb1
  else
    let tb2 : TB := TB.mk' (.list [commentC (L "Boundary " ++ dirL ++ L "-" ++ plural (L "port") mc.length ++
                        L " (MTS) to reroute inwards events and redirect outwards events to multi clients"),
                      strsC (mvStrs mc)])
    TB.mk' (.list [tb1.asContent, .str (L "\n"), tb2.asContent])

/-! ### helper methods of multi-client ports -/

structure Helpers where
  label : Str
  pub : List Function
  priv : List Function
  deriving Repr, Inhabited

def helpersDecl (label : Str) (fns : List Function) : Option TB :=
  let helpers := flatten true (strsC (fns.map Function.asDecl))
  if helpers.isEmpty then none
  else if !label.isEmpty then
    some (TB.mk' (.list [commentC (label ++ L " " ++ plural (L "helper") helpers.length), strsC helpers]))
  else some (TB.mk' (.list [strsC helpers]))

def helpersDef (fns : List Function) : Option TB :=
  let helpers := flatten true (strsC (fns.map Function.asDef))
  if helpers.isEmpty then none else some (TB.mk' (.list [strsC helpers]))

/-- `create_cpp_port_helpers` (also yields the InitializePort assignments for the IR) -/
def createHelpers (fc : FC) (ps : List CppPortItf) (sfns : Ids) (structName : Str) :
    R (Helpers × List (Str × List Assign)) := do
  let mut pub : List Function := []
  let mut priv : List Function := []
  let mut inits : List (Str × List Assign) := []
  for p in ps do
    match p.dzn.mc with
    | none => pure ()
    | some mc =>
      let ci : Fqn := { ids := sfns ++ [L "ClientIdentifier"], root := true }
      pub := pub ++ [{ ret := { fqn := fqnOf [L "std", L "vector"], targ := some ci },
                       name := L "Get" ++ p.capName ++ L "ClientIdentifiers", scope := some structName,
                       contents := .str (L "return " ++ p.target ++ L ".GetClientIdentifiers();"),
                       cav := L "const" }]
      let as ← initializePortAssigns fc p mc
      inits := inits ++ [(p.name, as)]
      priv := priv ++ [{ ret := { fqn := { ids := p.dzn.itf.fqn, root := true } },
                         name := L "InitializePort" ++ p.capName,
                         params := [constParamRef ci (L "identifier")], scope := some structName,
                         contents := .str (initializePortImpl p sfns as) }]
  pure ({ label := L "Provides port", pub, priv }, inits)

/-! ### constructor -/

def dashes45 : Str := List.replicate 45 '-'

/-- `create_constructor`: returns the Constructor, the member-initialiser list and the assignments -/
def createConstructor (fc : FC) (structName : Str) (fac : Facilities) (pp rp : List CppPortItf)
    (sfns : Ids) : R (Constructor × List Assign) := do
  let locatorFqn := fqnOf [L "dzn", L "locator"]
  let (pLocator, mil0) : Param × List Str :=
    match fac.origin with
    | .create =>
      (constParamRef locatorFqn (L "prototypeLocator"),
       [L "m_locator(std::move(FacilitiesCheck(prototypeLocator).clone().set(m_runtime).set(m_dispatcher)))",
        L "m_encapsulee(m_locator)"])
    | .import_ =>
      (constParamRef locatorFqn (L "locator"),
       [L "m_dispatcher(FacilitiesCheck(locator).get<dzn::pump>())", L "m_encapsulee(locator)"])
  let hasMc := pp.any (·.isMc)
  let pLog : Option Param :=
    if hasMc then some (constParamRef { ids := sfns ++ [L "ILog"], root := true } (L "multiclientLog")) else none
  let pName := constParamRef (fqnOf [L "std", L "string"]) (L "encapsuleeInstanceName") (L "\"\"")
  let mtsPP := mtsPorts pp
  let mtsRP := mtsPorts rp
  let mvName := fun (p : CppPortItf) => (p.memberVar.map (·.name)).getD []
  let milPP := mtsPP.map fun p =>
    if p.isMc then
      mvName p ++ L "(multiclientLog, \"" ++ p.name ++ L "\", [this](const auto& identifier) { return InitializePort" ++
        p.capName ++ L "(identifier); })"
    else mvName p ++ L "(m_encapsulee." ++ p.name ++ L ")"
  let milRP := mtsRP.map fun p => mvName p ++ L "(m_encapsulee." ++ p.name ++ L ")"
  let mil := mil0 ++ milPP ++ milRP
  -- the assignments, in the order the lookups are performed
  let inPlain ← (mtsPP.filter (!·.isMc)).mapM (rerouteInEvents fc)
  let outReq ← mtsRP.mapM (rerouteOutEvents fc)
  let inMc ← (mtsPP.filter (·.isMc)).mapM (rerouteInEvents fc)
  let outMc ← (mtsPP.filter (·.isMc)).mapM (rerouteMcOutEvents fc)
  let refProvOut := (mtsPP.filter (!·.isMc)).map stdrefProvidesOut
  let refReqIn := mtsRP.map stdrefRequiresIn
  let refEncOut := (mtsPP.filter (·.isMc)).map stdrefEncapsuleeOut
  let texts := fun (ls : List (List Assign)) => optStrs (ls.map assignsText)
  let none' : Content := .none
  let contents : TB := TB.mk' (.list [
    optTB (chunk (.list [commentC (L "Complete the component meta info of the encapsulee and its ports that are configured for MTS"),
                         .str (L "m_encapsulee.dzn_meta.name = encapsuleeInstanceName;"),
                         strsC (mtsPP.map fun p => L "m_encapsulee." ++ p.name ++ L ".meta.require.name = \"" ++ p.name ++ L "\";"),
                         strsC (mtsRP.map fun p => L "m_encapsulee." ++ p.name ++ L ".meta.provide.name = \"" ++ p.name ++ L "\";")])),
    optTB (chunk (commentOf (strsC [L "Boundary provides ports (MTS) initialization:", dashes45]))),
    optTB (condChunk none' (commentOf (if mtsPP.isEmpty then .str (L "<None>") else .none)) none' (allOrNothing := true)),
    optTB (condChunk (commentC (L "Reroute in-events of boundary provides ports (MTS) via the dispatcher to the encapsulee"))
            (texts inPlain) none' (allOrNothing := true)),
    optTB (condChunk (commentC (L "Reference out-events of boundary provides ports (MTS) to the respective ports of the encapsulee"))
            (texts refProvOut) none' (allOrNothing := true)),
    optTB (condChunk (commentC (L "Reroute in-events of the internal arbitered multiclient port via the dispatcher to the encapsulee"))
            (texts inMc) none' (allOrNothing := true)),
    optTB (condChunk (commentC (L "Reroute out-events of the internal arbitered multiclient port via the MultiClientSelector facility to the current Client having the claim"))
            (texts outMc) none' (allOrNothing := true)),
    optTB (condChunk (commentC (L "Reference out-events of the encapsulee to the internal arbitered multiclient port"))
            (strsC ((refEncOut.flatten).map Assign.render)) none' (allOrNothing := true)),
    optTB (chunk (commentOf (strsC [L "Boundary requires ports (MTS) initialization:", dashes45]))),
    optTB (condChunk none' (commentOf (if mtsRP.isEmpty then .str (L "<None>") else .none)) none' (allOrNothing := true)),
    optTB (condChunk (commentC (L "Reroute out-events of boundary requires ports (MTS) via the dispatcher"))
            (texts outReq) none' (allOrNothing := true)),
    optTB (condChunk (commentC (L "Reference in-events of boundary requires ports (MTS) to the respective ports of the encapsulee"))
            (texts refReqIn) none' (appendix := .none) (allOrNothing := true))])
  let ctor : Constructor :=
    { scope := structName, params := [pLocator] ++ pLog.toList ++ [pName], mil,
      contents := .str (contents.trim).toStr }
  let assigns := inPlain.flatten ++ refProvOut.flatten ++ inMc.flatten ++ outMc.flatten ++ refEncOut.flatten ++
                 outReq.flatten ++ refReqIn.flatten
  pure (ctor, assigns)

/-- `create_final_construct_fn` -/
def createFinalConstructFn (structName : Str) (pp rp : List CppPortItf) : Function × List Str :=
  let param := constParamPtr (fqnOf [L "dzn", L "meta"]) (L "parentComponentMeta") (L "nullptr")
  let fcCalls := (pp.filter (·.isMc)).map fun p => p.target ++ L ".FinalConstruct();"
  let checks := ((pp.filter (!·.isMc)).map fun p => p.target ++ L ".check_bindings();") ++
                (rp.map fun p => p.target ++ L ".check_bindings();")
  let tailStmts := [L "m_encapsulee.dzn_meta.parent = parentComponentMeta;", L "m_encapsulee.check_bindings();"]
  let contents : TB := TB.mk' (.list [
    (if fcCalls.isEmpty then .none
     else .list [commentC (L "Call final construct on multiclient " ++ plural (L "port") fcCalls.length),
                 strsC fcCalls, .str (L "\n")]),
    commentC (L "Check the bindings of all boundary ports"),
    strsC ((pp.filter (!·.isMc)).map fun p => p.target ++ L ".check_bindings();"),
    strsC (rp.map fun p => p.target ++ L ".check_bindings();"),
    .str (L "\n"),
    commentC (L "Complete the encapsulated component meta information and check the bindings of all encapsulee ports"),
    .str (L "m_encapsulee.dzn_meta.parent = parentComponentMeta;"),
    .str (L "m_encapsulee.check_bindings();")])
  ({ ret := { fqn := fqnOf [L "void"] }, name := L "FinalConstruct", scope := some structName,
     params := [param], contents := contents.asContent },
   fcCalls ++ checks ++ tailStmts)

/-- `create_facilities_check_fn` -/
def createFacilitiesCheckFn (structName : Str) (o : Origin) : Function :=
  let param := constParamRef (fqnOf [L "dzn", L "locator"]) (L "locator")
  let contents : TB :=
    match o with
    | .create => TB.mk' (.list [
        commentC (L "This class creates the required facilities. But in case the user provided locator argument already contains some or\nall facilities, it indicates an execution deployment error. Important: each threaded subsystem has its own exclusive\ninstances of the dispatcher and dezyne runtime facilities. They can never be shared with other threaded subsystems."),
        .str (L "\n"),
        .str (L "if (locator.try_get<dzn::pump>() != nullptr) throw std::runtime_error(\"" ++ structName ++ L ": Overlapping dispatcher found (dzn::pump)\");"),
        .str (L "if (locator.try_get<dzn::runtime>() != nullptr) throw std::runtime_error(\"" ++ structName ++ L ": Overlapping Dezyne runtime found (dzn::runtime)\");"),
        .str (L "\n"),
        .str (L "return locator;")])
    | .import_ => TB.mk' (.list [
        commentC (L "This class imports the required facilities that must be provided by the user via the locator argument."),
        .str (L "\n"),
        .str (L "if (locator.try_get<dzn::pump>() == nullptr) throw std::runtime_error(\"" ++ structName ++ L ": Dispatcher missing (dzn::pump)\");"),
        .str (L "if (locator.try_get<dzn::runtime>() == nullptr) throw std::runtime_error(\"" ++ structName ++ L ": Dezyne runtime missing (dzn::runtime)\");"),
        .str (L "\n"),
        .str (L "return locator;")])
  { ret := param.ty, name := L "FacilitiesCheck", params := [param], pfx := .static, scope := some structName,
    contents := contents.asContent }

/-! ### header comment pieces -/

def originValue : Origin → Str | .import_ => Lit.originImport | .create => Lit.originCreate

def creatorInfoOverview (cfg : Config) : Str :=
  (TB.mk' (.list [.str (L "Creator information:"),
                   (if truthy cfg.creatorInfo then ((TB.mk' cfg.creatorInfo).indent).asContent else .str (L "<none>"))])).toStr

def configurationOverview (cfg : Config) (orig target : Str) : Str :=
  (TB.mk' (.list [.str (L "User configuration:"),
                   .str (L "- Encapsulee FQN: " ++ dotted cfg.encapsulee),
                   .str (L "- Source file basename: " ++ orig),
                   .str (L "- Target file basename: " ++ target),
                   .str (L "- Dezyne facilities: " ++ originValue cfg.origin),
                   .str (L "- Ports" ++ (if cfg.ports.multiclient.isSome then [] else L " (none multiclient)") ++ L ":"),
                   ((TB.mk' (.obj (TB.mk' (strsC cfg.ports.strLines)).toStr)).indent).asContent])).toStr

def mcFixtureStr (m : McFixture) : Str :=
  L "claim_event=" ++ m.claimEvent.name ++ L ", claim_granting_reply=" ++ dotted m.grant ++
  L ", release_event=" ++ m.releaseEvent.name

def portInfo (ps : List CppPortItf) (label : Str) : Option TB :=
  if ps.isEmpty then none else
  let all := ps.map fun p =>
    let itfName := dotted p.dzn.itf.name
    let itfStr := match p.dzn.mc with
      | some m => L "*MultiClient* " ++ itfName ++ L " (with " ++ mcFixtureStr m ++ L ")"
      | none => itfName
    L "> " ++ p.name ++ L ": " ++ itfStr
  chunk (TB.mk' (.list [.str (L "- " ++ label ++ L ":"), ((TB.mk' (strsC all)).indent).asContent])).asContent

def finalPortOverview (pp rp : List CppPortItf) : Str :=
  (TB.mk' (.list [.str (L "Final configuration:"),
                   optTB (portInfo (stsPorts pp) (L "Provides ports (Single-threaded)")),
                   optTB (portInfo (mtsPorts pp) (L "Provides ports (Multi-threaded)")),
                   optTB (portInfo (stsPorts rp) (L "Requires ports (Single-threaded)")),
                   optTB (portInfo (mtsPorts rp) (L "Requires ports (Multi-threaded)"))])).toStr

def encapsuleeStr (enc : Decl) : Str :=
  let mv : MemberVariable := { ty := { fqn := { ids := enc.fqn, root := true } }, name := L "m_encapsulee" }
  (TB.mk' (.list [commentC (L "The encapsulated component \"" ++ dotted enc.name ++ L "\""), .obj mv.str])).toStr

/-! ### Builder.build -/

structure BuildResult where
  files : List File
  ir : ShellIR
  allPorts : List (Port × InterfaceD) := []
  grantIndex : Option Nat := none
  deriving Repr, Inhabited

/-- the six support files for a namespace prefix (`SupportFiles.as_list()`) -/
def supportFiles (pfx : Option Ids) : List File := Kind.all.map (fun k => createHeader k pfx)

structure ShellFiles where
  hh : File
  cc : File
  ir : ShellIR
  allPorts : List (Port × InterfaceD)
  grantIndex : Option Nat

/-- the quoted includes of the shell header: the Dezyne-generated header of the model file, the
    strict-port support header and, for a multi-client shell, the log and selector support headers -/
def shellProjectIncludes (cfg : Config) (orig : Str) : List Str :=
  [orig ++ L ".hh", (createHeader .strictPort cfg.pfx).filename] ++
  (if cfg.ports.multiclient.isSome then
    [(createHeader .ilog cfg.pfx).filename, (createHeader .multiClientSelector cfg.pfx).filename] else [])

/-- everything `Builder.build` does except collecting the result list -/
def buildShell (fc : FC) (cfg : Config) : R ShellFiles := do
  -- prechecks
  let found := findFqn fc cfg.encapsulee
  if found.isEmpty then adv else
  let enc ← getSingle found
  let de ← createDznElements cfg fc enc
  let scope := de.scope
  let orig := getBasename cfg.dezyneFilename
  let shellName := orig ++ cfg.suffix
  if shellName.isEmpty then .error (.lib .CppGenError) else      -- Struct('') is refused
  let sfns := (distillateNs cfg.pfx).1
  let fileOf := fun (k : Kind) => (createHeader k cfg.pfx).filename
  let pp ← de.provides.mapM (fun d => createCppPortItf d shellName sfns)
  let rp ← de.requires.mapM (fun d => createCppPortItf d shellName sfns)
  let (helpers, inits) ← createHelpers fc pp sfns shellName
  let fac := createFacilities cfg.origin shellName
  let (ctor, assigns) ← createConstructor fc shellName fac pp rp sfns
  let (finalFn, finalStmts) := createFinalConstructFn shellName pp rp
  let checkFn := createFacilitiesCheckFn shellName cfg.origin
  -- header file
  let headerComments : Content := commentOf (.list [cfg.copyright, .str (L "\n"), .str (L "Advanced Shell"), .str (L "\n"),
      .str (creatorInfoOverview cfg), .str (L "\n"), .str (configurationOverview cfg orig shellName), .str (L "\n"),
      .str (finalPortOverview pp rp), .str Lit.doNotModify])
  let projIncludes := shellProjectIncludes cfg orig
  let header : Content := .list [headerComments, .str (L "\n"), .obj (systemIncludesStr fac.systemIncludes),
      .obj (projectIncludesStr projIncludes), .str (L "\n")]
  let publicSection : Content := .list [
      optTB (chunk (strsC [ctor.asDecl, finalFn.asDecl])),
      optTB (chunk fac.accessorsDecl.asContent),
      optTB (chunk (accessorsDecl pp).asContent),
      optTB (chunk (optTB (helpersDecl helpers.label helpers.pub))),
      optTB (chunk (accessorsDecl rp).asContent)]
  let privateSection : Content := .list [
      optTB (chunk (.list [fac.memberVariables.asContent, .str checkFn.asDecl])),
      optTB (chunk (.obj (encapsuleeStr enc))),
      optTB (chunk (reroutingClassMembers pp).asContent),
      optTB (chunk (optTB (helpersDecl helpers.label helpers.priv))),
      optTB (chunk (reroutingClassMembers rp).asContent)]
  let structContents : TB := TB.mk' (.list [
      .obj (accessSectionStr none (TB.mk' publicSection)),
      .obj (accessSectionStr (some (L "private:")) (TB.mk' privateSection))])
  let structText := structStr (L "struct") shellName structContents
  let footer : Content := commentC (L "Generated by: dznpy/adv_shell v" ++ Lit.version)
  let hh : File :=
    { filename := shellName ++ L ".hh",
      contents := (TB.mk' (.list [header, .obj (namespaceStr scope (TB.mk' (.str structText))), footer])).toStr }
  -- source file
  let srcComments : Content := commentOf (.list [cfg.copyright, .str (L "\n"), .str (L "Advanced Shell"), .str (L "\n"),
      .str Lit.doNotModify])
  let srcHeader : Content := .list [srcComments, .str (L "\n"), .obj (systemIncludesStr [L "dzn/runtime.hh"]),
      .obj (projectIncludesStr [shellName ++ L ".hh"]), .str (L "\n")]
  let nsContents : TB := TB.mk' (.list [.str (L "\n"),
      optTB (chunk (.str checkFn.asDef)),
      optTB (chunk (.str ctor.asDef)),
      optTB (chunk (.str finalFn.asDef)),
      optTB (chunk (optTB fac.accessorsDef)),
      optTB (chunk (accessorsDef pp).asContent),
      optTB (chunk (optTB (helpersDef helpers.pub))),
      optTB (chunk (accessorsDef rp).asContent),
      optTB (chunk (optTB (helpersDef helpers.priv)))])
  let cc : File :=
    { filename := shellName ++ L ".cc",
      contents := (TB.mk' (.list [srcHeader, .obj (namespaceStr scope nsContents), footer])).toStr }
  let ir : ShellIR :=
    { structName := shellName, ns := scope, sfns, origin := cfg.origin, provides := pp, requires := rp,
      mil := ctor.mil, ctorAssigns := assigns, initPort := inits, finalConstruct := finalStmts }
  pure { hh, cc, ir, allPorts := de.allPorts,
         grantIndex := (de.provides.findSome? (·.mc)).map (·.grantIndex) }

/-- `Builder.build(cfg)`: shell header, shell source and the six support files -/
def build (fc : FC) (cfg : Config) : R BuildResult := do
  let s ← buildShell fc cfg
  pure { files := [s.hh, s.cc] ++ supportFiles cfg.pfx, ir := s.ir, allPorts := s.allPorts,
         grantIndex := s.grantIndex }

end Shell
