/-
  DznModel.AstView — model of dznpy/ast_view.py: find_fqn, find_any, FindResult, portnames_t.
-/
import DznModel.Ast
open Py Scoping Ast

namespace AstView

/-- `find_fqn(fct, ns_ids, as_of_inner_scope)`: per container, per element, the element is taken
    (once) when its fqn equals one of the lookups of the resolution order -/
def findFqn (f : FC) (name : Ids) (scope : Ids := []) : List Decl :=
  let order := scopeResolutionOrder name scope
  f.decls.filter (fun d => order.any (fun q => d.fqn = q))

/-- `items[-n:] == ends.items` (note `l[-0:]` is the whole list) -/
def pyEndsWith (fqn ends : Ids) : Bool :=
  let n := ends.length
  (if n = 0 then fqn else fqn.drop (fqn.length - n)) = ends

/-- `find_any(fct, endswith_ids)` -/
def findAny (f : FC) (ends : Ids) : List Decl := f.decls.filter (fun d => pyEndsWith d.fqn ends)

/-- `FindResult.get_single_instance(ast_typehint)`; `want` is the kind test (none = no hint) -/
def getSingle (items : List Decl) (want : Option (Decl → Bool) := none) : R Decl :=
  match items with
  | [] => .error (.lib .FindError)
  | [d] =>
    match want with
    | none => .ok d
    | some p => if p d then .ok d else .error (.lib .FindError)
  | _ => .error (.lib .FindError)

def isInterface : Decl → Bool | .interface _ => true | _ => false
def isEnum : Decl → Bool | .enum _ => true | _ => false
def isExtern : Decl → Bool | .extern _ => true | _ => false

/-- the `ast_typehint` argument of `FindResult.has_one_instance` / `get_single_instance`:
    absent, one of the seven valid classes (by its kind name), or some other class -/
inductive Hint | absent | kind (k : String) | invalid
  deriving Repr, Inhabited, DecidableEq

/-- `FindResult.has_one_instance(ast_typehint)` -/
def hasOne (items : List Decl) (h : Hint) : R Bool :=
  match items with
  | [d] =>
    match h with
    | .absent => .ok true
    | .invalid => .error (.lib .FindError)
    | .kind k => .ok (d.kind == k)
  | _ => .ok false

/-- `FindResult.get_single_instance(ast_typehint)` for every hint -/
def getSingleH (items : List Decl) (h : Hint) : R Decl :=
  match items with
  | [] => .error (.lib .FindError)
  | [d] =>
    match h with
    | .absent => .ok d
    | .invalid => .error (.lib .FindError)
    | .kind k => if d.kind == k then .ok d else .error (.lib .FindError)
  | _ => .error (.lib .FindError)

end AstView
