/-
  DznModel.Conc — interleaving model of the generated multi-client support under threads (C11):
  N client threads running claim / use / release cycles through the shell, one dispatcher thread
  executing the forwarded calls against an arbiter component (grants iff free) and raising
  out-events, the MultiClientSelector's selection protected by the MutexWrapped lock.
  Atomic steps are the ones between which real threads can interleave: posting a call to the
  dispatcher, the dispatcher executing one queued call, lock acquire, one access of the selection
  under the lock, lock release.  Not exhibited: the C++ memory model, std::mutex itself (assumed
  to be a lock), the real dzn::pump, user handlers that block.
-/
import DznModel.Py

namespace Conc

abbrev Client := Nat

/-- who can own the selector lock -/
inductive Thread | client (c : Client) | dispatcher
  deriving DecidableEq, Repr, Inhabited

/-- where a client thread is in its cycle -/
inductive Pc
  | idle                    -- about to claim
  | waitClaim               -- claim posted via dzn::shell, blocked until the dispatcher ran it
  | granted                 -- claim returned the granting reply: about to Select (lock not yet taken)
  | selLocked               -- inside Select, holding the lock, selection not yet written
  | selWritten              -- selection written, lock still held
  | holding                 -- Select returned: the client holds the claim and uses the port
  | waitRelease             -- release posted via dzn::shell, blocked
  | released                -- release returned: about to Deselect (lock not yet taken)
  | deselLocked             -- inside Deselect, holding the lock
  | deselWritten            -- selection cleared, lock still held
  deriving DecidableEq, Repr, Inhabited

inductive Call | claim (c : Client) | release (c : Client) | out
  deriving DecidableEq, Repr, Inhabited

/-- progress of the dispatcher inside one out-event delivery -/
inductive DPc | idle | outLocked | outDelivered
  deriving DecidableEq, Repr, Inhabited

structure State where
  n : Nat                             -- number of client threads
  pcs : Client → Pc                   -- per client
  queue : List Call := []             -- the dispatcher's FIFO
  busy : Bool := false                -- the arbiter component: somebody holds the resource
  selected : Option Client := none    -- MultiClientSelector's ClientSelect
  lock : Option Thread := none        -- MutexWrapped's mutex
  dpc : DPc := .idle
  deliveries : List (Option Client × List Client) := []
      -- log: (recipient, clients that were in `holding` at that moment), newest first
  outsLeft : Nat := 0                 -- out-events the component will still raise

inductive Action
  | postClaim (c : Client) | postRelease (c : Client) | raiseOut
  | dispatch                      -- the dispatcher executes / continues the head of its queue
  | clientStep (c : Client)       -- the client performs its next selector micro-step
  deriving DecidableEq, Repr, Inhabited

@[reducible] def pcOf (s : State) (c : Client) : Pc := s.pcs c
def setPc (s : State) (c : Client) (p : Pc) : State :=
  { s with pcs := fun d => if d = c then p else s.pcs d }

def holders (s : State) : List Client :=
  (List.range s.n).filter (fun c => pcOf s c = .holding)

/-- is the action enabled? -/
def enabled (s : State) : Action → Bool
  | .postClaim c => c < s.n && pcOf s c = .idle
  | .postRelease c => c < s.n && pcOf s c = .holding
  | .raiseOut => s.outsLeft > 0
  | .dispatch =>
    match s.dpc with
    | .idle =>
      (match s.queue with
       | [] => false
       | .out :: _ => s.lock = none            -- CurrentClient(): needs the lock
       | _ :: _ => true)
    | .outLocked => true
    | .outDelivered => true
  | .clientStep c =>
    c < s.n &&
    (match pcOf s c with
     | .granted => s.lock = none
     | .selLocked => true
     | .selWritten => true
     | .released => s.lock = none
     | .deselLocked => true
     | .deselWritten => true
     | _ => false)

/-- `foreignDeselect = true` is the code as it is: `Deselect(id)` clears the selection whoever holds
    it (finding D-9); `false` is the specified behaviour (only the holder's own selection is cleared) -/
def step (asIs : Bool) (s : State) : Action → State
  | .postClaim c => { setPc s c .waitClaim with queue := s.queue ++ [.claim c] }
  | .postRelease c => { setPc s c .waitRelease with queue := s.queue ++ [.release c] }
  | .raiseOut => { s with queue := s.queue ++ [.out], outsLeft := s.outsLeft - 1 }
  | .dispatch =>
    match s.dpc with
    | .idle =>
      (match s.queue with
       | [] => s
       -- a forwarded call completes for the thread that is blocked on it (dzn::shell): the guards
       -- `pc = waitClaim / waitRelease` hold on every reachable state by construction of postClaim /
       -- postRelease; a call of a thread that is not waiting would simply be dropped
       | .claim c :: rest =>
         if pcOf s c ≠ .waitClaim then { s with queue := rest }
         else if s.busy then { setPc s c .idle with queue := rest }       -- denied: retry later
         else { setPc s c .granted with queue := rest, busy := true }
       | .release c :: rest =>
         if pcOf s c ≠ .waitRelease then { s with queue := rest }
         else { setPc s c .released with queue := rest, busy := false }
       | .out :: _ => { s with lock := some .dispatcher, dpc := .outLocked })
    | .outLocked =>
      { s with dpc := .outDelivered, deliveries := (s.selected, holders s) :: s.deliveries }
    | .outDelivered => { s with dpc := .idle, lock := none, queue := s.queue.drop 1 }
  | .clientStep c =>
    match pcOf s c with
    | .granted => { setPc s c .selLocked with lock := some (.client c) }
    | .selLocked => { setPc s c .selWritten with selected := some c }
    | .selWritten => { setPc s c .holding with lock := none }
    | .released => { setPc s c .deselLocked with lock := some (.client c) }
    | .deselLocked =>
      { setPc s c .deselWritten with
        selected := if asIs then none else (if s.selected = some c then none else s.selected) }
    | .deselWritten => { setPc s c .idle with lock := none }
    | _ => s

def allActions (s : State) : List Action :=
  (List.range s.n).flatMap (fun c => [.postClaim c, .postRelease c, .clientStep c]) ++
  [.raiseOut, .dispatch]

def enabledActions (s : State) : List Action := (allActions s).filter (enabled s)

def run (asIs : Bool) (s : State) : List Action → State
  | [] => s
  | a :: as => if enabled s a then run asIs (step asIs s a) as else run asIs s as

def init (n outs : Nat) : State := { n, pcs := fun _ => .idle, outsLeft := outs }

/-- every delivery went to the client that held the claim at that moment (if exactly one did) -/
def deliveriesOk (s : State) : Bool :=
  s.deliveries.all fun (rcpt, hs) =>
    match hs with
    | [h] => rcpt = some h
    | _ => true

/-! ### MutexWrapped: the lock-and-data handle (unique_ptr with RaiiLockDeleter) -/

structure Mutex where
  locked : Bool := false
  deriving DecidableEq, Repr, Inhabited

/-- a handle either owns the lock or was reset -/
structure Handle where
  owns : Bool
  deriving DecidableEq, Repr, Inhabited

/-- `operator()`: blocks until the mutex is free, then locks it -/
def acquire (m : Mutex) : Option (Mutex × Handle) :=
  if m.locked then none else some ({ locked := true }, { owns := true })

/-- `handle.reset()` -/
def Handle.reset (h : Handle) (m : Mutex) : Mutex × Handle :=
  if h.owns then ({ locked := false }, { owns := false }) else (m, h)

/-- scope exit: the deleter runs once, unlocking if the lock is still owned -/
def Handle.scopeExit (h : Handle) (m : Mutex) : Mutex := (h.reset m).1

end Conc
