/-
  DznModel.Text — model of dznpy/misc_utils.py (flatten_to_strlist, trim_list, plural) and
  dznpy/text_gen.py (Indentizer, TextBlock, chunk, cond_chunk) and cpp_gen.Comment.
  The model mirrors the code as it is, including its failure modes.
-/
import DznModel.Py
open Py

namespace Text

/-! ### Indentizer -/

inductive Indentor | spaces (n : Nat) | tab
  deriving DecidableEq, Repr, Inhabited

inductive BulletMode | all | firstOnly
  deriving DecidableEq, Repr, Inhabited

structure Indentizer where
  indentor : Indentor := .spaces 4
  bullet : Option (BulletMode × Str) := none
  deriving DecidableEq, Repr, Inhabited

/-- `_bulletized_indent` of `Indentizer.__post_init__` -/
def Indentizer.bulletized (i : Indentizer) : Str :=
  match i.bullet with
  | none => []
  | some (_, glyph) =>
    match i.indentor with
    | .spaces n => ljust (glyph ++ [' ']) n
    | .tab => glyph ++ ['\t']

/-- `_whitespace` of `Indentizer.__post_init__` -/
def Indentizer.whitespace (i : Indentizer) : Str :=
  match i.indentor with
  | .tab => ['\t']
  | .spaces n =>
    match i.bullet with
    | none => spaces n
    | some _ => spaces i.bulletized.length

def Indentizer.onlyIndent (i : Indentizer) (line : Str) : Str :=
  if isBlank line then [] else i.whitespace ++ line

/-- `Indentizer.to_list` applied to an already flat list of strings (C18 quantifies over line
    sequences; `to_list` does not split). -/
def Indentizer.toListFlat (i : Indentizer) (ls : List Str) : List Str :=
  match i.bullet with
  | some (.all, _) => ls.map (fun l => strip (i.bulletized ++ l))
  | some (.firstOnly, _) =>
    match ls with
    | [] => []
    | l :: rest => strip (i.bulletized ++ l) :: rest.map i.onlyIndent
  | none => ls.map i.onlyIndent

/-- the Comment indentizer: `Indentizer(spaces_count=3, bullet_list=BulletList(glyph='//'))` -/
def commentIndentizer : Indentizer := { indentor := .spaces 3, bullet := some (.all, L "//") }

/-! ### content trees -/

/-- What can be put into a TextBlock.  `tb`/`comment` are TextBlock / cpp_gen.Comment *objects*
    (header lines, content lines); `obj` is any other object, represented by its `str()`. -/
inductive Content
  | str (s : Str)
  | int (i : Int)
  | bool (b : Bool)
  | none
  | list (l : List Content)
  | dict (l : List (Str × Content))
  | tb (header : List Str) (lines : List Str)
  | comment (lines : List Str)
  | obj (s : Str)
  deriving Repr, Inhabited

/-- `str(TextBlock)` -/
def tbStr (header lines : List Str) : Str :=
  let combined := header ++ lines
  if combined.isEmpty then [] else join ['\n'] combined ++ ['\n']

/-- the lines of `str(Comment)`: a deep copy is indented with the comment indentizer -/
def commentLines (lines : List Str) : List Str := commentIndentizer.toListFlat lines

def commentStr (lines : List Str) : Str := tbStr [] (commentLines lines)

/-- `str(value)` for the non-str, non-container leaves -/
def leafStr : Content → Str
  | .int i => intToStr i
  | .bool b => boolToStr b
  | .tb h ls => tbStr h ls
  | .comment ls => commentStr ls
  | .obj s => s
  | _ => []

mutual
/-- `flatten_to_strlist(value, skip_empty_strings)` -/
def flatten (skip : Bool) : Content → List Str
  | .list l => flattenList skip l
  | .dict l => flattenDict skip l
  | .str s => if skip && s.isEmpty then [] else [s]
  | .none => []
  | .int i => [intToStr i]
  | .bool b => [boolToStr b]
  | .tb h ls => let s := tbStr h ls; if s.isEmpty then [] else [s]
  | .comment ls => let s := commentStr ls; if s.isEmpty then [] else [s]
  | .obj s => if s.isEmpty then [] else [s]
def flattenList (skip : Bool) : List Content → List Str
  | [] => []
  | c :: cs => flatten skip c ++ flattenList skip cs
def flattenDict (skip : Bool) : List (Str × Content) → List Str
  | [] => []
  | (_, c) :: cs => flatten skip c ++ flattenDict skip cs
end

/-- Python truthiness of a content value (`if header:`, `if empty_response`) -/
def truthy : Content → Bool
  | .str s => !s.isEmpty
  | .int i => i != 0
  | .bool b => b
  | .none => false
  | .list l => !l.isEmpty
  | .dict l => !l.isEmpty
  | .tb _ _ => true
  | .comment _ => true
  | .obj _ => true

/-- one flattened string item to lines: `splitlines()` when non-empty, one blank line else -/
def itemLines (s : Str) : List Str := if s.isEmpty then [[]] else splitlines s

/-- the lines `TextBlock.append(content)` adds -/
def contentLines : Content → List Str
  | .tb _ ls => ls            -- isinstance(content, TextBlock): the line buffer, header ignored
  | .comment ls => ls         -- a Comment *is* a TextBlock: raw buffer, not rendered
  | c => (flatten false c).flatMap itemLines

/-! ### TextBlock -/

structure TB where
  header : List Str := []
  lines : List Str := []
  ind : Indentizer := {}
  deriving Repr, Inhabited

/-- `TextBlock(content, header)` -/
def TB.mk' (content : Content) (header : Content := .none) : TB :=
  { header := if truthy header then contentLines header else [],
    lines := contentLines content }

def TB.toStr (t : TB) : Str := tbStr t.header t.lines

def TB.append (t : TB) (c : Content) : TB := { t with lines := t.lines ++ contentLines c }

/-- `tb + other`: `TextBlock(self.lines + TextBlock(other).lines)` — a *new* block; the
    concatenated buffer is fed through the constructor again (header, indentizer dropped). -/
def TB.add (t : TB) (c : Content) : TB :=
  { lines := (t.lines ++ contentLines c).flatMap itemLines }

/-- `tb.indent(indentizer)` -/
def TB.indent (t : TB) (i : Option Indentizer := none) : TB :=
  let ind := i.getD t.ind
  { t with ind := ind, lines := ind.toListFlat t.lines }

def trimFront : List Str → List Str
  | [] => []
  | l :: ls => if l.isEmpty then trimFront ls else l :: ls

/-- `trim_list` on a list of str: only `""` is trimmable -/
def trimList (ls : List Str) (endOnly : Bool) : List Str :=
  let a := if endOnly then ls else trimFront ls
  (trimFront a.reverse).reverse

def TB.trim (t : TB) (endOnly : Bool := false) : TB := { t with lines := trimList t.lines endOnly }

def TB.asContent (t : TB) : Content := .tb t.header t.lines

/-! ### one TextBlock / Comment object under a history of operations

The object is mutable in the implementation (line buffer, stored indentizer); the model threads the
state.  `isComment` objects are `cpp_gen.Comment`s: their string form indents a *copy* with the stored
indentizer and drops nothing else. -/

structure TObj where
  tb : TB := {}
  isComment : Bool := false
  deriving Repr, Inhabited

inductive HOp
  | append (c : Content)            -- `t.append(c)` / `t += c`
  | trim (endOnly : Bool)
  | indent (i : Option Indentizer)  -- `t.indent(i)`; `none`: the stored indentizer
  | setIndentor (i : Indentizer)
  | setLines (ls : List Str)        -- `t.lines = ls`
  | add (c : Content)               -- `t + c` (a new block; `t` unchanged)
  | pour (inList : Bool)            -- `TextBlock(t)` / `TextBlock([t])` (a new block; `t` unchanged)
  | observe
  deriving Repr, Inhabited

/-- `TextBlock(content, header)` resp. `Comment(content)` -/
def TObj.new (isComment : Bool) (content : Content) (header : Content := .none) : TObj :=
  if isComment then { tb := { (TB.mk' content) with ind := commentIndentizer }, isComment := true }
  else { tb := TB.mk' content header }

/-- `str(t)` -/
def TObj.str (o : TObj) : Str :=
  if o.isComment then tbStr [] (o.tb.ind.toListFlat o.tb.lines) else o.tb.toStr

/-- the object as content of another block -/
def TObj.asContent (o : TObj) : Content :=
  if o.isComment then
    -- a Comment inside a list is stringified (rendered); given directly its buffer is copied
    .obj o.str
  else o.tb.asContent

/-- one operation: the new state and, for the operations that return a new block, its lines -/
def TObj.step (o : TObj) : HOp → TObj × Option (List Str)
  | .append c => ({ o with tb := o.tb.append c }, none)
  | .trim e => ({ o with tb := o.tb.trim e }, none)
  | .indent i => ({ o with tb := o.tb.indent i }, none)
  | .setIndentor i => ({ o with tb := { o.tb with ind := i } }, none)
  | .setLines ls => ({ o with tb := { o.tb with lines := ls } }, none)
  | .add c => (o, some (o.tb.add c).lines)
  | .pour inList =>
    (o, some (if inList then (TB.mk' (.list [o.asContent])).lines else o.tb.lines))
  | .observe => (o, none)

/-- what is observed after a step: the line buffer, the string form, the extra result -/
structure HObs where
  lines : List Str
  str : Str
  extra : Option (List Str)
  deriving Repr, Inhabited, DecidableEq

def TObj.run (o : TObj) : List HOp → List HObs
  | [] => []
  | op :: ops =>
    let (o', x) := o.step op
    { lines := o'.tb.lines, str := o'.str, extra := x } :: TObj.run o' ops

/-! ### several TextBlock / Comment objects that are handed to one another

`a.append(b)`, `a + b`, `TextBlock(b)`, `a.append(b.lines)`: the receiving block copies the *lines* of the
other one; the two objects stay independent afterwards (no shared buffer). -/

inductive HOp2
  | on (o : Nat) (op : HOp)                       -- an operation of the single-object repertoire on object `o`
  | appendRef (o j : Nat)                         -- `objs[o].append(objs[j])` / `objs[o] += objs[j]`
  | addRef (o j : Nat)                            -- `objs[o] + objs[j]` (a new block; nothing changes)
  | newFrom (o j : Nat) (isComment : Bool)        -- `objs[o] = TextBlock(objs[j])` / `Comment(objs[j])`
  | appendLinesOf (o j : Nat)                     -- `objs[o].append(objs[j].lines)`
  | newWithHeader (o j k : Nat)                   -- `objs[o] = TextBlock(objs[j], header=objs[k])`
  | clone (o j : Nat)                             -- `objs[o] = copy.deepcopy(objs[j])`: an equal, independent block
  deriving Repr, Inhabited

def objAt (objs : List TObj) (i : Nat) : TObj := objs.getD i {}

/-- a block object as content of another block: `isinstance(content, TextBlock)` (a Comment is one too) -/
def TObj.asBlock (o : TObj) : Content := .tb o.tb.header o.tb.lines

def step2 (objs : List TObj) : HOp2 → List TObj × Option (List Str)
  | .on o op =>
    let (x, extra) := (objAt objs o).step op
    (objs.set o x, extra)
  | .appendRef o j =>
    let x := objAt objs o
    (objs.set o { x with tb := x.tb.append (objAt objs j).asBlock }, none)
  | .addRef o j => (objs, some ((objAt objs o).tb.add (objAt objs j).asBlock).lines)
  | .newFrom o j c => (objs.set o (TObj.new c (objAt objs j).asBlock), none)
  | .appendLinesOf o j =>
    let x := objAt objs o
    (objs.set o { x with tb := x.tb.append (.list ((objAt objs j).tb.lines.map .str)) }, none)
  | .newWithHeader o j k => (objs.set o (TObj.new false (objAt objs j).asBlock (objAt objs k).asBlock), none)
  | .clone o j => (objs.set o (objAt objs j), none)

/-- after every step: lines and string form of EVERY object, and the extra result -/
def run2 (objs : List TObj) : List HOp2 → List (List (List Str × Str) × Option (List Str))
  | [] => []
  | op :: ops =>
    let (objs', extra) := step2 objs op
    (objs'.map (fun o => (o.tb.lines, o.str)), extra) :: run2 objs' ops

/-! ### Indentizer on arbitrary content; to_str -/

def Indentizer.toList (i : Indentizer) (c : Content) : List Str := i.toListFlat (flatten false c)

/-- `Indentizer.to_str`: `EOL.join(self.to_list(contents)) + EOL` (the code after the repair of
    defect D-1; before it the method called itself and always ended in RecursionError). -/
def Indentizer.toStr (i : Indentizer) (c : Content) : R Str :=
  .ok (join ['\n'] (i.toList c) ++ ['\n'])

/-! ### chunk / cond_chunk -/

def strList (l : List Str) : Content := .list (l.map .str)

/-- `chunk(content, appendix)`; `appendix` defaults to `BLANK_LINE = "\n"` -/
def chunk (content : Content) (appendix : Content := .str ['\n']) : Option TB :=
  if (flatten true content).isEmpty then none
  else some (TB.mk' (.list [content, strList (flatten true appendix)]))

def condChunk (preamble content emptyResponse : Content) (appendix : Content := .str ['\n'])
    (allOrNothing : Bool := false) : Option TB :=
  let tp := flatten true preamble
  let tc := flatten true content
  let te := flatten true emptyResponse
  if allOrNothing && tc.isEmpty then
    if truthy emptyResponse then some (TB.mk' emptyResponse) else none
  else if !tc.isEmpty then chunk (.list [strList tp, content]) appendix
  else chunk (.list [strList tp, strList te]) appendix

/-- an optional TextBlock as content (`None` or the object) -/
def optTB : Option TB → Content
  | none => .none
  | some t => t.asContent

/-! ### plural -/

def endsWithAny (s : Str) (sufs : List Str) : Bool := sufs.any (fun x => x.isSuffixOf s)

/-- `plural(noun, collection)` for a non-empty noun and a collection of `n` items -/
def plural (noun : Str) (n : Nat) : Str :=
  if n > 1 then
    if endsWithAny noun [L "s", L "x", L "z", L "ss", L "sh", L "ch"] then noun ++ L "es"
    else noun ++ L "s"
  else noun

end Text
