/-
  DznModel.Sem — semantics of the wiring IR over the mock Dezyne runtime (trusted base A-1/A-2):
  slots holding handlers, the pump queue and its dispatch flag, the locator, the multi-client
  selector, FinalConstruct.  `runScript` executes a driver script (harness/cxx/SPEC.md) and yields
  the trace the compiled program prints; the program-level theorems (C01, C02, C04, C09, C10) are
  about these functions.
-/
import DznModel.ShellBuild
open Py Scoping Ast PortSel Shell

namespace Sem

abbrev Val := Int

inductive Who | comp | env | envc (id : Str)
  deriving DecidableEq, Repr, Inhabited

def Who.str : Who → Str
  | .comp => L "comp" | .env => L "env" | .envc id => L "env@" ++ id

/-- run-time port objects -/
inductive RObj
  | enc (port : Str) | bnd (mv : Str) | arb (mv : Str) | client (mv : Str) (id : Str)
  deriving DecidableEq, Repr, Inhabited

structure RSlot where
  obj : RObj
  dir : EvDir
  ev : Str
  deriving DecidableEq, Repr, Inhabited

/-- what a `std::function` slot holds -/
inductive RH
  | scripted (who : Who) (port : Str) (ev : Event)     -- handler of the mock component / environment
  | noop (ev : Event)                                  -- injected port: internally bound
  | ir (h : Handler) (ev : Event) (clientId : Str) (clientMv : Str)   -- a generated lambda / std::ref
  deriving Repr, Inhabited

structure Closure where
  callee : RSlot
  args : List Val
  dangling : Bool              -- an argument was captured by reference and its frame is gone
  deriving Repr, Inhabited

structure Selector where
  mv : Str
  port : Str
  clients : List Str := []     -- registered identifiers (std::map: reported sorted)
  selected : Option Str := none
  finalConstructed : Bool := false
  deriving Repr, Inhabited

inductive Exc
  | badFunctionCall
  | runtimeError (msg : Str)
  | bindingError (msg : Str)
  | dangling
  deriving Repr, Inhabited

def Exc.str : Exc → Str
  | .badFunctionCall => L "bad_function_call bad_function_call"
  | .runtimeError m => L "runtime_error " ++ m
  | .bindingError m => L "binding_error not connected: " ++ m
  | .dangling => L "dangling-reference"

/-- which object a locator entry / the dispatcher is: absent, the user's (prototype) object, or
    an object owned by the shell -/
inductive Obj | absent | proto | own deriving DecidableEq, Repr, Inhabited

def Obj.str : Obj → Str | .absent => L "none" | .proto => L "proto" | .own => L "other"

/-- facility bookkeeping of a constructed shell (member initialisation in declaration order:
    m_runtime, m_dispatcher, m_locator, m_encapsulee) -/
structure FacInfo where
  compLocatorIsProto : Bool     -- the component was handed the user's locator object itself
  compPump : Obj                -- what `dzn::pump` the component's locator holds
  compRuntime : Obj
  compExtra : Bool              -- the user's other service is still reachable
  dispatcher : Obj              -- the pump the shell posts to
  hasLocatorAccessor : Bool
  protoKeysBefore : Nat
  protoKeysAfter : Nat
  compKeys : Nat := 0            -- number of services in the locator the component was constructed with
  deriving DecidableEq, Repr, Inhabited

structure World where
  ir : ShellIR
  allPorts : List (Port × InterfaceD)      -- every port of the encapsulee, declaration order
  grantIndex : Option Nat                  -- index of the granting enum field
  instName : Str := []
  protoPump : Bool := false
  fac : FacInfo := default
  store : List (RSlot × RH) := []
  queue : List Closure := []
  inDispatch : Bool := false
  replies : List ((Bool × Str × Str) × Val) := []     -- (comp side?, port, ev) ↦ value
  posted : Nat := 0
  shellCalls : Nat := 0
  executed : Nat := 0
  pumpTouched : Bool := false
  selectors : List Selector := []
  parentSet : Bool := false
  out : List Str := []                      -- trace lines, newest first
  deriving Inhabited

def World.emit (w : World) (l : Str) : World := { w with out := l :: w.out }

def World.get (w : World) (s : RSlot) : Option RH := (w.store.find? (fun kv => kv.1 = s)).map (·.2)
def World.set (w : World) (s : RSlot) (h : RH) : World :=
  { w with store := (s, h) :: w.store.filter (fun kv => kv.1 ≠ s) }

def valsStr (vs : List Val) : Str := join (L ",") (vs.map intToStr)

def World.reply (w : World) (compSide : Bool) (port ev : Str) : Val :=
  ((w.replies.find? (fun kv => kv.1 = (compSide, port, ev))).map (·.2)).getD 0

def isVoid (ev : Event) : Bool := ev.replyType = [L "void"]

/-- the values a scripted handler leaves in its arguments (out ← 1000+j, inout ← old+1000+j) -/
def rewritten (ev : Event) (args : List Val) : List Val :=
  (List.zip (List.range ev.formals.length) (List.zip ev.formals args)).map fun (j, f, a) =>
    match f.dir with
    | .in_ => a
    | .out => (1000 + j : Int)
    | .inout => a + 1000 + j

/-- the scripted behaviour of a mock handler: observation, out/inout formals rewritten, reply -/
def scriptedRun (w : World) (who : Who) (port : Str) (ev : Event) (args : List Val) :
    World × Option Val × List Val :=
  let w := w.emit (L "obs " ++ who.str ++ L " " ++ port ++ L "." ++ ev.name ++ L " args=" ++ valsStr args ++
                   L " disp=" ++ (if w.inDispatch then L "1" else L "0"))
  let args' := rewritten ev args
  let r := if isVoid ev then none else some (w.reply (who == .comp) port ev.name)
  (w, r, args')

inductive Res
  | ok (reply : Option Val) (args : List Val)
  | exc (e : Exc)
  deriving Repr, Inhabited

def resolveObj (o : PortObj) (clientMv clientId : Str) : RObj :=
  match o with
  | .enc p => .enc p | .bnd mv => .bnd mv | .arb mv => .arb mv | .local_ => .client clientMv clientId

def resolveSlot (s : Slot) (clientMv clientId : Str) : RSlot :=
  { obj := resolveObj s.obj clientMv clientId, dir := s.dir, ev := s.ev }

/-- evaluate the call arguments of a lambda by name; none = a name that is not a parameter -/
def evalArgs (params : List LParam) (vals : List Val) (callArgs : List Str) : Option (List Val) :=
  callArgs.mapM fun a => ((params.zip vals).find? (fun pv => pv.1.name = a)).map (·.2)

/-- write the callee's resulting argument values back into by-reference lambda parameters -/
def writeBack (params : List LParam) (vals : List Val) (callArgs : List Str) (after : List Val) : List Val :=
  (params.zip vals).map fun (p, v) =>
    if p.byRef then
      match (callArgs.zip after).find? (fun ca => ca.1 = p.name) with
      | some (_, v') => v'
      | none => v
    else v

def Selector.select (s : Selector) (id : Str) : Selector :=
  if s.clients.contains id then { s with selected := some id } else s
def Selector.deselect (s : Selector) (id : Str) : Selector :=
  if s.clients.contains id then { s with selected := none } else s

def World.selector (w : World) (mv : Str) : Option Selector := w.selectors.find? (·.mv = mv)
def World.setSelector (w : World) (s : Selector) : World :=
  { w with selectors := s :: w.selectors.filter (·.mv ≠ s.mv) }

mutual
/-- call the `std::function` in slot `s` -/
def invoke (fuel : Nat) (w : World) (s : RSlot) (args : List Val) : World × Res :=
  match fuel with
  | 0 => (w, .exc (.runtimeError (L "fuel")))
  | fuel + 1 =>
    match w.get s with
    | none => (w, .exc .badFunctionCall)
    | some (.scripted who port ev) =>
      let (w', r, a') := scriptedRun w who port ev args
      (w', .ok r a')
    | some (.noop ev) => (w, .ok (if isVoid ev then none else some 0) args)
    | some (.ir h ev cid cmv) =>
      match h with
      | .ref t => invoke fuel w (resolveSlot t cmv cid) args
      | .shell callee ps callArgs _byVal =>
        -- dzn::shell: everything pending runs first, then the lambda, in dispatcher context
        let w := { w with shellCalls := w.shellCalls + 1, pumpTouched := true }
        match drain fuel w with
        | (w, some e) => (w, .exc e)
        | (w, none) =>
          match evalArgs ps args callArgs with
          | none => (w, .exc (.runtimeError (L "ill-formed-call")))
          | some cargs =>
            let old := w.inDispatch
            let (w, r) := invoke fuel { w with inDispatch := true } (resolveSlot callee cmv cid) cargs
            let w := { w with inDispatch := old, executed := w.executed + 1 }
            match r with
            | .exc e => (w, .exc e)
            | .ok rep after => (w, .ok (if isVoid ev then none else rep) (writeBack ps args callArgs after))
      | .post callee ps callArgs byVal =>
        match evalArgs ps args callArgs with
        | none => (w, .exc (.runtimeError (L "ill-formed-call")))
        | some cargs =>
          let dangling := callArgs.any (fun a => !byVal.contains a)
          ({ w with posted := w.posted + 1, pumpTouched := true,
                    queue := w.queue ++ [{ callee := resolveSlot callee cmv cid, args := cargs, dangling }] },
           .ok none args)
      | .mcDeliver mv evName ps callArgs =>
        match w.selector mv with
        | none => (w, .exc (.runtimeError (L "no-selector")))
        | some sel =>
          match sel.selected with
          | none => (w, .ok none args)
          | some id =>
            match evalArgs ps args callArgs with
            | none => (w, .exc (.runtimeError (L "ill-formed-call")))
            | some cargs =>
              let (w, r) := invoke fuel w { obj := .client mv id, dir := .out, ev := evName } cargs
              match r with
              | .exc e => (w, .exc e)
              | .ok _ _ => (w, .ok none args)
      | .mcClaim mv evName ps callArgs _grant =>
        match evalArgs ps args callArgs with
        | none => (w, .exc (.runtimeError (L "ill-formed-call")))
        | some cargs =>
          let (w, r) := invoke fuel w { obj := .arb mv, dir := .in_, ev := evName } cargs
          match r with
          | .exc e => (w, .exc e)
          | .ok rep after =>
            let granted : Bool := match rep, w.grantIndex with
              | some v, some g => decide (v = (g : Int))
              | _, _ => false
            let w := if granted then
                match w.selector mv with
                | some sel => w.setSelector (sel.select cid)
                | none => w
              else w
            (w, .ok rep (writeBack ps args callArgs after))
      | .mcRelease mv _ev calledEv ps callArgs =>
        match evalArgs ps args callArgs with
        | none => (w, .exc (.runtimeError (L "ill-formed-call")))
        | some cargs =>
          let (w, r) := invoke fuel w { obj := .arb mv, dir := .in_, ev := calledEv } cargs
          match r with
          | .exc e => (w, .exc e)
          | .ok _ after =>
            let w := match w.selector mv with
              | some sel => w.setSelector (sel.deselect cid)
              | none => w
            (w, .ok none (writeBack ps args callArgs after))

/-- `pump.run()`: execute the queued closures FIFO in dispatcher context; an exception leaves the
    drain (the throwing closure is consumed, the rest stays queued) -/
def drain (fuel : Nat) (w : World) : World × Option Exc :=
  match fuel with
  | 0 => (w, none)
  | fuel + 1 =>
    match w.queue with
    | [] => (w, none)
    | c :: rest =>
      let w := { w with queue := rest }
      if c.dangling then (w, some .dangling) else
      let old := w.inDispatch
      let (w, r) := invoke fuel { w with inDispatch := true } c.callee c.args
      let w := { w with inDispatch := old }
      match r with
      | .exc e => (w, some e)
      | .ok _ _ => drain fuel { w with executed := w.executed + 1 }
end

/-- reactions of the wrapped component: in-event `(port, ev)` ↦ out-event `(port', ev')` raised while handling it -/
abbrev Reactions := List ((Str × Str) × (Str × Str))

/-- the reaction registered for an in-event, with the arity of the out-event (none if it does not exist) -/
def reactionOf (rx : Reactions) (w : World) (port ev : Str) : Option (Str × Str × Nat) :=
  match rx.lookup (port, ev) with
  | none => none
  | some (oport, oev) =>
    match w.allPorts.find? (fun pi => pi.1.name = oport) with
    | none => none
    | some (_, itf) =>
      match itf.events.find? (fun e => e.name = oev) with
      | none => none
      | some e => some (oport, oev, e.formals.length)

mutual
/-- `invoke` for a wrapped component that REACTS: while it handles the in-event `(port, ev)` it raises the
    out-event `rx (port, ev)` on its own port object (arguments 0) before it returns — as Dezyne components do.
    With no reactions this is `invoke` (theorem `SemReact.invokeR_nil`). -/
def invokeR (rx : Reactions) (fuel : Nat) (w : World) (s : RSlot) (args : List Val) : World × Res :=
  match fuel with
  | 0 => (w, .exc (.runtimeError (L "fuel")))
  | fuel + 1 =>
    match w.get s with
    | none => (w, .exc .badFunctionCall)
    | some (.scripted who port ev) =>
      let (w', r, a') := scriptedRun w who port ev args
      match (if who == .comp then reactionOf rx w' port ev.name else none) with
      | none => (w', .ok r a')
      | some (oport, oev, n) =>
        -- the nested out-event; an exception of the nested call is caught and logged by the mock component
        let (w'', r2) := invokeR rx fuel w' { obj := .enc oport, dir := .out, ev := oev } (List.replicate n 0)
        match r2 with
        | .exc e => (w''.emit (L "nested exc " ++ e.str), .ok r a')
        | .ok _ _ => (w'', .ok r a')
    | some (.noop ev) => (w, .ok (if isVoid ev then none else some 0) args)
    | some (.ir h ev cid cmv) =>
      match h with
      | .ref t => invokeR rx fuel w (resolveSlot t cmv cid) args
      | .shell callee ps callArgs _byVal =>
        -- dzn::shell: everything pending runs first, then the lambda, in dispatcher context
        let w := { w with shellCalls := w.shellCalls + 1, pumpTouched := true }
        match drainR rx fuel w with
        | (w, some e) => (w, .exc e)
        | (w, none) =>
          match evalArgs ps args callArgs with
          | none => (w, .exc (.runtimeError (L "ill-formed-call")))
          | some cargs =>
            let old := w.inDispatch
            let (w, r) := invokeR rx fuel { w with inDispatch := true } (resolveSlot callee cmv cid) cargs
            let w := { w with inDispatch := old, executed := w.executed + 1 }
            match r with
            | .exc e => (w, .exc e)
            | .ok rep after => (w, .ok (if isVoid ev then none else rep) (writeBack ps args callArgs after))
      | .post callee ps callArgs byVal =>
        match evalArgs ps args callArgs with
        | none => (w, .exc (.runtimeError (L "ill-formed-call")))
        | some cargs =>
          let dangling := callArgs.any (fun a => !byVal.contains a)
          ({ w with posted := w.posted + 1, pumpTouched := true,
                    queue := w.queue ++ [{ callee := resolveSlot callee cmv cid, args := cargs, dangling }] },
           .ok none args)
      | .mcDeliver mv evName ps callArgs =>
        match w.selector mv with
        | none => (w, .exc (.runtimeError (L "no-selector")))
        | some sel =>
          match sel.selected with
          | none => (w, .ok none args)
          | some id =>
            match evalArgs ps args callArgs with
            | none => (w, .exc (.runtimeError (L "ill-formed-call")))
            | some cargs =>
              let (w, r) := invokeR rx fuel w { obj := .client mv id, dir := .out, ev := evName } cargs
              match r with
              | .exc e => (w, .exc e)
              | .ok _ _ => (w, .ok none args)
      | .mcClaim mv evName ps callArgs _grant =>
        match evalArgs ps args callArgs with
        | none => (w, .exc (.runtimeError (L "ill-formed-call")))
        | some cargs =>
          let (w, r) := invokeR rx fuel w { obj := .arb mv, dir := .in_, ev := evName } cargs
          match r with
          | .exc e => (w, .exc e)
          | .ok rep after =>
            let granted : Bool := match rep, w.grantIndex with
              | some v, some g => decide (v = (g : Int))
              | _, _ => false
            let w := if granted then
                match w.selector mv with
                | some sel => w.setSelector (sel.select cid)
                | none => w
              else w
            (w, .ok rep (writeBack ps args callArgs after))
      | .mcRelease mv _ev calledEv ps callArgs =>
        match evalArgs ps args callArgs with
        | none => (w, .exc (.runtimeError (L "ill-formed-call")))
        | some cargs =>
          let (w, r) := invokeR rx fuel w { obj := .arb mv, dir := .in_, ev := calledEv } cargs
          match r with
          | .exc e => (w, .exc e)
          | .ok _ after =>
            let w := match w.selector mv with
              | some sel => w.setSelector (sel.deselect cid)
              | none => w
            (w, .ok none (writeBack ps args callArgs after))

/-- `pump.run()`: execute the queued closures FIFO in dispatcher context; an exception leaves the
    drain (the throwing closure is consumed, the rest stays queued) -/
def drainR (rx : Reactions) (fuel : Nat) (w : World) : World × Option Exc :=
  match fuel with
  | 0 => (w, none)
  | fuel + 1 =>
    match w.queue with
    | [] => (w, none)
    | c :: rest =>
      let w := { w with queue := rest }
      if c.dangling then (w, some .dangling) else
      let old := w.inDispatch
      let (w, r) := invokeR rx fuel { w with inDispatch := true } c.callee c.args
      let w := { w with inDispatch := old }
      match r with
      | .exc e => (w, some e)
      | .ok _ _ => drainR rx fuel { w with executed := w.executed + 1 }
end


def fuel0 : Nat := 64

/-! ### construction of a world -/

def eventsOf (i : InterfaceD) (d : EvDir) : List Event :=
  i.events.filter (fun e => (e.dir = .in_) = (d = .in_))

def evDirOf (e : Event) : EvDir := if e.dir = .in_ then .in_ else .out

/-- the mock component's constructor: scripted handlers on provides in-events and requires
    out-events (injected ports: in-events internally bound), minus `skipcomp` -/
def compBind (w : World) (skip : Option (Str × EvDir × Str)) : World :=
  w.allPorts.foldl (fun w (pi : Port × InterfaceD) =>
    let (p, itf) := pi
    itf.events.foldl (fun w ev =>
      let d := evDirOf ev
      let slot : RSlot := { obj := .enc p.name, dir := d, ev := ev.name }
      let compSide := (p.dir = .provides ∧ d = .in_) ∨ (p.dir = .requires ∧ d = .out)
      if compSide then
        if skip = some (p.name, d, ev.name) then w else w.set slot (.scripted .comp p.name ev)
      else if p.dir = .requires ∧ p.injected then w.set slot (.noop ev)
      else w) w) w

def findEvent (ps : List CppPortItf) (s : Slot) : Option Event :=
  -- the event a generated assignment is about: by the port its objects mention and the event name
  let portOf := fun (o : PortObj) => match o with
    | .enc p => ps.find? (fun (q : CppPortItf) => q.name = p)
    | .bnd mv => ps.find? (fun (q : CppPortItf) => q.target = mv)
    | .arb mv => ps.find? (fun (q : CppPortItf) => q.target = mv)
    | .local_ => none
  (portOf s.obj).bind fun p => p.dzn.itf.events.find? (fun e => e.name = s.ev ∧ evDirOf e = s.dir)

/-- run the constructor body: every assignment stores its handler -/
def runAssigns (w : World) (as : List Assign) (cmv cid : Str) (itfOfLocal : Option InterfaceD) : World :=
  as.foldl (fun w a =>
    let ev? : Option Event :=
      match a.lhs.obj, itfOfLocal with
      | .local_, some itf => itf.events.find? (fun e => e.name = a.lhs.ev ∧ evDirOf e = a.lhs.dir)
      | _, _ => findEvent (w.ir.provides ++ w.ir.requires) a.lhs
    match ev? with
    | some ev => w.set (resolveSlot a.lhs cmv cid) (.ir a.rhs ev cid cmv)
    | none => w) w

/-- `FacilitiesCheck`: the exception it throws, if any -/
def facilitiesCheck (o : Origin) (structName : Str) (pump runtime : Bool) : Option Exc :=
  match o with
  | .create =>
    if pump then some (.runtimeError (structName ++ L ": Overlapping dispatcher found (dzn::pump)"))
    else if runtime then some (.runtimeError (structName ++ L ": Overlapping Dezyne runtime found (dzn::runtime)"))
    else none
  | .import_ =>
    if !pump then some (.runtimeError (structName ++ L ": Dispatcher missing (dzn::pump)"))
    else if !runtime then some (.runtimeError (structName ++ L ": Dezyne runtime missing (dzn::runtime)"))
    else none

/-- what the member-initialiser list of the generated constructor does about the facilities,
    read from the wiring IR (`ir.mil` is the list the generator rendered into the source file) -/
structure MilFacts where
  checks : Bool            -- some initialiser runs `FacilitiesCheck(<locator argument>)`
  cloneSet : Bool          -- m_locator(std::move(FacilitiesCheck(prototypeLocator).clone().set(m_runtime).set(m_dispatcher)))
  encOwn : Bool            -- m_encapsulee(m_locator)
  encProto : Bool          -- m_encapsulee(locator)
  dispFromLocator : Bool   -- m_dispatcher(FacilitiesCheck(locator).get<dzn::pump>())
  deriving DecidableEq, Repr, Inhabited

def milFacts (ir : ShellIR) : MilFacts :=
  let has := fun (x : Str) => ir.mil.any (fun m => m = x)
  { checks := ir.mil.any (fun m => containsSub (L "FacilitiesCheck(") m),
    cloneSet := has (L "m_locator(std::move(FacilitiesCheck(prototypeLocator).clone().set(m_runtime).set(m_dispatcher)))"),
    encOwn := has (L "m_encapsulee(m_locator)"),
    encProto := has (L "m_encapsulee(locator)"),
    dispFromLocator := has (L "m_dispatcher(FacilitiesCheck(locator).get<dzn::pump>())") }

/-- the exception the member initialisation throws, if any: `FacilitiesCheck` runs only when an
    initialiser calls it -/
def ctorCheck (ir : ShellIR) (pump runtime : Bool) : Option Exc :=
  if (milFacts ir).checks then facilitiesCheck ir.origin ir.structName pump runtime else none

/-- the facilities after member initialisation (declaration order m_runtime, m_dispatcher,
    m_locator, m_encapsulee), as the member-initialiser list of the IR establishes them -/
def facInfo (ir : ShellIR) (pump runtime extra : Bool) : FacInfo :=
  let n := (if pump then 1 else 0) + (if runtime then 1 else 0) + (if extra then 1 else 0)
  let f := milFacts ir
  let acc := decide (ir.origin = .create)
  if f.cloneSet && f.encOwn then
    -- m_locator = prototype.clone().set(m_runtime).set(m_dispatcher); m_encapsulee(m_locator)
    { compLocatorIsProto := false, compPump := .own, compRuntime := .own, compExtra := extra, dispatcher := .own,
      hasLocatorAccessor := acc, protoKeysBefore := n, protoKeysAfter := n,
      compKeys := n + (if pump then 0 else 1) + (if runtime then 0 else 1) }
  else if f.encProto then
    -- m_encapsulee(locator): the component is handed the user's locator object itself
    { compLocatorIsProto := true, compPump := if pump then .proto else .absent,
      compRuntime := if runtime then .proto else .absent, compExtra := extra,
      dispatcher := if f.dispFromLocator then .proto else .absent,
      hasLocatorAccessor := acc, protoKeysBefore := n, protoKeysAfter := n, compKeys := n }
  else
    { compLocatorIsProto := false, compPump := .absent, compRuntime := .absent, compExtra := false, dispatcher := .absent,
      hasLocatorAccessor := acc, protoKeysBefore := n, protoKeysAfter := n }

/-- `FacilitiesCheck` + member initialisation + constructor body -/
def construct (ir : ShellIR) (allPorts : List (Port × InterfaceD)) (grantIndex : Option Nat)
    (pump runtime : Bool) (skip : Option (Str × EvDir × Str)) (name : Str) (extra : Bool := false) :
    Except Exc World :=
  match ctorCheck ir pump runtime with
  | some e => .error e          -- thrown while initialising the first facility member: no component yet
  | none =>
    let w0 : World := { ir, allPorts, grantIndex, instName := name, protoPump := pump,
                        fac := facInfo ir pump runtime extra }
    let w := compBind w0 skip
    let w := { w with selectors := (ir.provides.filter (·.isMc)).map (fun p => { mv := p.target, port := p.name }) }
    .ok (runAssigns w ir.ctorAssigns [] [] none)

/-! ### check_bindings / FinalConstruct -/

def pathOf (w : World) (port : Str) : Str :=
  (if w.parentSet then L "parent." else []) ++ w.instName ++ L "." ++ port

/-- `port.check_bindings()`: in-events in declaration order, then out-events -/
def checkPort (w : World) (obj : RObj) (itf : InterfaceD) (path : Str) : Option Exc :=
  match (eventsOf itf .in_ ++ eventsOf itf .out).find? (fun e => (w.get { obj, dir := evDirOf e, ev := e.name }).isNone) with
  | some e => some (.bindingError (path ++ L "." ++ (evDirOf e).str ++ L "." ++ e.name))
  | none => none

def capOf (s : Str) : Str := match capFirst s with | .ok c => c | .error _ => []

def sortedIds (l : List Str) : List Str := sorted l

/-- `<selector>.FinalConstruct()` of a multi-client port: every registered client port is checked,
    then registration is locked -/
def mcFinalStep (p : CppPortItf) : World → World × Option Exc := fun (w : World) =>
  match w.selector p.target with
  | none => (w, none)
  | some sel =>
    if sel.finalConstructed then (w, some (.runtimeError (L "Already final constructed.")))
    else
      match (sortedIds sel.clients).findSome? (fun id =>
          checkPort w (.client p.target id) p.dzn.itf (L "<external>.arbiter" ++ capOf p.name)) with
      | some e => (w, some e)
      | none => (w.setSelector { sel with finalConstructed := true }, none)

/-- the object `<target>.check_bindings()` is called on: the component's own port for STS, the
    boundary member for MTS -/
def boundaryObj (p : CppPortItf) : RObj := if p.dzn.sem = .sts then RObj.enc p.name else .bnd p.target

def checkStep (p : CppPortItf) : World → World × Option Exc := fun (w : World) =>
  (w, checkPort w (boundaryObj p) p.dzn.itf (pathOf w p.name))

def setParentStep (parent : Bool) : World → World × Option Exc := fun (w : World) => ({ w with parentSet := parent }, none)

def encCheckStep : World → World × Option Exc := fun (w : World) =>
  (w, w.allPorts.findSome? (fun (p, itf) => checkPort w (.enc p.name) itf (pathOf w p.name)))

/-- the step one statement of the generated `FinalConstruct` body performs (the statements are the
    ones the generator rendered: `ir.finalConstruct`); a statement that is none of the four kinds
    does nothing -/
def stmtStep (ir : ShellIR) (parent : Bool) (s : Str) : Option (World → World × Option Exc) :=
  if s = L "m_encapsulee.dzn_meta.parent = parentComponentMeta;" then some (setParentStep parent)
  else if s = L "m_encapsulee.check_bindings();" then some encCheckStep
  else match (ir.provides.filter (·.isMc)).find? (fun p => s = p.target ++ L ".FinalConstruct();") with
    | some p => some (mcFinalStep p)
    | none =>
      match (ir.provides ++ ir.requires).find? (fun p => s = p.target ++ L ".check_bindings();") with
      | some p => some (checkStep p)
      | none => none

/-- the steps of FinalConstruct, in the order of the generated statements -/
def finalStep (w : World) (parent : Bool) : List (World → World × Option Exc) :=
  w.ir.finalConstruct.filterMap (stmtStep w.ir parent)

def runSteps (w : World) : List (World → World × Option Exc) → World × Option Exc
  | [] => (w, none)
  | s :: rest =>
    match s w with
    | (w', some e) => (w', some e)
    | (w', none) => runSteps w' rest

def finalConstruct (w : World) (parent : Bool) : World × Option Exc := runSteps w (finalStep w parent)

/-! ### client registration -/

def registerClient (w : World) (p : CppPortItf) (id : Str) : World × Option Exc :=
  match w.selector p.target with
  | none => (w, some (.runtimeError (L "no-selector")))
  | some sel =>
    if id.isEmpty then (w, some (.runtimeError (L "Argument 'identifier' must not be empty.")))
    else if sel.clients.contains id then (w, none)
    else if sel.finalConstructed then
      (w, some (.runtimeError (L "Can not allocate a ClientPort entry when final constructed.")))
    else
      let w := w.setSelector { sel with clients := sel.clients ++ [id] }
      let as := ((w.ir.initPort.find? (·.1 = p.name)).map (·.2)).getD []
      (runAssigns w as p.target id (some p.dzn.itf), none)

/-! ### the script interpreter -/

def splitSpaces (s : Str) : List Str := splitChar ' ' s []

def parseInt (s : Str) : Val :=
  match s with
  | '-' :: r => - ((String.ofList r).toNat?.getD 0 : Int)
  | _ => ((String.ofList s).toNat?.getD 0 : Int)

def parseSlotSpec (s : Str) : Option (Str × EvDir × Str) :=
  match splitChar '.' s [] with
  | [p, d, e] => some (p, if d = L "in" then .in_ else .out, e)
  | _ => none

def kv (t : Str) : Str × Str :=
  match splitChar '=' t [] with
  | [k, v] => (k, v)
  | k :: rest => (k, join (L "=") rest)
  | [] => ([], [])

structure Machine where
  ir : ShellIR
  allPorts : List (Port × InterfaceD)
  grantIndex : Option Nat
  world : Option World := none
  replies : List ((Bool × Str × Str) × Val) := []
  rx : Reactions := []
  out : List Str := []
  deriving Inhabited

def Machine.emit (m : Machine) (l : Str) : Machine := { m with out := l :: m.out }

/-- move the trace lines a world produced to the machine output -/
def Machine.absorb (m : Machine) (w : World) : Machine :=
  { m with out := w.out ++ m.out, world := some { w with out := [] } }

def exposed (ir : ShellIR) : List CppPortItf := ir.provides ++ ir.requires

def findPort (ir : ShellIR) (name : Str) : Option CppPortItf := (exposed ir).find? (·.name = name)

def padArgs (n : Nat) (l : List Val) : List Val := (l ++ List.replicate n 0).take n

/-- the slot the environment uses for `call` -/
def callSlot (p : CppPortItf) (cid : Option Str) (ev : Str) (d : EvDir) : RSlot :=
  let obj := match p.dzn.sem, p.isMc, cid with
    | _, true, some id => RObj.client p.target id
    | .sts, _, _ => .enc p.name
    | .mts, _, _ => .bnd p.target
  { obj, dir := d, ev }

def retLine (w0 w : World) (r : Option Val) (args : List Val) : Str :=
  L "ret " ++ (match r with | some v => intToStr v | none => L "void") ++ L " args=" ++ valsStr args ++
  L " posted=" ++ natToStr (w.posted - w0.posted) ++ L " shell=" ++ natToStr (w.shellCalls - w0.shellCalls) ++
  L " pump=" ++ (if !w.pumpTouched then L "none" else w.fac.dispatcher.str)

def step (m : Machine) (line : Str) : Machine :=
  let toks := splitSpaces line
  match toks with
  | [] => m
  | op :: rest =>
    if op = L "reply" then
      match rest with
      | [side, port, ev, v] =>
        let key : Bool × Str × Str := (decide (side = L "comp"), port, ev)
        let m := { m with replies := (key, parseInt v) :: m.replies.filter (·.1 ≠ key) }
        let m := match m.world with
          | some w => { m with world := some { w with replies := m.replies } }
          | none => m
        m.emit (L "reply ok")
      | _ => m.emit (L "err usage")
    else if op = L "react" then
      -- react <port> <in-ev> <out-port> <out-ev>: the component raises the out-event while it handles the in-event
      match rest with
      | [port, ev, oport, oev] =>
        ({ m with rx := ((port, ev), (oport, oev)) :: m.rx.filter (·.1 ≠ (port, ev)) }).emit (L "react ok")
      | _ => m.emit (L "err usage")
    else if op = L "world" then
      let kvs := rest.map kv
      let flag := fun (k : String) => (kvs.lookup k.toList) = some (L "1")
      let name := (kvs.lookup (L "name")).getD []
      let skip := (kvs.lookup (L "skipcomp")).bind parseSlotSpec
      let m := { m with world := none, replies := [], rx := [] }
      match construct m.ir m.allPorts m.grantIndex (flag "pump") (flag "runtime") skip name (flag "extra") with
      | .error e => m.emit (L "world exc " ++ e.str)
      | .ok w =>
        let m := m.emit (L "world ok")
        let f := w.fac
        let m := m.emit (L "fac comp_loc=" ++ (if f.compLocatorIsProto then L "proto" else L "other") ++
          L " comp_pump=" ++ f.compPump.str ++ L " comp_runtime=" ++ f.compRuntime.str ++
          L " comp_extra=" ++ (if f.compExtra then L "1" else L "0") ++ L " shell_pump=na has_locator=" ++
          (if f.hasLocatorAccessor then L "1" else L "0") ++ L " locator_is_comp_loc=" ++
          (if f.hasLocatorAccessor then L "1" else L "na") ++
          L " proto_keys=" ++ natToStr f.protoKeysBefore ++ L "/" ++ natToStr f.protoKeysAfter ++
          L " comp_keys=" ++ natToStr f.compKeys ++ L " meta_name=" ++ name)
        -- ident lines in declaration order of the exposed ports
        let m := m.allPorts.foldl (fun m (pi : Port × InterfaceD) =>
          match findPort m.ir pi.1.name with
          | none => m
          | some p => m.emit (L "ident " ++ p.name ++ L " " ++
              (if p.isMc then L "na" else if p.dzn.sem = .sts then L "1" else L "0"))) m
        { m with world := some w }
    else
      match m.world with
      | none => m.emit (L "noworld")
      | some w =>
        if op = L "client" then
          match rest with
          | port :: idt =>
            let id := join (L " ") idt
            match findPort m.ir port with
            | some p =>
              if !p.isMc then m.emit (L "err not multiclient " ++ port) else
              match registerClient w p id with
              | (w, some e) => (m.absorb w).emit (L "client exc " ++ e.str)
              | (w, none) => (m.absorb w).emit (L "client ok")
            | none => m.emit (L "err unknown port " ++ port)
          | _ => m.emit (L "err usage: client <port> <id>")
        else if op = L "bind" then
          -- skip=<port>.<dir>.<ev>[@id]
          let skips : List (Str × EvDir × Str × Option Str) := rest.filterMap fun t =>
            let (k, v) := kv t
            if k = L "skip" then
              match splitChar '@' v [] with
              | [s] => (parseSlotSpec s).map fun (p, d, e) => (p, d, e, none)
              | [s, id] => (parseSlotSpec s).map fun (p, d, e) => (p, d, e, some id)
              | _ => none
            else none
          let w := (exposed m.ir).foldl (fun w p =>
            let envDir : EvDir := if p.dzn.port.dir = .provides then .out else .in_
            (eventsOf p.dzn.itf envDir).foldl (fun w ev =>
              if p.isMc then
                match w.selector p.target with
                | none => w
                | some sel => sel.clients.foldl (fun w id =>
                    if skips.any (fun (sp, sd, se, sid) => sp = p.name ∧ sd = envDir ∧ se = ev.name ∧ (sid = none ∨ sid = some id))
                    then w
                    else w.set { obj := .client p.target id, dir := envDir, ev := ev.name } (.scripted (.envc id) p.name ev)) w
              else
                if skips.any (fun (sp, sd, se, _) => sp = p.name ∧ sd = envDir ∧ se = ev.name) then w
                else
                  let obj := if p.dzn.sem = .sts then RObj.enc p.name else .bnd p.target
                  w.set { obj, dir := envDir, ev := ev.name } (.scripted .env p.name ev)) w) w
          (m.absorb w).emit (L "bind ok")
        else if op = L "final" then
          let parent := rest.head? = some (L "1")
          match finalConstruct w parent with
          | (w, some e) => (m.absorb w).emit (L "final exc " ++ e.str)
          | (w, none) => (m.absorb w).emit (L "final ok parent=" ++ (if parent then L "1" else L "0"))
        else if op = L "pump" then
          let before := w.executed
          match drainR m.rx fuel0 w with
          | (w, some e) => (m.absorb w).emit (L "pump exc " ++ e.str ++ L " executed=" ++ natToStr (w.executed - before))
          | (w, none) => (m.absorb w).emit (L "pump executed=" ++ natToStr (w.executed - before))
        else if op = L "ids" then
          match rest.head?.bind (findPort m.ir) with
          | some p =>
            match w.selector p.target with
            | some sel => m.emit (L "ids " ++ join (L ",") (sortedIds sel.clients))
            | none => m.emit (L "err not multiclient " ++ p.name)
          | none => m.emit (L "err unknown port")
        else if op = L "call" ∨ op = L "raise" then
          match rest with
          | target :: evName :: argToks =>
            let (portName, cid) := match splitChar '@' target [] with
              | [p, id] => (p, some id)
              | _ => (target, none)
            let isCall := op = L "call"
            -- `raise` may also address injected ports; look the port up among all ports
            match m.allPorts.find? (fun pi => pi.1.name = portName) with
            | none => m.emit (L "err unknown port " ++ portName)
            | some (port, itf) =>
              match itf.events.find? (fun e => e.name = evName) with
              | none => m.emit (L "err unknown event " ++ portName ++ L "." ++ evName)
              | some ev =>
                let d := evDirOf ev
                let envSide := (port.dir = .provides ∧ d = .in_) ∨ (port.dir = .requires ∧ d = .out)
                if isCall ≠ envSide then m.emit (L "err wrong direction " ++ portName ++ L "." ++ evName) else
                let args := padArgs ev.formals.length (argToks.map parseInt)
                let slot? : Except Str RSlot :=
                  if isCall then
                    match findPort m.ir portName with
                    | none => .error (L "err port not exposed " ++ portName)
                    | some p =>
                      if p.isMc then
                        match cid, w.selector p.target with
                        | some id, some sel =>
                          if sel.clients.contains id then .ok (callSlot p (some id) evName d)
                          else .error (L "err unknown client " ++ portName ++ L "@" ++ id)
                        | _, _ => .error (L "err unknown client " ++ portName ++ L "@" ++ (cid.getD []))
                      else if cid.isSome then .error (L "err not multiclient " ++ portName)
                      else .ok (callSlot p none evName d)
                  else .ok { obj := .enc portName, dir := d, ev := evName }
                match slot? with
                | .error e => m.emit e
                | .ok slot =>
                  let w0 := { w with pumpTouched := false }
                  let (w1, r) := invokeR m.rx fuel0 w0 slot args
                  match r with
                  | .exc e => (m.absorb w1).emit (L "exc " ++ e.str)
                  | .ok rep after => (m.absorb w1).emit (retLine w0 w1 rep after)
          | _ => m.emit (L "err usage")
        else m.emit (L "err unknown op " ++ op)

/-- run a whole script; the trace in program order -/
def runScript (ir : ShellIR) (allPorts : List (Port × InterfaceD)) (grantIndex : Option Nat)
    (script : List Str) : List Str :=
  ((script.foldl step { ir, allPorts, grantIndex }).out).reverse

end Sem
