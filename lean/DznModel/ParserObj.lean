/-
  DznModel.ParserObj — the `DznJsonAst` *object*: instances with a loaded document and the
  accumulator `_file_contents`; operations constructor / load_file / process (C16).
-/
import DznModel.Parser
open Py Ast

namespace ParserObj

structure Inst where
  ast : Option JVal := none      -- `_ast` (None when constructed without contents)
  acc : FC := {}                 -- `_file_contents`
  deriving Inhabited

inductive Op
  | new (k : Nat) (doc : Option JVal)     -- `insts[k] = DznJsonAst(doc)`
  | load (k : Nat) (doc : JVal)           -- `insts[k].load_file(doc)`
  | process (k : Nat)                     -- `insts[k].process()`
  deriving Inhabited

abbrev State := List (Nat × Inst)

def getI (s : State) (k : Nat) : Inst := (s.lookup k).getD {}
def setI (s : State) (k : Nat) (i : Inst) : State := (k, i) :: s.filter (·.1 != k)

/-- result of one `process()`: the file contents object returned, or the error raised -/
abbrev Out := Option (R FC)

/-- `process()` starts from a fresh FileContents and namespace trail (after the repair of D-2;
    before it, the second argument of `processFrom` was `i.acc`) -/
def processInst (i : Inst) : Inst × R FC :=
  match Parser.processFrom (i.ast.getD .null) {} with
  | (fc, none) => ({ i with acc := fc }, .ok fc)
  | (fc, some e) => ({ i with acc := fc }, .error e)

def step (s : State) : Op → State × Out
  | .new k doc => (setI s k { ast := doc, acc := {} }, none)
  | .load k doc => (setI s k { getI s k with ast := some doc }, none)
  | .process k => let (i, r) := processInst (getI s k); (setI s k i, some r)

def run (s : State) : List Op → State × List Out
  | [] => (s, [])
  | op :: ops =>
    let (s', o) := step s op
    let (s'', os) := run s' ops
    (s'', o :: os)

/-! the specification: which document is loaded in instance `k` after a history -/
def docAfter (k : Nat) : List Op → Option JVal → Option JVal
  | [], d => d
  | .new k' doc :: ops, d => docAfter k ops (if k' = k then doc else d)
  | .load k' doc :: ops, d => docAfter k ops (if k' = k then some doc else d)
  | .process _ :: ops, d => docAfter k ops d

end ParserObj
