/-
  C17 / C18 / C19 over *histories*: one TextBlock (or Comment) object under an arbitrary sequence of
  operations (append, +=, trim, indent, set_indentor, the `lines` setter, `+`, being poured into
  another block, being rendered).  The single-call theorems of C17/C18/C19 are lifted to every state
  the object can reach; the tie (`tb.hist` stream) runs the same histories on one real object, so
  state that outlives a call — a cached rendering, a shared buffer — is seen.
-/
import DznModel
import DznProofs.Lemmas.Text
import DznProofs.C17
import DznProofs.C18
import DznProofs.C19
open Py Text Lem

namespace C17

/-- an indenter whose glyph contains no line break -/
def indOk (i : Indentizer) : Bool :=
  match i.bullet with
  | none => true
  | some (_, g) => Spec.breakFree g

/-- the operation's own inputs are well-formed: nested blocks respect the invariant, lines written
    through the setter contain no line break, glyphs contain no line break -/
def HOp.ok : HOp → Bool
  | .append c => Spec.wfContent c
  | .add c => Spec.wfContent c
  | .setLines ls => ls.all Spec.breakFree
  | .indent (some i) => indOk i
  | .setIndentor i => indOk i
  | _ => true

/-- the invariant of the object: no stored line contains a line break (and the stored indenter's
    glyph does not either) -/
def Inv (o : TObj) : Prop := (∀ l ∈ o.tb.lines, Spec.breakFree l = true) ∧ indOk o.tb.ind = true

theorem breakFree_spaces (n : Nat) : Spec.breakFree (spaces n) = true := by
  simp [Spec.breakFree, spaces, isBreak]

theorem breakFree_bulletized (i : Indentizer) (h : indOk i = true) : Spec.breakFree i.bulletized = true := by
  unfold Indentizer.bulletized
  unfold indOk at h
  cases hb : i.bullet with
  | none => rfl
  | some p =>
    obtain ⟨m, g⟩ := p
    simp only [hb] at h
    cases i.indentor with
    | spaces n =>
      simp only [ljust]
      rw [breakFree_append, breakFree_append, h, breakFree_spaces]; rfl
    | tab => simp only []; rw [breakFree_append, h]; rfl

theorem breakFree_whitespace (i : Indentizer) : Spec.breakFree i.whitespace = true := by
  unfold Indentizer.whitespace
  cases i.indentor with
  | tab => rfl
  | spaces n => cases i.bullet <;> exact breakFree_spaces _

theorem breakFree_onlyIndent (i : Indentizer) (l : Str) (h : Spec.breakFree l = true) :
    Spec.breakFree (i.onlyIndent l) = true := by
  unfold Indentizer.onlyIndent
  split
  · rfl
  · rw [breakFree_append, breakFree_whitespace, h]; rfl

/-- one indentation step keeps every line free of line breaks -/
theorem toListFlat_breakFree (i : Indentizer) (hi : indOk i = true) (ls : List Str)
    (h : ∀ l ∈ ls, Spec.breakFree l = true) : ∀ l ∈ i.toListFlat ls, Spec.breakFree l = true := by
  have hb := breakFree_bulletized i hi
  have key : ∀ a, Spec.breakFree a = true → Spec.breakFree (strip (i.bulletized ++ a)) = true := by
    intro a ha; apply breakFree_strip; rw [breakFree_append, hb, ha]; rfl
  unfold Indentizer.toListFlat
  cases hbl : i.bullet with
  | none =>
    intro l hl
    obtain ⟨a, ha, rfl⟩ := List.mem_map.mp hl
    exact breakFree_onlyIndent i a (h a ha)
  | some p =>
    obtain ⟨m, g⟩ := p
    cases m with
    | all =>
      intro l hl
      obtain ⟨a, ha, rfl⟩ := List.mem_map.mp hl
      exact key a (h a ha)
    | firstOnly =>
      cases ls with
      | nil => intro l hl; cases hl
      | cons a as =>
        intro l hl
        rcases List.mem_cons.mp hl with rfl | hl
        · exact key a (h a (List.mem_cons_self))
        · obtain ⟨b, hb', rfl⟩ := List.mem_map.mp hl
          exact breakFree_onlyIndent i b (h b (List.mem_cons_of_mem _ hb'))

theorem trimFront_sublist (ls : List Str) : (trimFront ls).Sublist ls := by
  induction ls with
  | nil => exact List.Sublist.refl _
  | cons a as ih =>
    simp only [trimFront]; split
    · exact List.Sublist.cons _ ih
    · exact List.Sublist.refl _

theorem trimList_subset (ls : List Str) (e : Bool) : ∀ l ∈ trimList ls e, l ∈ ls := by
  intro l hl
  unfold trimList at hl
  simp only [List.mem_reverse] at hl
  have h1 := (trimFront_sublist _).subset hl
  simp only [List.mem_reverse] at h1
  cases e with
  | true => simpa using h1
  | false => simp only [Bool.false_eq_true, if_false] at h1; exact (trimFront_sublist _).subset h1

/-- **the invariant is inductive**: every operation with well-formed inputs keeps it -/
theorem step_inv (o : TObj) (op : HOp) (hop : HOp.ok op = true) (h : Inv o) : Inv (o.step op).1 := by
  obtain ⟨hl, hi⟩ := h
  cases op with
  | append c =>
    refine ⟨?_, hi⟩
    intro l hm
    simp only [TObj.step, TB.append] at hm
    rcases List.mem_append.mp hm with h1 | h1
    · exact hl l h1
    · exact no_break c hop l h1
  | trim e =>
    refine ⟨?_, hi⟩
    intro l hm
    exact hl l (trimList_subset _ e l hm)
  | indent i =>
    cases i with
    | none =>
      refine ⟨?_, hi⟩
      intro l hm
      exact toListFlat_breakFree o.tb.ind hi o.tb.lines hl l hm
    | some i =>
      refine ⟨?_, hop⟩
      intro l hm
      exact toListFlat_breakFree i hop o.tb.lines hl l hm
  | setIndentor i => exact ⟨hl, hop⟩
  | setLines ls =>
    refine ⟨?_, hi⟩
    intro l hm
    simp only [HOp.ok, List.all_eq_true] at hop
    exact hop l hm
  | add c => exact ⟨hl, hi⟩
  | pour b => exact ⟨hl, hi⟩
  | observe => exact ⟨hl, hi⟩

/-- **C17 over histories — no stored line ever contains a line break**: in every state an object
    reaches through any sequence of well-formed operations, every line of its buffer is free of line
    breaks -/
theorem hist_no_break (o : TObj) (ops : List HOp) (hops : ∀ op ∈ ops, HOp.ok op = true) (h : Inv o) :
    ∀ x ∈ o.run ops, ∀ l ∈ x.lines, Spec.breakFree l = true := by
  induction ops generalizing o with
  | nil => intro x hx; cases hx
  | cons op ops ih =>
    intro x hx
    have hs := step_inv o op (hops op (List.mem_cons_self)) h
    simp only [TObj.run] at hx
    rcases List.mem_cons.mp hx with rfl | hx
    · exact hs.1
    · exact ih (o.step op).1 (fun p hp => hops p (List.mem_cons_of_mem _ hp)) hs x hx

/-- construction establishes the invariant -/
theorem new_inv (isC : Bool) (c h : Content) (hc : Spec.wfContent c = true) : Inv (TObj.new isC c h) := by
  unfold TObj.new
  cases isC with
  | true => exact ⟨by simpa [TB.mk'] using no_break c hc, by simp [TB.mk', indOk, commentIndentizer, Spec.breakFree, isBreak]⟩
  | false => exact ⟨by simpa [TB.mk'] using no_break c hc, by simp [TB.mk', indOk]⟩

/-- no operation touches the header or turns a comment into a plain block -/
theorem step_frame (o : TObj) (op : HOp) :
    (o.step op).1.tb.header = o.tb.header ∧ (o.step op).1.isComment = o.isComment := by
  cases op with
  | indent i => cases i <;> exact ⟨rfl, rfl⟩
  | _ => exact ⟨rfl, rfl⟩

/-- **string form over histories**: after any sequence of operations the string form of a plain block
    is every header line and every *current* content line followed by exactly one newline -/
theorem hist_str (o : TObj) (ops : List HOp) (hc : o.isComment = false) :
    ∀ x ∈ o.run ops, x.str = Spec.strSpec o.tb.header x.lines := by
  induction ops generalizing o with
  | nil => intro x hx; cases hx
  | cons op ops ih =>
    intro x hx
    have hf := step_frame o op
    simp only [TObj.run] at hx
    rcases List.mem_cons.mp hx with rfl | hx
    · simp only [TObj.str, hf.2, hc, Bool.false_eq_true, if_false]
      rw [str_spec, hf.1]
    · have := ih (o.step op).1 (by rw [hf.2]; exact hc) x hx
      rw [hf.1] at this; exact this

/-- operations that leave the stored indenter alone -/
def HOp.keepsIndenter : HOp → Bool
  | .indent (some _) => false
  | .setIndentor _ => false
  | _ => true

theorem step_ind (o : TObj) (op : HOp) (h : HOp.keepsIndenter op = true) : (o.step op).1.tb.ind = o.tb.ind := by
  cases op with
  | indent i => cases i with
    | none => rfl
    | some i => simp [HOp.keepsIndenter] at h
  | setIndentor i => simp [HOp.keepsIndenter] at h
  | _ => rfl

/-- **C19 over histories**: a Comment that is extended, trimmed, added to, poured, observed, has its
    lines replaced — in any order, any number of times, renderings in between — renders in every state
    as the `//` rendering of its *current* lines: every line starts with `//` and carries the text -/
theorem hist_comment (o : TObj) (ops : List HOp) (hc : o.isComment = true) (hi : o.tb.ind = commentIndentizer)
    (hk : ∀ op ∈ ops, HOp.keepsIndenter op = true) :
    ∀ x ∈ o.run ops, x.str = Spec.commentSpec x.lines := by
  induction ops generalizing o with
  | nil => intro x hx; cases hx
  | cons op ops ih =>
    intro x hx
    have hf := step_frame o op
    have hind := step_ind o op (hk op (List.mem_cons_self))
    simp only [TObj.run] at hx
    rcases List.mem_cons.mp hx with rfl | hx
    · simp only [TObj.str, hf.2, hc, if_true, hind, hi]
      exact C19.render_spec _
    · exact ih (o.step op).1 (by rw [hf.2]; exact hc) (by rw [hind]; exact hi)
        (fun p hp => hk p (List.mem_cons_of_mem _ hp)) x hx

/-- rendering (observing, pouring, adding) never changes the object -/
theorem observation_is_pure (o : TObj) (op : HOp)
    (h : match op with | .observe | .add _ | .pour _ => True | _ => False) : (o.step op).1 = o := by
  cases op <;> first | rfl | exact absurd h (by simp)

/-- appending in a history is concatenation with the pieces of the content -/
theorem hist_append (o : TObj) (c : Content) (h : Spec.wfContent c = true) :
    (o.step (.append c)).1.tb.lines = o.tb.lines ++ Spec.piecesTop c := append_concat o.tb c h

/-- trimming in a history removes only leading / trailing blank lines -/
theorem hist_trim (o : TObj) (e : Bool) :
    (o.step (.trim e)).1.tb.lines = Spec.trimSpec o.tb.lines e := trim_spec _ _

/-- indenting in a history satisfies every clause of the C18 step specification -/
theorem hist_indent (o : TObj) (i : Indentizer) :
    Spec.holdsC18_step i o.tb.lines (o.step (.indent (some i))).1.tb.lines = [] := C18.step_spec i _

/-- non-vacuity: a concrete history (render, trim, render again) on a block with a header -/
example : (TObj.new false (.list [.str [], .str (L "a"), .str []]) (.str (L "H"))).run
      [.observe, .trim false, .pour true] =
    [{ lines := [[], L "a", []], str := L "H\n\na\n\n", extra := none },
     { lines := [L "a"], str := L "H\na\n", extra := none },
     { lines := [L "a"], str := L "H\na\n", extra := some [L "H", L "a"] }] := by decide

end C17

/-! ### several blocks handed to one another -/
namespace C17

/-- the object a multi-object step is applied to (none: the step only produces a new block) -/
def HOp2.target : HOp2 → Option Nat
  | .on o _ => some o
  | .appendRef o _ => some o
  | .addRef _ _ => none
  | .newFrom o _ _ => some o
  | .appendLinesOf o _ => some o
  | .newWithHeader o _ _ => some o
  | .clone o _ => some o

theorem objAt_set_ne (objs : List TObj) (o i : Nat) (x : TObj) (h : i ≠ o) :
    objAt (objs.set o x) i = objAt objs i := by
  simp [objAt, List.getD_eq_getElem?_getD, List.getElem?_set_ne (Ne.symm h)]

/-- **blocks stay independent**: handing a block to another one (append, `+=`, `+`, construction from it,
    appending its `lines`) copies lines; a step changes no block other than the one it is applied to —
    in particular never the block that was handed over -/
theorem step2_frame (objs : List TObj) (op : HOp2) (i : Nat) (h : HOp2.target op ≠ some i) :
    objAt (step2 objs op).1 i = objAt objs i := by
  cases op with
  | on o p =>
    have hne : i ≠ o := by intro e; exact h (by simp [HOp2.target, e])
    simp only [step2]
    exact objAt_set_ne _ _ _ _ hne
  | appendRef o j =>
    have hne : i ≠ o := by intro e; exact h (by simp [HOp2.target, e])
    simp only [step2]
    exact objAt_set_ne _ _ _ _ hne
  | addRef o j => rfl
  | newFrom o j c =>
    have hne : i ≠ o := by intro e; exact h (by simp [HOp2.target, e])
    simp only [step2]
    exact objAt_set_ne _ _ _ _ hne
  | appendLinesOf o j =>
    have hne : i ≠ o := by intro e; exact h (by simp [HOp2.target, e])
    simp only [step2]
    exact objAt_set_ne _ _ _ _ hne
  | newWithHeader o j k =>
    have hne : i ≠ o := by intro e; exact h (by simp [HOp2.target, e])
    simp only [step2]
    exact objAt_set_ne _ _ _ _ hne
  | clone o j =>
    have hne : i ≠ o := by intro e; exact h (by simp [HOp2.target, e])
    simp only [step2]
    exact objAt_set_ne _ _ _ _ hne

/-- a deep copy is an equal block, and a separate one: whatever is done to the copy afterwards (any step whose
    target is the copy) leaves the original as it was -/
theorem clone_equal (objs : List TObj) (o j : Nat) (ho : o < objs.length) :
    objAt (step2 objs (.clone o j)).1 o = objAt objs j := by
  simp [step2, objAt, List.getD_eq_getElem?_getD, ho]

theorem clone_independent (objs : List TObj) (o j : Nat) (op : HOp2) (hne : j ≠ o)
    (ht : HOp2.target op = some o) :
    objAt (step2 (step2 objs (.clone o j)).1 op).1 j = objAt objs j := by
  have h1 : HOp2.target op ≠ some j := by
    rw [ht]; intro e; exact hne (Option.some.inj e).symm
  have h2 : HOp2.target (.clone o j) ≠ some j := by
    simp only [HOp2.target]; intro e; exact hne (Option.some.inj e).symm
  rw [step2_frame _ op j h1]
  exact step2_frame objs (.clone o j) j h2

/-- appending a block is appending its current lines (its header is not taken over) -/
theorem appendRef_lines (objs : List TObj) (o j : Nat) (ho : o < objs.length) :
    (objAt (step2 objs (.appendRef o j)).1 o).tb.lines = (objAt objs o).tb.lines ++ (objAt objs j).tb.lines := by
  simp [step2, objAt, List.getD_eq_getElem?_getD, ho, TB.append, TObj.asBlock, contentLines]

end C17
