/-
  C01 (continued) — from the generator to the behaviour of the constructed shell.

  `C01.env_to_comp_mts_provides` and its siblings say what one call does *given* what the slots
  hold.  This file closes the gap to the generator: what `create_constructor` emits
  (`assign_origin`, `in_event_assigned`), what the slots of the shell hold after its constructor
  has run (`constructed_store`), and their composition `generated_forwards_in_event`: for every
  model and configuration for which the generator succeeds, every in-event of every multi-threaded
  provides port is forwarded exactly once, intact, with reply and out-values carried back.
-/
import DznModel
import DznProofs.Lemmas.Sem
import DznProofs.C01
import DznProofs.C13Valid
open Py Text Scoping Ast AstView PortSel CppGen Support Shell Sem Lem

namespace C01

/-! ### `runAssigns`: every assignment whose event is known stores its handler; nothing else changes -/

theorem set_ir (w : World) (s : RSlot) (h : RH) : (w.set s h).ir = w.ir := rfl

/-- the event `runAssigns` attaches to an assignment -/
def eventOfAssign (ir : ShellIR) (a : Assign) (itfOfLocal : Option InterfaceD) : Option Event :=
  match a.lhs.obj, itfOfLocal with
  | .local_, some itf => itf.events.find? (fun e => e.name = a.lhs.ev ∧ evDirOf e = a.lhs.dir)
  | _, _ => findEvent (ir.provides ++ ir.requires) a.lhs

theorem runAssigns_ir (w : World) (as : List Assign) (cmv cid : Str) (il : Option InterfaceD) :
    (runAssigns w as cmv cid il).ir = w.ir := by
  unfold runAssigns
  induction as generalizing w with
  | nil => rfl
  | cons a r ih =>
    simp only [List.foldl_cons]
    rw [ih]
    split <;> rfl

theorem runAssigns_cons (w : World) (a : Assign) (r : List Assign) (cmv cid : Str) (il : Option InterfaceD) :
    runAssigns w (a :: r) cmv cid il =
      runAssigns (match eventOfAssign w.ir a il with
                  | some ev => w.set (resolveSlot a.lhs cmv cid) (.ir a.rhs ev cid cmv)
                  | none => w) r cmv cid il := by
  unfold runAssigns eventOfAssign
  simp only [List.foldl_cons]
  rfl

/-- a slot no assignment writes keeps its content -/
theorem runAssigns_get_other (w : World) (as : List Assign) (cmv cid : Str) (il : Option InterfaceD) (k : RSlot)
    (h : ∀ a ∈ as, resolveSlot a.lhs cmv cid ≠ k) :
    (runAssigns w as cmv cid il).get k = w.get k := by
  induction as generalizing w with
  | nil => rfl
  | cons a r ih =>
    rw [runAssigns_cons, ih _ (fun b hb => h b (List.mem_cons_of_mem _ hb))]
    have hne : k ≠ resolveSlot a.lhs cmv cid := fun e => h a (List.mem_cons_self) e.symm
    split
    · exact get_set_other _ _ _ _ hne
    · rfl

/-- **no event is routed twice, none is lost**: with pairwise distinct left-hand sides, after the
    constructor body every assignment's slot holds exactly that assignment's handler -/
theorem runAssigns_get_mem (w : World) (as : List Assign) (cmv cid : Str) (il : Option InterfaceD)
    (hnd : (as.map (fun a => resolveSlot a.lhs cmv cid)).Nodup)
    (a : Assign) (ha : a ∈ as) (ev : Event) (hev : eventOfAssign w.ir a il = some ev) :
    (runAssigns w as cmv cid il).get (resolveSlot a.lhs cmv cid) = some (.ir a.rhs ev cid cmv) := by
  induction as generalizing w with
  | nil => cases ha
  | cons b r ih =>
    simp only [List.map_cons, List.nodup_cons] at hnd
    rw [runAssigns_cons]
    rcases List.mem_cons.mp ha with rfl | har
    · rw [hev]
      rw [runAssigns_get_other _ r cmv cid il _ (fun c hc e => hnd.1 (List.mem_map.mpr ⟨c, hc, e⟩))]
      exact get_set_same _ _ _
    · apply ih _ hnd.2 har
      have : (match eventOfAssign w.ir b il with
              | some ev => w.set (resolveSlot b.lhs cmv cid) (.ir b.rhs ev cid cmv)
              | none => w).ir = w.ir := by split <;> rfl
      rw [this]; exact hev

/-- the same under a per-slot hypothesis (no global distinctness): every assignment to this slot
    assigns this handler for this event — then the slot holds it, however often it is assigned -/
theorem runAssigns_get_of (w : World) (as : List Assign) (cmv cid : Str) (il : Option InterfaceD)
    (a : Assign) (ha : a ∈ as) (ev : Event)
    (hsame : ∀ b ∈ as, resolveSlot b.lhs cmv cid = resolveSlot a.lhs cmv cid →
        b.rhs = a.rhs ∧ eventOfAssign w.ir b il = some ev) :
    (runAssigns w as cmv cid il).get (resolveSlot a.lhs cmv cid) = some (.ir a.rhs ev cid cmv) := by
  have key : ∀ (as : List Assign) (w1 : World), w1.ir = w.ir →
      (∀ b ∈ as, resolveSlot b.lhs cmv cid = resolveSlot a.lhs cmv cid →
        b.rhs = a.rhs ∧ eventOfAssign w.ir b il = some ev) →
      (a ∈ as ∨ w1.get (resolveSlot a.lhs cmv cid) = some (.ir a.rhs ev cid cmv)) →
      (runAssigns w1 as cmv cid il).get (resolveSlot a.lhs cmv cid) = some (.ir a.rhs ev cid cmv) := by
    intro as
    induction as with
    | nil =>
      intro w1 _ _ h
      rcases h with h | h
      · cases h
      · exact h
    | cons b r ih =>
      intro w1 hir hs h
      rw [runAssigns_cons]
      have hir' : (match eventOfAssign w1.ir b il with
              | some ev => w1.set (resolveSlot b.lhs cmv cid) (.ir b.rhs ev cid cmv)
              | none => w1).ir = w.ir := by split <;> exact hir
      apply ih _ hir' (fun c hc => hs c (List.mem_cons_of_mem _ hc))
      by_cases hk : resolveSlot b.lhs cmv cid = resolveSlot a.lhs cmv cid
      · right
        obtain ⟨hr, he⟩ := hs b (by simp) hk
        rw [hir, he, hk, hr]
        exact get_set_same _ _ _
      · rcases h with h | h
        · rcases List.mem_cons.mp h with rfl | h'
          · exact absurd rfl hk
          · left; exact h'
        · right
          split
          · rw [get_set_other _ _ _ _ (fun e => hk e.symm)]; exact h
          · exact h
  exact key as w rfl hsame (Or.inl ha)

/-! ### `compBind`: the mock component's own handlers -/

/-- the write `compBind` performs for one event of one port -/
def compWrite (skip : Option (Str × EvDir × Str)) (w : World) (p : Port) (ev : Event) : World :=
  let d := evDirOf ev
  let slot : RSlot := { obj := .enc p.name, dir := d, ev := ev.name }
  let compSide := (p.dir = .provides ∧ d = .in_) ∨ (p.dir = .requires ∧ d = .out)
  if compSide then
    if skip = some (p.name, d, ev.name) then w else w.set slot (.scripted .comp p.name ev)
  else if p.dir = .requires ∧ p.injected then w.set slot (.noop ev)
  else w

theorem compBind_eq (w : World) (skip : Option (Str × EvDir × Str)) :
    compBind w skip =
      w.allPorts.foldl (fun w (pi : Port × InterfaceD) => pi.2.events.foldl (fun w ev => compWrite skip w pi.1 ev) w) w := rfl

/-- `P` is kept by every write of the component's binding loop -/
theorem compBind_induction (P : World → Prop) (skip : Option (Str × EvDir × Str)) (ports : List (Port × InterfaceD))
    (w : World) (h0 : P w)
    (hstep : ∀ w p itf ev, (p, itf) ∈ ports → ev ∈ itf.events → P w → P (compWrite skip w p ev)) :
    P (ports.foldl (fun w (pi : Port × InterfaceD) => pi.2.events.foldl (fun w ev => compWrite skip w pi.1 ev) w) w) := by
  induction ports generalizing w with
  | nil => exact h0
  | cons pi r ih =>
    simp only [List.foldl_cons]
    apply ih
    · -- inner fold
      have : ∀ (evs : List Event) (w : World), (∀ e ∈ evs, e ∈ pi.2.events) → P w →
          P (evs.foldl (fun w ev => compWrite skip w pi.1 ev) w) := by
        intro evs
        induction evs with
        | nil => intro w _ h; exact h
        | cons e es ihe =>
          intro w hsub h
          simp only [List.foldl_cons]
          apply ihe
          · intro e' he'; exact hsub e' (List.mem_cons_of_mem _ he')
          · exact hstep w pi.1 pi.2 e (by simp) (hsub e (by simp)) h
      exact this pi.2.events w (fun e he => he) h0
    · intro w p itf ev hp hev hw
      exact hstep w p itf ev (List.mem_cons_of_mem _ hp) hev hw

/-- the slot of a component-side event -/
def compSlot (p : Port) (ev : Event) : RSlot := { obj := .enc p.name, dir := evDirOf ev, ev := ev.name }

def compSide (p : Port) (ev : Event) : Prop :=
  (p.dir = .provides ∧ evDirOf ev = .in_) ∨ (p.dir = .requires ∧ evDirOf ev = .out)

/-- a well-formed Dezyne model: a (port name, direction, event name) triple identifies one event
    of one port — Dezyne's own rule that port names are unique in a component and event names in
    an interface -/
def UniqueEvents (ports : List (Port × InterfaceD)) : Prop :=
  ∀ p itf ev p' itf' ev', (p, itf) ∈ ports → ev ∈ itf.events → (p', itf') ∈ ports → ev' ∈ itf'.events →
    compSlot p ev = compSlot p' ev' → p = p' ∧ ev = ev'

/-- after the component's binding loop every component-side event of every port is handled by the
    mock component's own scripted handler of that port and event -/
theorem compBind_get (w : World) (hu : UniqueEvents w.allPorts) (p : Port) (itf : InterfaceD) (ev : Event)
    (hp : (p, itf) ∈ w.allPorts) (hev : ev ∈ itf.events) (hside : compSide p ev) :
    (compBind w none).get (compSlot p ev) = some (.scripted .comp p.name ev) := by
  rw [compBind_eq]
  -- invariant: either the write for (p, ev) is still to come and nothing is known, or the slot holds the handler
  -- we prove the stronger, position-free statement: after the loop the slot holds the handler, because every
  -- write to this slot writes this value and the write for (p, ev) happens
  have key : ∀ (ports : List (Port × InterfaceD)) (w0 : World),
      (∀ pi ∈ ports, pi ∈ w.allPorts) →
      ((p, itf) ∈ ports ∨ w0.get (compSlot p ev) = some (.scripted .comp p.name ev)) →
      (ports.foldl (fun w (pi : Port × InterfaceD) => pi.2.events.foldl (fun w ev => compWrite none w pi.1 ev) w) w0).get
        (compSlot p ev) = some (.scripted .comp p.name ev) := by
    intro ports
    induction ports with
    | nil =>
      intro w0 _ h
      rcases h with h | h
      · cases h
      · exact h
    | cons pi r ih =>
      intro w0 hsub h
      simp only [List.foldl_cons]
      apply ih _ (fun x hx => hsub x (List.mem_cons_of_mem _ hx))
      -- the inner loop over pi's events
      have inner : ∀ (evs : List Event) (w1 : World), (∀ e ∈ evs, e ∈ pi.2.events) →
          ((pi = (p, itf) ∧ ev ∈ evs) ∨ w1.get (compSlot p ev) = some (.scripted .comp p.name ev)) →
          (evs.foldl (fun w ev => compWrite none w pi.1 ev) w1).get (compSlot p ev) = some (.scripted .comp p.name ev) := by
        intro evs
        induction evs with
        | nil =>
          intro w1 _ h
          rcases h with ⟨_, h⟩ | h
          · cases h
          · exact h
        | cons e es ihe =>
          intro w1 hsub' h
          simp only [List.foldl_cons]
          apply ihe _ (fun x hx => hsub' x (List.mem_cons_of_mem _ hx))
          have hpi : (pi.1, pi.2) ∈ w.allPorts := hsub pi (by simp)
          have he : e ∈ pi.2.events := hsub' e (by simp)
          by_cases hk : compSlot pi.1 e = compSlot p ev
          · -- this write targets our slot: by uniqueness it is the write for (p, ev)
            obtain ⟨hpp, hee⟩ := hu pi.1 pi.2 e p itf ev hpi he hp hev hk
            right
            subst hpp; subst hee
            have hs : (pi.1.dir = .provides ∧ evDirOf e = .in_) ∨ (pi.1.dir = .requires ∧ evDirOf e = .out) := hside
            simp only [compWrite, hs, if_true]
            simp only [show (none : Option (Str × EvDir × Str)) = some (pi.1.name, evDirOf e, e.name) ↔ False from by simp, if_false]
            exact get_set_same _ _ _
          · -- another slot
            have hne : compSlot p ev ≠ compSlot pi.1 e := fun x => hk x.symm
            have hkeep : (compWrite none w1 pi.1 e).get (compSlot p ev) = w1.get (compSlot p ev) := by
              unfold compWrite
              simp only
              split
              · split
                · rfl
                · exact get_set_other _ _ _ _ hne
              · split
                · exact get_set_other _ _ _ _ hne
                · rfl
            rcases h with ⟨hpi', hmem⟩ | h
            · rcases List.mem_cons.mp hmem with rfl | hmem'
              · exfalso; apply hk; rw [hpi']
              · left; exact ⟨hpi', hmem'⟩
            · right; rw [hkeep]; exact h
      rcases h with h | h
      · rcases List.mem_cons.mp h with heq | h'
        · right
          exact inner pi.2.events w0 (fun e he => he) (Or.inl ⟨heq.symm, by rw [← heq]; exact hev⟩)
        · left; exact h'
      · right
        exact inner pi.2.events w0 (fun e he => he) (Or.inr h)
  exact key w.allPorts w (fun _ h => h) (Or.inl hp)


/-! ### the constructed shell -/

/-- the world in which the constructor body runs: the component has bound its own events, the
    selectors of the multi-client ports exist -/
def bodyWorld (ir : ShellIR) (allPorts : List (Port × InterfaceD)) (gi : Option Nat) (pump runtime : Bool)
    (name : Str) (extra : Bool) : World :=
  let w := compBind { ir, allPorts, grantIndex := gi, instName := name, protoPump := pump,
                      fac := facInfo ir pump runtime extra } none
  { w with selectors := (ir.provides.filter (·.isMc)).map (fun p => { mv := p.target, port := p.name }) }

theorem construct_ok (ir : ShellIR) (allPorts : List (Port × InterfaceD)) (gi : Option Nat) (pump runtime : Bool)
    (name : Str) (extra : Bool) (hf : ctorCheck ir pump runtime = none) :
    construct ir allPorts gi pump runtime none name extra =
      .ok (runAssigns (bodyWorld ir allPorts gi pump runtime name extra) ir.ctorAssigns [] [] none) := by
  unfold construct
  rw [hf]
  rfl

theorem compBind_fields (w : World) (skip : Option (Str × EvDir × Str)) :
    (compBind w skip).ir = w.ir ∧ (compBind w skip).queue = w.queue ∧ (compBind w skip).allPorts = w.allPorts := by
  rw [compBind_eq]
  apply compBind_induction (fun w' => w'.ir = w.ir ∧ w'.queue = w.queue ∧ w'.allPorts = w.allPorts)
  · exact ⟨rfl, rfl, rfl⟩
  · intro w' p itf ev _ _ h
    unfold compWrite
    simp only
    split
    · split
      · exact h
      · exact h
    · split
      · exact h
      · exact h

theorem runAssigns_queue (w : World) (as : List Assign) (cmv cid : Str) (il : Option InterfaceD) :
    (runAssigns w as cmv cid il).queue = w.queue := by
  induction as generalizing w with
  | nil => rfl
  | cons a r ih =>
    rw [runAssigns_cons, ih]
    split <;> rfl

theorem get_with_selectors (w : World) (sel : List Selector) (k : RSlot) :
    ({ w with selectors := sel } : World).get k = w.get k := rfl

/-- what a constructed shell's slots hold (constructor body after the component's own bindings) -/
theorem constructed_store (ir : ShellIR) (allPorts : List (Port × InterfaceD)) (gi : Option Nat) (pump runtime : Bool)
    (name : Str) (extra : Bool) (hf : ctorCheck ir pump runtime = none) :
    ∃ w, construct ir allPorts gi pump runtime none name extra = .ok w ∧ w.queue = [] ∧
      -- a constructor assignment is in force when every assignment to its slot assigns the same handler
      (∀ a ∈ ir.ctorAssigns, ∀ ev, findEvent (ir.provides ++ ir.requires) a.lhs = some ev → a.lhs.obj ≠ .local_ →
          (∀ b ∈ ir.ctorAssigns, resolveSlot b.lhs [] [] = resolveSlot a.lhs [] [] →
              b.rhs = a.rhs ∧ b.lhs.obj ≠ .local_ ∧ findEvent (ir.provides ++ ir.requires) b.lhs = some ev) →
          w.get (resolveSlot a.lhs [] []) = some (.ir a.rhs ev [] [])) ∧
      -- every component-side event the constructor does not touch is handled by the component itself
      (UniqueEvents allPorts → ∀ p itf ev, (p, itf) ∈ allPorts → ev ∈ itf.events → compSide p ev →
          (∀ b ∈ ir.ctorAssigns, resolveSlot b.lhs [] [] ≠ compSlot p ev) →
          w.get (compSlot p ev) = some (.scripted .comp p.name ev)) := by
  refine ⟨_, construct_ok ir allPorts gi pump runtime name extra hf, ?_, ?_, ?_⟩
  · rw [runAssigns_queue]
    exact (compBind_fields _ none).2.1
  · intro a ha ev hev hloc hsame
    have hir : (bodyWorld ir allPorts gi pump runtime name extra).ir = ir := (compBind_fields _ none).1
    have hE : ∀ c : Assign, c.lhs.obj ≠ .local_ →
        eventOfAssign ir c none = findEvent (ir.provides ++ ir.requires) c.lhs := by
      intro c hc
      unfold eventOfAssign
      cases hobj : c.lhs.obj with
      | local_ => exact absurd hobj hc
      | enc _ => rfl
      | bnd _ => rfl
      | arb _ => rfl
    apply runAssigns_get_of _ _ _ _ _ a ha ev
    · intro b hb hk
      obtain ⟨h1, h2, h3⟩ := hsame b hb hk
      rw [hir, hE b h2]
      exact ⟨h1, h3⟩
  · intro hu p itf ev hp hev hside hno
    rw [runAssigns_get_other _ _ _ _ _ _ hno]
    exact compBind_get _ hu p itf ev hp hev hside

/-- **C01, end to end for a constructed shell** (environment → component, multi-threaded provides
    port): if the constructor of a wiring IR routes the boundary slot `mv.in.ev` through the
    dispatcher to `m_encapsulee.p.in.ev` with the parameters in declared order, no two constructor
    assignments share a left-hand side and none overwrites the component's own handler, then in the
    shell `construct` yields a client's call of `ev` on the boundary port is executed by the wrapped
    component's event `ev` of port `p` exactly once (one observation, in dispatcher context), with
    the arguments intact and in order, and the component's reply and out/inout values come back -/
theorem constructed_forwards_in_event (ir : ShellIR) (allPorts : List (Port × InterfaceD)) (gi : Option Nat)
    (pump runtime : Bool) (name : Str) (extra : Bool) (n : Nat)
    (hf : ctorCheck ir pump runtime = none)
    (hu : UniqueEvents allPorts)
    (p : Port) (itf : InterfaceD) (ev : Event) (hp : (p, itf) ∈ allPorts) (hev : ev ∈ itf.events)
    (hdir : p.dir = .provides) (hin : evDirOf ev = .in_)
    (mv : Str) (ps : List LParam) (byVal : List Str)
    (ha : ({ lhs := ⟨.bnd mv, .in_, ev.name⟩,
             rhs := .shell ⟨.enc p.name, .in_, ev.name⟩ ps (ps.map (·.name)) byVal } : Assign) ∈ ir.ctorAssigns)
    (hfe : findEvent (ir.provides ++ ir.requires) ⟨.bnd mv, .in_, ev.name⟩ = some ev)
    (hsame : ∀ b ∈ ir.ctorAssigns, resolveSlot b.lhs [] [] = ⟨.bnd mv, .in_, ev.name⟩ →
        b.rhs = .shell ⟨.enc p.name, .in_, ev.name⟩ ps (ps.map (·.name)) byVal ∧ b.lhs.obj ≠ .local_ ∧
        findEvent (ir.provides ++ ir.requires) b.lhs = some ev)
    (hno : ∀ b ∈ ir.ctorAssigns, resolveSlot b.lhs [] [] ≠ compSlot p ev)
    (args : List Val) (hlen : ps.length = args.length) (hndp : (ps.map (·.name)).Nodup) :
    ∃ w, construct ir allPorts gi pump runtime none name extra = .ok w ∧
      invoke (n + 3) w ⟨.bnd mv, .in_, ev.name⟩ args =
        ({ w with shellCalls := w.shellCalls + 1, pumpTouched := true, executed := w.executed + 1,
                  out := obsLine .comp p.name ev args true :: w.out },
         .ok (if isVoid ev then none else some (w.reply true p.name ev.name))
             (writeBack ps args (ps.map (·.name)) (rewritten ev args))) := by
  obtain ⟨w, hw, hq, hassign, hcomp⟩ := constructed_store ir allPorts gi pump runtime name extra hf
  refine ⟨w, hw, ?_⟩
  have hb := hassign _ ha ev hfe (by simp) hsame
  have hc := hcomp hu p itf ev hp hev (Or.inl ⟨hdir, hin⟩) hno
  have hslot : compSlot p ev = ⟨.enc p.name, .in_, ev.name⟩ := by simp [compSlot, hin]
  rw [hslot] at hc
  exact env_to_comp_mts_provides w n mv p.name ev ps byVal args hq hb hc hlen hndp


/-- the assignments `create_constructor` emits, group by group, in emission order -/
theorem createConstructor_inv (fc : FC) (sn : Str) (fac : Facilities) (pp rp : List CppPortItf) (sfns : Ids)
    (ctor : CppGen.Constructor) (assigns : List Assign)
    (h : createConstructor fc sn fac pp rp sfns = .ok (ctor, assigns)) :
    ∃ inPlain outReq inMc outMc,
      ((mtsPorts pp).filter (!·.isMc)).mapM (rerouteInEvents fc) = .ok inPlain ∧
      (mtsPorts rp).mapM (rerouteOutEvents fc) = .ok outReq ∧
      ((mtsPorts pp).filter (·.isMc)).mapM (rerouteInEvents fc) = .ok inMc ∧
      ((mtsPorts pp).filter (·.isMc)).mapM (rerouteMcOutEvents fc) = .ok outMc ∧
      assigns = inPlain.flatten ++ (((mtsPorts pp).filter (!·.isMc)).map stdrefProvidesOut).flatten ++
                inMc.flatten ++ outMc.flatten ++ (((mtsPorts pp).filter (·.isMc)).map stdrefEncapsuleeOut).flatten ++
                outReq.flatten ++ ((mtsPorts rp).map stdrefRequiresIn).flatten := by
  unfold createConstructor at h
  dsimp only at h
  split at h <;> dsimp only at h
  all_goals
    simp only [bind, Except.bind, pure, Except.pure] at h
    split at h
    · cases h
    rename_i inPlain h1
    split at h
    · cases h
    rename_i outReq h2
    split at h
    · cases h
    rename_i inMc h3
    split at h
    · cases h
    rename_i outMc h4
    injection h with h
    injection h with _ h
    exact ⟨inPlain, outReq, inMc, outMc, h1, h2, h3, h4, h.symm⟩


/-! ### membership lemmas for `mapM` in the error monad -/

theorem mapM_mem_fwd {α β} (f : α → R β) (l : List α) (r : List β) (h : l.mapM f = .ok r) :
    ∀ a ∈ l, ∃ b ∈ r, f a = .ok b := by
  induction l generalizing r with
  | nil => intro a ha; cases ha
  | cons x t ih =>
    rw [List.mapM_cons] at h
    simp only [bind, Except.bind, pure, Except.pure] at h
    split at h
    · cases h
    · rename_i b hb
      split at h
      · cases h
      · rename_i bs hbs
        injection h with h; subst h
        intro a ha
        rcases List.mem_cons.mp ha with rfl | ha'
        · exact ⟨b, by simp, hb⟩
        · obtain ⟨b', hb', hf⟩ := ih bs hbs a ha'
          exact ⟨b', by simp [hb'], hf⟩

/-- the assignment `reroute_in_events` emits for one in-event -/
def inAssign (p : CppPortItf) (ev : Event) (ps : List LParam) : Assign :=
  { lhs := { obj := if p.isMc then PortObj.arb p.target else .bnd p.target, dir := .in_, ev := ev.name },
    rhs := .shell { obj := .enc p.name, dir := .in_, ev := ev.name } ps (formalNames ev) (inFormalNames ev) }

theorem rerouteIn_event (fc : FC) (p : CppPortItf) (ev : Event) (a : Assign)
    (h : (do let ps ← lambdaParamsOf fc p.dzn.itf ev true
             pure ({ lhs := { obj := if p.isMc then PortObj.arb p.target else .bnd p.target, dir := .in_, ev := ev.name },
                     rhs := .shell { obj := .enc p.name, dir := .in_, ev := ev.name } ps (formalNames ev) (inFormalNames ev) } : Assign)
          : R Assign) = .ok a) :
    ∃ ps, lambdaParamsOf fc p.dzn.itf ev true = .ok ps ∧ a = inAssign p ev ps := by
  simp only [bind, Except.bind, pure, Except.pure] at h
  split at h
  · cases h
  · rename_i ps hps
    injection h with h
    exact ⟨ps, hps, h.symm⟩

/-- every in-event of the port gets its rerouting assignment … -/
theorem rerouteIn_mem (fc : FC) (p : CppPortItf) (as : List Assign) (h : rerouteInEvents fc p = .ok as)
    (ev : Event) (hev : ev ∈ inEvents p.dzn.itf) :
    ∃ ps, lambdaParamsOf fc p.dzn.itf ev true = .ok ps ∧ inAssign p ev ps ∈ as := by
  unfold rerouteInEvents at h
  obtain ⟨a, ha, hf⟩ := mapM_mem_fwd _ _ _ h ev hev
  obtain ⟨ps, hps, rfl⟩ := rerouteIn_event fc p ev a hf
  exact ⟨ps, hps, ha⟩

/-- … and nothing else is emitted -/
theorem rerouteIn_inv (fc : FC) (p : CppPortItf) (as : List Assign) (h : rerouteInEvents fc p = .ok as)
    (a : Assign) (ha : a ∈ as) :
    ∃ ev ∈ inEvents p.dzn.itf, ∃ ps, lambdaParamsOf fc p.dzn.itf ev true = .ok ps ∧ a = inAssign p ev ps := by
  unfold rerouteInEvents at h
  obtain ⟨ev, hev, hf⟩ := mapM_mem _ _ _ h a ha
  obtain ⟨ps, hps, e⟩ := rerouteIn_event fc p ev a hf
  exact ⟨ev, hev, ps, hps, e⟩

/-- the assignment `reroute_out_events` emits for one out-event of a requires port -/
def outAssign (p : CppPortItf) (ev : Event) (ps : List LParam) : Assign :=
  { lhs := { obj := .bnd p.target, dir := .out, ev := ev.name },
    rhs := .post { obj := .enc p.name, dir := .out, ev := ev.name } ps (formalNames ev) (inFormalNames ev) }

theorem rerouteOut_event (fc : FC) (p : CppPortItf) (ev : Event) (a : Assign)
    (h : (do let ps ← lambdaParamsOf fc p.dzn.itf ev false
             pure ({ lhs := { obj := .bnd p.target, dir := .out, ev := ev.name },
                     rhs := .post { obj := .enc p.name, dir := .out, ev := ev.name } ps (formalNames ev) (inFormalNames ev) } : Assign)
          : R Assign) = .ok a) :
    ∃ ps, lambdaParamsOf fc p.dzn.itf ev false = .ok ps ∧ a = outAssign p ev ps := by
  simp only [bind, Except.bind, pure, Except.pure] at h
  split at h
  · cases h
  · rename_i ps hps
    injection h with h
    exact ⟨ps, hps, h.symm⟩

theorem rerouteOut_mem (fc : FC) (p : CppPortItf) (as : List Assign) (h : rerouteOutEvents fc p = .ok as)
    (ev : Event) (hev : ev ∈ outEvents p.dzn.itf) :
    ∃ ps, lambdaParamsOf fc p.dzn.itf ev false = .ok ps ∧ outAssign p ev ps ∈ as := by
  unfold rerouteOutEvents at h
  obtain ⟨a, ha, hf⟩ := mapM_mem_fwd _ _ _ h ev hev
  obtain ⟨ps, hps, rfl⟩ := rerouteOut_event fc p ev a hf
  exact ⟨ps, hps, ha⟩

theorem rerouteOut_inv (fc : FC) (p : CppPortItf) (as : List Assign) (h : rerouteOutEvents fc p = .ok as)
    (a : Assign) (ha : a ∈ as) :
    ∃ ev ∈ outEvents p.dzn.itf, ∃ ps, lambdaParamsOf fc p.dzn.itf ev false = .ok ps ∧ a = outAssign p ev ps := by
  unfold rerouteOutEvents at h
  obtain ⟨ev, hev, hf⟩ := mapM_mem _ _ _ h a ha
  obtain ⟨ps, hps, e⟩ := rerouteOut_event fc p ev a hf
  exact ⟨ev, hev, ps, hps, e⟩

theorem rerouteMcOut_lhs (fc : FC) (p : CppPortItf) (as : List Assign) (h : rerouteMcOutEvents fc p = .ok as)
    (a : Assign) (ha : a ∈ as) : a.lhs.obj = .arb p.target ∧ a.lhs.dir = .out := by
  unfold rerouteMcOutEvents at h
  obtain ⟨ev, _, hf⟩ := mapM_mem _ _ _ h a ha
  simp only [bind, Except.bind, pure, Except.pure] at hf
  split at hf
  · cases hf
  · injection hf with hf; subst hf; exact ⟨rfl, rfl⟩

/-- `stdref_provides_out_events`, one event -/
def provOutAssign (p : CppPortItf) (ev : Event) : Assign :=
  { lhs := { obj := .enc p.name, dir := .out, ev := ev.name }, rhs := .ref { obj := .bnd p.target, dir := .out, ev := ev.name } }
/-- the encapsulee's out-events referenced to the arbitered port, one event -/
def mcEncOutAssign (p : CppPortItf) (ev : Event) : Assign :=
  { lhs := { obj := .enc p.name, dir := .out, ev := ev.name }, rhs := .ref { obj := .arb p.target, dir := .out, ev := ev.name } }
/-- `stdref_requires_in_events`, one event -/
def reqInAssign (p : CppPortItf) (ev : Event) : Assign :=
  { lhs := { obj := .enc p.name, dir := .in_, ev := ev.name }, rhs := .ref { obj := .bnd p.target, dir := .in_, ev := ev.name } }

theorem stdrefProvidesOut_eq (p : CppPortItf) : stdrefProvidesOut p = (outEvents p.dzn.itf).map (provOutAssign p) := rfl
theorem stdrefEncapsuleeOut_eq (p : CppPortItf) : stdrefEncapsuleeOut p = (outEvents p.dzn.itf).map (mcEncOutAssign p) := rfl
theorem stdrefRequiresIn_eq (p : CppPortItf) : stdrefRequiresIn p = (inEvents p.dzn.itf).map (reqInAssign p) := rfl

/-- where a constructor assignment comes from -/
inductive Origin' (fc : FC) (pp rp : List CppPortItf) (a : Assign) : Prop
  | inEvent (p : CppPortItf) (hp : p ∈ mtsPorts pp) (ev : Event) (hev : ev ∈ inEvents p.dzn.itf) (ps : List LParam)
      (hps : lambdaParamsOf fc p.dzn.itf ev true = .ok ps) (e : a = inAssign p ev ps)
  | provOut (p : CppPortItf) (hp : p ∈ mtsPorts pp) (hmc : p.isMc = false) (ev : Event) (hev : ev ∈ outEvents p.dzn.itf)
      (e : a = provOutAssign p ev)
  | mcEncOut (p : CppPortItf) (hp : p ∈ mtsPorts pp) (hmc : p.isMc = true) (ev : Event) (hev : ev ∈ outEvents p.dzn.itf)
      (e : a = mcEncOutAssign p ev)
  | arbOut (p : CppPortItf) (hp : p ∈ mtsPorts pp) (hmc : p.isMc = true) (h : a.lhs.obj = .arb p.target ∧ a.lhs.dir = .out)
  | reqOut (p : CppPortItf) (hp : p ∈ mtsPorts rp) (ev : Event) (hev : ev ∈ outEvents p.dzn.itf) (ps : List LParam)
      (hps : lambdaParamsOf fc p.dzn.itf ev false = .ok ps) (e : a = outAssign p ev ps)
  | reqIn (p : CppPortItf) (hp : p ∈ mtsPorts rp) (ev : Event) (hev : ev ∈ inEvents p.dzn.itf) (e : a = reqInAssign p ev)

theorem mem_flatten_mapM {α} (f : α → R (List Assign)) (l : List α) (r : List (List Assign)) (h : l.mapM f = .ok r)
    (a : Assign) (ha : a ∈ r.flatten) : ∃ x ∈ l, ∃ as, f x = .ok as ∧ a ∈ as := by
  obtain ⟨as, has, haas⟩ := List.mem_flatten.mp ha
  obtain ⟨x, hx, hf⟩ := mapM_mem _ _ _ h as has
  exact ⟨x, hx, as, hf, haas⟩

/-- every assignment of the generated constructor body is one of six kinds -/
theorem assign_origin (fc : FC) (sn : Str) (fac : Facilities) (pp rp : List CppPortItf) (sfns : Ids)
    (ctor : CppGen.Constructor) (assigns : List Assign)
    (h : createConstructor fc sn fac pp rp sfns = .ok (ctor, assigns)) (a : Assign) (ha : a ∈ assigns) :
    Origin' fc pp rp a := by
  obtain ⟨inPlain, outReq, inMc, outMc, h1, h2, h3, h4, rfl⟩ := createConstructor_inv fc sn fac pp rp sfns ctor assigns h
  simp only [List.mem_append] at ha
  rcases ha with (((((ha | ha) | ha) | ha) | ha) | ha) | ha
  · obtain ⟨p, hp, as, hf, haas⟩ := mem_flatten_mapM _ _ _ h1 a ha
    obtain ⟨ev, hev, ps, hps, e⟩ := rerouteIn_inv fc p as hf a haas
    exact .inEvent p (List.mem_filter.mp hp).1 ev hev ps hps e
  · obtain ⟨as, has, haas⟩ := List.mem_flatten.mp ha
    obtain ⟨p, hp, rfl⟩ := List.mem_map.mp has
    rw [stdrefProvidesOut_eq] at haas
    obtain ⟨ev, hev, rfl⟩ := List.mem_map.mp haas
    have := List.mem_filter.mp hp
    exact .provOut p this.1 (by simpa using this.2) ev hev rfl
  · obtain ⟨p, hp, as, hf, haas⟩ := mem_flatten_mapM _ _ _ h3 a ha
    obtain ⟨ev, hev, ps, hps, e⟩ := rerouteIn_inv fc p as hf a haas
    exact .inEvent p (List.mem_filter.mp hp).1 ev hev ps hps e
  · obtain ⟨p, hp, as, hf, haas⟩ := mem_flatten_mapM _ _ _ h4 a ha
    have := List.mem_filter.mp hp
    exact .arbOut p this.1 (by simpa using this.2) (rerouteMcOut_lhs fc p as hf a haas)
  · obtain ⟨as, has, haas⟩ := List.mem_flatten.mp ha
    obtain ⟨p, hp, rfl⟩ := List.mem_map.mp has
    rw [stdrefEncapsuleeOut_eq] at haas
    obtain ⟨ev, hev, rfl⟩ := List.mem_map.mp haas
    have := List.mem_filter.mp hp
    exact .mcEncOut p this.1 (by simpa using this.2) ev hev rfl
  · obtain ⟨p, hp, as, hf, haas⟩ := mem_flatten_mapM _ _ _ h2 a ha
    obtain ⟨ev, hev, ps, hps, e⟩ := rerouteOut_inv fc p as hf a haas
    exact .reqOut p hp ev hev ps hps e
  · obtain ⟨as, has, haas⟩ := List.mem_flatten.mp ha
    obtain ⟨p, hp, rfl⟩ := List.mem_map.mp has
    rw [stdrefRequiresIn_eq] at haas
    obtain ⟨ev, hev, rfl⟩ := List.mem_map.mp haas
    exact .reqIn p hp ev hev rfl

/-- every in-event of every multi-threaded provides port has its rerouting assignment in the body -/
theorem in_event_assigned (fc : FC) (sn : Str) (fac : Facilities) (pp rp : List CppPortItf) (sfns : Ids)
    (ctor : CppGen.Constructor) (assigns : List Assign)
    (h : createConstructor fc sn fac pp rp sfns = .ok (ctor, assigns))
    (p : CppPortItf) (hp : p ∈ mtsPorts pp) (ev : Event) (hev : ev ∈ inEvents p.dzn.itf) :
    ∃ ps, lambdaParamsOf fc p.dzn.itf ev true = .ok ps ∧ inAssign p ev ps ∈ assigns := by
  obtain ⟨inPlain, outReq, inMc, outMc, h1, h2, h3, h4, rfl⟩ := createConstructor_inv fc sn fac pp rp sfns ctor assigns h
  by_cases hmc : p.isMc = true
  · have hp' : p ∈ (mtsPorts pp).filter (·.isMc) := List.mem_filter.mpr ⟨hp, hmc⟩
    obtain ⟨as, has, hf⟩ := mapM_mem_fwd _ _ _ h3 p hp'
    obtain ⟨ps, hps, hin⟩ := rerouteIn_mem fc p as hf ev hev
    exact ⟨ps, hps, by simp only [List.mem_append]; exact Or.inl (Or.inl (Or.inl (Or.inl (Or.inr (List.mem_flatten.mpr ⟨as, has, hin⟩)))))⟩
  · have hp' : p ∈ (mtsPorts pp).filter (!·.isMc) := List.mem_filter.mpr ⟨hp, by simpa using hmc⟩
    obtain ⟨as, has, hf⟩ := mapM_mem_fwd _ _ _ h1 p hp'
    obtain ⟨ps, hps, hin⟩ := rerouteIn_mem fc p as hf ev hev
    exact ⟨ps, hps, by simp only [List.mem_append]; exact Or.inl (Or.inl (Or.inl (Or.inl (Or.inl (Or.inl (List.mem_flatten.mpr ⟨as, has, hin⟩))))))⟩


/-! ### the generated constructor, end to end -/

theorem find?_unique {α} (l : List α) (q : α → Bool) (x : α) (hx : x ∈ l) (hq : q x = true)
    (hu : ∀ y ∈ l, q y = true → y = x) : l.find? q = some x := by
  induction l with
  | nil => cases hx
  | cons a r ih =>
    rw [List.find?_cons]
    by_cases ha : q a = true
    · rw [ha]; simp only; rw [hu a (by simp) ha]
    · have hane : a ≠ x := fun e => ha (e ▸ hq)
      have hxr : x ∈ r := by
        rcases List.mem_cons.mp hx with e | e
        · exact absurd e.symm hane
        · exact e
      simp only [Bool.not_eq_true] at ha
      rw [ha]
      exact ih hxr (fun y hy => hu y (List.mem_cons_of_mem _ hy))

theorem resolveSlot_obj (s : Slot) : (resolveSlot s [] []).dir = s.dir ∧ (resolveSlot s [] []).ev = s.ev ∧
    (resolveSlot s [] []).obj = resolveObj s.obj [] [] := ⟨rfl, rfl, rfl⟩

theorem evDirOf_in (ev : Event) (h : ev.dir = .in_) : evDirOf ev = .in_ := by simp [evDirOf, h]

theorem mem_inEvents (i : InterfaceD) (ev : Event) (h : ev ∈ inEvents i) : ev ∈ i.events ∧ ev.dir = .in_ := by
  unfold inEvents at h
  have := List.mem_filter.mp h
  exact ⟨this.1, by simpa using this.2⟩

/-- **C01 for the generated constructor** (environment → component, multi-threaded provides port
    that is not the multi-client port).  Whatever the model and the configuration: if
    `create_constructor` succeeds, then in the shell constructed from the wiring it emits, a
    client's call of any in-event `ev` of the port on the boundary member is executed by the
    wrapped component's same-named event of the same-named port exactly once — one observation, in
    dispatcher context, arguments intact and in declared order — and the component's reply and
    out/inout values are carried back.
    Hypotheses are Dezyne's own well-formedness rules (event names unique in an interface, formal
    names unique in an event, port names unique in a component) and the absence of the recorded
    name collision K-2 (two ports whose capitalised names coincide share one boundary member). -/
theorem generated_forwards_in_event (fc : FC) (sn : Str) (fac : Facilities) (pp rp : List CppPortItf) (sfns : Ids)
    (ctor : CppGen.Constructor) (assigns : List Assign)
    (h : createConstructor fc sn fac pp rp sfns = .ok (ctor, assigns))
    (ir : ShellIR) (hpp : ir.provides = pp) (hrp : ir.requires = rp) (has : ir.ctorAssigns = assigns)
    (p : CppPortItf) (hp : p ∈ mtsPorts pp) (hmc : p.isMc = false) (ev : Event) (hev : ev ∈ inEvents p.dzn.itf)
    (hinj : ∀ q ∈ pp ++ rp, q.target = p.target → q = p)
    (hnames : ∀ q ∈ rp, q.name ≠ p.name)
    (hevu : ∀ e ∈ p.dzn.itf.events, e.name = ev.name → evDirOf e = .in_ → e = ev)
    (hfn : (ev.formals.map (·.name)).Nodup)
    (allPorts : List (Port × InterfaceD)) (hpa : (p.dzn.port, p.dzn.itf) ∈ allPorts) (hu : UniqueEvents allPorts)
    (hdir : p.dzn.port.dir = .provides)
    (gi : Option Nat) (pump runtime : Bool) (name : Str) (extra : Bool) (n : Nat)
    (hf : ctorCheck ir pump runtime = none)
    (args : List Val) (hlen : ev.formals.length = args.length) :
    ∃ w ps, construct ir allPorts gi pump runtime none name extra = .ok w ∧
      ps.map (·.name) = ev.formals.map (·.name) ∧
      invoke (n + 3) w ⟨.bnd p.target, .in_, ev.name⟩ args =
        ({ w with shellCalls := w.shellCalls + 1, pumpTouched := true, executed := w.executed + 1,
                  out := obsLine .comp p.name ev args true :: w.out },
         .ok (if isVoid ev then none else some (w.reply true p.name ev.name))
             (writeBack ps args (ps.map (·.name)) (rewritten ev args))) := by
  obtain ⟨hevm, hevd⟩ := mem_inEvents _ _ hev
  have hin : evDirOf ev = .in_ := evDirOf_in ev hevd
  obtain ⟨ps, hps, hmem⟩ := in_event_assigned fc sn fac pp rp sfns ctor assigns h p hp ev hev
  have hnm : ps.map (·.name) = ev.formals.map (·.name) := lambdaParams_names fc p.dzn.itf ev true ps hps
  have hppmem : p ∈ pp := (List.mem_filter.mp hp).1
  -- the assignment, in the shape the semantic theorem wants
  have hA : inAssign p ev ps = (Assign.mk ⟨.bnd p.target, .in_, ev.name⟩ (.shell ⟨.enc p.name, .in_, ev.name⟩ ps (ps.map (·.name)) (inFormalNames ev))) := by
    simp [inAssign, hmc, formalNames, hnm]
  -- the event the boundary slot belongs to
  have hfind : ∀ s : Slot, s.obj = .bnd p.target → s.dir = .in_ → s.ev = ev.name →
      findEvent (ir.provides ++ ir.requires) s = some ev := by
    intro s ho hd he
    unfold findEvent
    simp only [ho, hpp, hrp]
    rw [find?_unique (pp ++ rp) (fun q => decide (q.target = p.target)) p (by simp [hppmem]) (by simp)
          (fun q hq hqt => hinj q hq (by simpa using hqt))]
    simp only [Option.bind]
    rw [he, hd]
    exact find?_unique _ _ ev hevm (by simp [hin]) (fun e he' hq => by
      simp only [decide_eq_true_eq] at hq
      exact hevu e he' hq.1 hq.2)
  have hpn : p.name = p.dzn.port.name := rfl
  apply Exists.elim (constructed_forwards_in_event ir allPorts gi pump runtime name extra n hf hu p.dzn.port p.dzn.itf ev hpa hevm
    hdir hin p.target ps (inFormalNames ev) (by rw [has, ← hpn, ← hA]; exact hmem)
    (hfind _ rfl rfl rfl) ?_ ?_ args (by rw [← hlen, ← List.length_map (f := (·.name)), hnm, List.length_map])
    (by rw [hnm]; exact hfn))
  · intro w hw
    exact ⟨w, ps, hw.1, hnm, hw.2⟩
  · -- every assignment to the boundary slot is this one
    intro b hb hk
    rw [has] at hb
    obtain ⟨hkd, hke, hko⟩ := resolveSlot_obj b.lhs
    rw [hk] at hkd hke hko
    cases assign_origin fc sn fac pp rp sfns ctor assigns h b hb with
    | inEvent q hq ev' hev' ps' hps' e =>
      subst e
      obtain ⟨hevm', hevd'⟩ := mem_inEvents _ _ hev'
      have hqmc : q.isMc = false := by
        cases hq' : q.isMc with
        | false => rfl
        | true => simp [inAssign, hq', resolveObj] at hko
      have hqt : q.target = p.target := by
        simp [inAssign, hqmc, resolveObj] at hko; exact hko.symm
      have hqp : q = p := hinj q (by simp [(List.mem_filter.mp hq).1]) hqt
      subst hqp
      have hen : ev'.name = ev.name := by simpa [inAssign] using hke.symm
      have hee : ev' = ev := hevu ev' hevm' hen (evDirOf_in ev' hevd')
      subst hee
      have : ps' = ps := by rw [hps] at hps'; injection hps' with e; exact e.symm
      subst this
      refine ⟨congrArg Assign.rhs hA, by simp [inAssign, hmc], ?_⟩
      exact hfind _ (by simp [inAssign, hmc]) rfl rfl
    | provOut q _ _ ev' _ e => subst e; simp [provOutAssign, resolveObj] at hko
    | mcEncOut q _ _ ev' _ e => subst e; simp [mcEncOutAssign, resolveObj] at hko
    | arbOut q _ _ hl => rw [hl.1] at hko; simp [resolveObj] at hko
    | reqOut q _ ev' _ ps' _ e => subst e; simp [outAssign] at hkd
    | reqIn q _ ev' _ e => subst e; simp [reqInAssign, resolveObj] at hko
  · -- nothing overwrites the component's own handler
    intro b hb hk
    rw [has] at hb
    obtain ⟨hkd, hke, hko⟩ := resolveSlot_obj b.lhs
    rw [hk] at hkd hke hko
    simp only [compSlot, hin] at hkd hke hko
    cases assign_origin fc sn fac pp rp sfns ctor assigns h b hb with
    | inEvent q hq ev' hev' ps' hps' e =>
      subst e
      cases hq' : q.isMc <;> simp [inAssign, hq', resolveObj] at hko
    | provOut q _ _ ev' _ e => subst e; simp [provOutAssign] at hkd
    | mcEncOut q _ _ ev' _ e => subst e; simp [mcEncOutAssign] at hkd
    | arbOut q _ _ hl => rw [hl.1] at hko; simp [resolveObj] at hko
    | reqOut q _ ev' _ ps' _ e => subst e; simp [outAssign, resolveObj] at hko
    | reqIn q hq ev' _ e =>
      subst e
      simp only [reqInAssign, resolveObj] at hko
      injection hko with hko
      exact hnames q (List.mem_filter.mp hq).1 hko.symm


/-! ### requires ports: out-events a peer raises on the boundary -/

theorem mem_outEvents (i : InterfaceD) (ev : Event) (h : ev ∈ outEvents i) : ev ∈ i.events ∧ ev.dir = .out := by
  unfold outEvents at h
  have := List.mem_filter.mp h
  exact ⟨this.1, by simpa using this.2⟩

theorem evDirOf_out (ev : Event) (h : ev.dir = .out) : evDirOf ev = .out := by simp [evDirOf, h]

/-- every out-event of every multi-threaded requires port has its posting assignment in the body -/
theorem out_event_assigned (fc : FC) (sn : Str) (fac : Facilities) (pp rp : List CppPortItf) (sfns : Ids)
    (ctor : CppGen.Constructor) (assigns : List Assign)
    (h : createConstructor fc sn fac pp rp sfns = .ok (ctor, assigns))
    (p : CppPortItf) (hp : p ∈ mtsPorts rp) (ev : Event) (hev : ev ∈ outEvents p.dzn.itf) :
    ∃ ps, lambdaParamsOf fc p.dzn.itf ev false = .ok ps ∧ outAssign p ev ps ∈ assigns := by
  obtain ⟨inPlain, outReq, inMc, outMc, h1, h2, h3, h4, rfl⟩ := createConstructor_inv fc sn fac pp rp sfns ctor assigns h
  obtain ⟨as, has, hf⟩ := mapM_mem_fwd _ _ _ h2 p hp
  obtain ⟨ps, hps, hin⟩ := rerouteOut_mem fc p as hf ev hev
  exact ⟨ps, hps, by simp only [List.mem_append]; exact Or.inl (Or.inr (List.mem_flatten.mpr ⟨as, has, hin⟩))⟩

/-- **C01 for the generated constructor** (peer → component, multi-threaded requires port): the
    out-event a peer raises on the boundary member is queued with its arguments — nothing is
    observed, the call returns — and when the dispatcher runs it arrives at the wrapped component's
    same-named event of the same-named port exactly once, with the values it had at call time.
    `hallin`: an out-event has only in-parameters (the parser refuses anything else, C15). -/
theorem generated_forwards_requires_out (fc : FC) (sn : Str) (fac : Facilities) (pp rp : List CppPortItf) (sfns : Ids)
    (ctor : CppGen.Constructor) (assigns : List Assign)
    (h : createConstructor fc sn fac pp rp sfns = .ok (ctor, assigns))
    (ir : ShellIR) (hpp : ir.provides = pp) (hrp : ir.requires = rp) (has : ir.ctorAssigns = assigns)
    (p : CppPortItf) (hp : p ∈ mtsPorts rp) (ev : Event) (hev : ev ∈ outEvents p.dzn.itf)
    (hinj : ∀ q ∈ pp ++ rp, q.target = p.target → q = p)
    (hnames : ∀ q ∈ pp, q.name ≠ p.name)
    (hevu : ∀ e ∈ p.dzn.itf.events, e.name = ev.name → evDirOf e = .out → e = ev)
    (hfn : (ev.formals.map (·.name)).Nodup) (hallin : ∀ f ∈ ev.formals, f.dir = .in_)
    (allPorts : List (Port × InterfaceD)) (hpa : (p.dzn.port, p.dzn.itf) ∈ allPorts) (hu : UniqueEvents allPorts)
    (hdir : p.dzn.port.dir = .requires)
    (gi : Option Nat) (pump runtime : Bool) (name : Str) (extra : Bool) (n : Nat)
    (hf : ctorCheck ir pump runtime = none)
    (args : List Val) (hlen : ev.formals.length = args.length) :
    ∃ w, construct ir allPorts gi pump runtime none name extra = .ok w ∧
      let w1 : World := { w with posted := w.posted + 1, pumpTouched := true,
                                 queue := [{ callee := ⟨.enc p.name, .out, ev.name⟩, args := args, dangling := false }] }
      invoke (n + 1) w ⟨.bnd p.target, .out, ev.name⟩ args = (w1, .ok none args) ∧
      drain (n + 3) w1 =
        ({ w with posted := w.posted + 1, pumpTouched := true, queue := [], executed := w.executed + 1,
                  out := obsLine .comp p.name ev args true :: w.out }, none) := by
  obtain ⟨hevm, hevd⟩ := mem_outEvents _ _ hev
  have hout : evDirOf ev = .out := evDirOf_out ev hevd
  obtain ⟨ps, hps, hmem⟩ := out_event_assigned fc sn fac pp rp sfns ctor assigns h p hp ev hev
  have hnm : ps.map (·.name) = ev.formals.map (·.name) := lambdaParams_names fc p.dzn.itf ev false ps hps
  have hrpmem : p ∈ rp := (List.mem_filter.mp hp).1
  have hinF : inFormalNames ev = ev.formals.map (·.name) := by
    unfold inFormalNames
    congr 1
    exact List.filter_eq_self.mpr (fun f hf' => by simp [hallin f hf'])
  have hA : outAssign p ev ps = (Assign.mk ⟨.bnd p.target, .out, ev.name⟩ (.post ⟨.enc p.name, .out, ev.name⟩ ps (ps.map (·.name)) (ps.map (·.name)))) := by
    simp [outAssign, formalNames, hnm, hinF]
  have hfind : ∀ s : Slot, s.obj = .bnd p.target → s.dir = .out → s.ev = ev.name →
      findEvent (ir.provides ++ ir.requires) s = some ev := by
    intro s ho hd he
    unfold findEvent
    simp only [ho, hpp, hrp]
    rw [find?_unique (pp ++ rp) (fun q => decide (q.target = p.target)) p (by simp [hrpmem]) (by simp)
          (fun q hq hqt => hinj q hq (by simpa using hqt))]
    simp only [Option.bind]
    rw [he, hd]
    exact find?_unique _ _ ev hevm (by simp [hout]) (fun e he' hq => by
      simp only [decide_eq_true_eq] at hq
      exact hevu e he' hq.1 hq.2)
  obtain ⟨w, hw, hq, hassign, hcomp⟩ := constructed_store ir allPorts gi pump runtime name extra hf
  refine ⟨w, hw, ?_⟩
  have hb : w.get ⟨.bnd p.target, .out, ev.name⟩ =
      some (.ir (.post ⟨.enc p.name, .out, ev.name⟩ ps (ps.map (·.name)) (ps.map (·.name))) ev [] []) := by
    have := hassign (outAssign p ev ps) (by rw [has]; exact hmem) ev (hfind _ rfl rfl rfl) (by simp [outAssign]) ?_
    · rw [hA] at this; exact this
    · intro b hb hk
      rw [has] at hb
      obtain ⟨hkd, hke, hko⟩ := resolveSlot_obj b.lhs
      rw [hk] at hkd hke hko
      cases assign_origin fc sn fac pp rp sfns ctor assigns h b hb with
      | inEvent q hq ev' hev' ps' hps' e => subst e; simp [inAssign, outAssign, resolveSlot] at hkd
      | provOut q _ _ ev' _ e => subst e; simp [provOutAssign, outAssign, resolveObj, resolveSlot] at hko
      | mcEncOut q _ _ ev' _ e => subst e; simp [mcEncOutAssign, outAssign, resolveObj, resolveSlot] at hko
      | arbOut q _ _ hl => rw [hl.1] at hko; simp [outAssign, resolveObj, resolveSlot] at hko
      | reqIn q _ ev' _ e => subst e; simp [reqInAssign, outAssign, resolveSlot] at hkd
      | reqOut q hq ev' hev' ps' hps' e =>
        subst e
        obtain ⟨hevm', hevd'⟩ := mem_outEvents _ _ hev'
        have hqt : q.target = p.target := by
          simp [outAssign, resolveObj, resolveSlot] at hko; exact hko.symm
        have hqp : q = p := hinj q (by simp [(List.mem_filter.mp hq).1]) hqt
        subst hqp
        have hen : ev'.name = ev.name := by simpa [outAssign, resolveSlot] using hke.symm
        have hee : ev' = ev := hevu ev' hevm' hen (evDirOf_out ev' hevd')
        subst hee
        have : ps' = ps := by rw [hps] at hps'; injection hps' with e; exact e.symm
        subst this
        exact ⟨rfl, by simp [outAssign], hfind _ rfl rfl rfl⟩
  have hc : w.get ⟨.enc p.name, .out, ev.name⟩ = some (.scripted .comp p.name ev) := by
    have := hcomp hu p.dzn.port p.dzn.itf ev hpa hevm (Or.inr ⟨hdir, hout⟩) ?_
    · simpa [compSlot, hout, CppPortItf.name] using this
    · intro b hb hk
      rw [has] at hb
      obtain ⟨hkd, hke, hko⟩ := resolveSlot_obj b.lhs
      rw [hk] at hkd hke hko
      simp only [compSlot, hout] at hkd hke hko
      cases assign_origin fc sn fac pp rp sfns ctor assigns h b hb with
      | inEvent q hq ev' hev' ps' hps' e => subst e; simp [inAssign] at hkd
      | provOut q hq _ ev' _ e =>
        subst e
        simp only [provOutAssign, resolveObj] at hko
        injection hko with hko
        exact hnames q (List.mem_filter.mp hq).1 hko.symm
      | mcEncOut q hq _ ev' _ e =>
        subst e
        simp only [mcEncOutAssign, resolveObj] at hko
        injection hko with hko
        exact hnames q (List.mem_filter.mp hq).1 hko.symm
      | arbOut q _ _ hl => rw [hl.1] at hko; simp [resolveObj] at hko
      | reqOut q _ ev' _ ps' _ e => subst e; simp [outAssign, resolveObj] at hko
      | reqIn q _ ev' _ e => subst e; simp [reqInAssign] at hkd
  exact requires_out_posted_then_delivered w n p.target p.name ev ps args hq hb hc
    (by rw [← hlen, ← List.length_map (f := (·.name)), hnm, List.length_map]) (by rw [hnm]; exact hfn)


/-! ### provides ports: out-events the component raises -/

/-- every out-event of every plain multi-threaded provides port is referenced to the boundary member -/
theorem prov_out_assigned (fc : FC) (sn : Str) (fac : Facilities) (pp rp : List CppPortItf) (sfns : Ids)
    (ctor : CppGen.Constructor) (assigns : List Assign)
    (h : createConstructor fc sn fac pp rp sfns = .ok (ctor, assigns))
    (p : CppPortItf) (hp : p ∈ mtsPorts pp) (hmc : p.isMc = false) (ev : Event) (hev : ev ∈ outEvents p.dzn.itf) :
    provOutAssign p ev ∈ assigns := by
  obtain ⟨inPlain, outReq, inMc, outMc, h1, h2, h3, h4, rfl⟩ := createConstructor_inv fc sn fac pp rp sfns ctor assigns h
  have hp' : p ∈ (mtsPorts pp).filter (!·.isMc) := List.mem_filter.mpr ⟨hp, by simp [hmc]⟩
  simp only [List.mem_append]
  refine Or.inl (Or.inl (Or.inl (Or.inl (Or.inl (Or.inr ?_)))))
  exact List.mem_flatten.mpr ⟨stdrefProvidesOut p, List.mem_map.mpr ⟨p, hp', rfl⟩,
    by rw [stdrefProvidesOut_eq]; exact List.mem_map.mpr ⟨ev, hev, rfl⟩⟩

/-- **C01 for the generated constructor** (component → environment, multi-threaded provides port
    that is not the multi-client port): once the user has bound the out-event `ev` of the boundary
    port, an out-event the wrapped component raises on its port `p` reaches exactly that handler,
    once, with the arguments intact. -/
theorem generated_forwards_provides_out (fc : FC) (sn : Str) (fac : Facilities) (pp rp : List CppPortItf) (sfns : Ids)
    (ctor : CppGen.Constructor) (assigns : List Assign)
    (h : createConstructor fc sn fac pp rp sfns = .ok (ctor, assigns))
    (ir : ShellIR) (hpp : ir.provides = pp) (hrp : ir.requires = rp) (has : ir.ctorAssigns = assigns)
    (p : CppPortItf) (hp : p ∈ mtsPorts pp) (hmc : p.isMc = false) (ev : Event) (hev : ev ∈ outEvents p.dzn.itf)
    (hninj : ∀ q ∈ pp ++ rp, q.name = p.name → q = p)
    (hevu : ∀ e ∈ p.dzn.itf.events, e.name = ev.name → evDirOf e = .out → e = ev)
    (allPorts : List (Port × InterfaceD))
    (gi : Option Nat) (pump runtime : Bool) (name : Str) (extra : Bool) (n : Nat)
    (hf : ctorCheck ir pump runtime = none)
    (args : List Val) :
    ∃ w, construct ir allPorts gi pump runtime none name extra = .ok w ∧
      let w' := w.set ⟨.bnd p.target, .out, ev.name⟩ (.scripted .env p.name ev)     -- the user's binding
      invoke (n + 2) w' ⟨.enc p.name, .out, ev.name⟩ args =
        ((scriptedRun w' .env p.name ev args).1,
         .ok (scriptedRun w' .env p.name ev args).2.1 (scriptedRun w' .env p.name ev args).2.2) := by
  obtain ⟨hevm, hevd⟩ := mem_outEvents _ _ hev
  have hout : evDirOf ev = .out := evDirOf_out ev hevd
  have hmem := prov_out_assigned fc sn fac pp rp sfns ctor assigns h p hp hmc ev hev
  have hppmem : p ∈ pp := (List.mem_filter.mp hp).1
  have hfind : ∀ s : Slot, s.obj = .enc p.name → s.dir = .out → s.ev = ev.name →
      findEvent (ir.provides ++ ir.requires) s = some ev := by
    intro s ho hd he
    unfold findEvent
    simp only [ho, hpp, hrp]
    rw [find?_unique (pp ++ rp) (fun q => decide (q.name = p.name)) p (by simp [hppmem]) (by simp)
          (fun q hq hqt => hninj q hq (by simpa using hqt))]
    simp only [Option.bind]
    rw [he, hd]
    exact find?_unique _ _ ev hevm (by simp [hout]) (fun e he' hq => by
      simp only [decide_eq_true_eq] at hq
      exact hevu e he' hq.1 hq.2)
  obtain ⟨w, hw, _, hassign, _⟩ := constructed_store ir allPorts gi pump runtime name extra hf
  refine ⟨w, hw, ?_⟩
  have he : w.get ⟨.enc p.name, .out, ev.name⟩ = some (.ir (.ref ⟨.bnd p.target, .out, ev.name⟩) ev [] []) := by
    have := hassign (provOutAssign p ev) (by rw [has]; exact hmem) ev (hfind _ rfl rfl rfl) (by simp [provOutAssign]) ?_
    · exact this
    · intro b hb hk
      rw [has] at hb
      obtain ⟨hkd, hke, hko⟩ := resolveSlot_obj b.lhs
      rw [hk] at hkd hke hko
      cases assign_origin fc sn fac pp rp sfns ctor assigns h b hb with
      | inEvent q hq ev' hev' ps' hps' e => subst e; simp [inAssign, provOutAssign, resolveSlot] at hkd
      | arbOut q _ _ hl => rw [hl.1] at hko; simp [provOutAssign, resolveObj, resolveSlot] at hko
      | reqOut q _ ev' _ ps' _ e => subst e; simp [outAssign, provOutAssign, resolveObj, resolveSlot] at hko
      | reqIn q _ ev' _ e => subst e; simp [reqInAssign, provOutAssign, resolveSlot] at hkd
      | mcEncOut q hq hqmc ev' _ e =>
        subst e
        have hqn : q.name = p.name := by
          simp [mcEncOutAssign, provOutAssign, resolveObj, resolveSlot] at hko; exact hko.symm
        have : q = p := hninj q (by simp [(List.mem_filter.mp hq).1]) hqn
        subst this
        rw [hmc] at hqmc; cases hqmc
      | provOut q hq _ ev' hev' e =>
        subst e
        obtain ⟨hevm', hevd'⟩ := mem_outEvents _ _ hev'
        have hqn : q.name = p.name := by
          simp [provOutAssign, resolveObj, resolveSlot] at hko; exact hko.symm
        have hqp : q = p := hninj q (by simp [(List.mem_filter.mp hq).1]) hqn
        subst hqp
        have hen : ev'.name = ev.name := by simpa [provOutAssign, resolveSlot] using hke.symm
        have hee : ev' = ev := hevu ev' hevm' hen (evDirOf_out ev' hevd')
        subst hee
        exact ⟨rfl, by simp [provOutAssign], hfind _ rfl rfl rfl⟩
  have hne : (⟨.enc p.name, .out, ev.name⟩ : RSlot) ≠ ⟨.bnd p.target, .out, ev.name⟩ := by
    intro e; injection e with e1; cases e1
  exact comp_to_env_mts_provides _ n p.target p.name ev args
    (by rw [get_set_other _ _ _ _ hne]; exact he) (get_set_same _ _ _)


/-! ### from `Builder.build` to the generated constructor -/

/-- what a successful `buildShell` went through -/
theorem buildShell_inv (fc : FC) (cfg : Config) (s : ShellFiles) (h : buildShell fc cfg = .ok s) :
    ∃ enc de pp rp ctor,
      createDznElements cfg fc enc = .ok de ∧
      de.provides.mapM (fun d => createCppPortItf d (getBasename cfg.dezyneFilename ++ cfg.suffix) (distillateNs cfg.pfx).1) = .ok pp ∧
      de.requires.mapM (fun d => createCppPortItf d (getBasename cfg.dezyneFilename ++ cfg.suffix) (distillateNs cfg.pfx).1) = .ok rp ∧
      createConstructor fc (getBasename cfg.dezyneFilename ++ cfg.suffix)
        (createFacilities cfg.origin (getBasename cfg.dezyneFilename ++ cfg.suffix)) pp rp (distillateNs cfg.pfx).1 = .ok (ctor, s.ir.ctorAssigns) ∧
      s.ir.provides = pp ∧ s.ir.requires = rp ∧ s.ir.origin = cfg.origin ∧
      s.ir.structName = getBasename cfg.dezyneFilename ++ cfg.suffix ∧ s.allPorts = de.allPorts := by
  unfold buildShell at h
  simp only [bind, Except.bind, pure, Except.pure] at h
  split at h
  · cases h
  split at h
  · cases h
  rename_i enc henc
  split at h
  · cases h
  rename_i de hde
  split at h
  · cases h
  split at h
  · cases h
  rename_i pp hpp
  split at h
  · cases h
  rename_i rp hrp
  split at h
  · cases h
  rename_i hl hhl
  split at h
  · cases h
  rename_i ca hca
  injection h with h
  subst h
  obtain ⟨ctor, assigns⟩ := ca
  exact ⟨enc, de, pp, rp, ctor, hde, hpp, hrp, hca, rfl, rfl, rfl, rfl, rfl⟩



/-- invariant of the per-port loop of `create_dzn_elements`: every descriptor stems from a port of
    the encapsulee, carries the interface its type name denotes, and sits on its own side -/
def InAll (fc : FC) (scope : Ids) (ports : List Port) (acc : List DznPortItf × List DznPortItf) : Prop :=
  (∀ d ∈ acc.1 ++ acc.2, d.port ∈ ports ∧
      getSingle (findFqn fc d.port.typeName scope) (some isInterface) = .ok (.interface d.itf)) ∧
  (∀ d ∈ acc.1, d.port.dir = .provides) ∧ (∀ d ∈ acc.2, d.port.dir = .requires ∧ d.mc = none)

theorem mkDznPortItf_all (p i s mc d) (h : mkDznPortItf p i s mc = .ok d) : d.port = p ∧ d.itf = i ∧ d.sem = s ∧ d.mc = mc := by
  unfold mkDznPortItf at h; split at h
  · cases h
  · injection h with h; subst h; exact ⟨rfl, rfl, rfl, rfl⟩

theorem processPort_inall (cfg fc scope sems ports acc port r) (hp : port ∈ ports) (hacc : InAll fc scope ports acc)
    (h : processPort cfg fc scope sems acc port = .ok r) : InAll fc scope ports r := by
  unfold processPort at h
  simp only [bind, Except.bind, pure, Except.pure] at h
  split at h
  · cases h
  rename_i dd hgs
  split at h
  · rename_i itf
    split at h
    · rename_i hprov
      split at h
      · cases h
      split at h
      · cases h
      rename_i s hs
      split at h
      · cases h
      · rename_i d hd
        injection h with h; subst h
        obtain ⟨e1, e2, _, _⟩ := mkDznPortItf_all _ _ _ _ _ hd
        refine ⟨?_, ?_, hacc.2.2⟩
        · intro x hx
          simp only [List.mem_append, List.mem_singleton] at hx
          rcases hx with (hx | hx) | hx
          · exact hacc.1 x (by simp [hx])
          · subst hx; rw [e1, e2]; exact ⟨hp, hgs⟩
          · exact hacc.1 x (by simp [hx])
        · intro x hx
          simp only [List.mem_append, List.mem_singleton] at hx
          rcases hx with hx | hx
          · exact hacc.2.1 x hx
          · subst hx; rw [e1]; exact hprov
    · rename_i hnprov
      split at h
      · split at h
        · cases h
        rename_i s hs
        split at h
        · cases h
        · rename_i d hd
          injection h with h; subst h
          obtain ⟨e1, e2, _, e4⟩ := mkDznPortItf_all _ _ _ _ _ hd
          refine ⟨?_, hacc.2.1, ?_⟩
          · intro x hx
            simp only [List.mem_append, List.mem_singleton] at hx
            rcases hx with hx | hx | hx
            · exact hacc.1 x (by simp [hx])
            · exact hacc.1 x (by simp [hx])
            · subst hx; rw [e1, e2]; exact ⟨hp, hgs⟩
          · intro x hx
            simp only [List.mem_append, List.mem_singleton] at hx
            rcases hx with hx | hx
            · exact hacc.2.2 x hx
            · subst hx; rw [e1]
              refine ⟨?_, e4⟩
              cases hdir : port.dir with
              | provides => exact absurd hdir hnprov
              | requires => rfl
      · injection h with h; subst h; exact hacc
  · cases h

theorem foldlM_inall (cfg fc scope sems) (ports l : List Port) (acc r) (hl : ∀ p ∈ l, p ∈ ports)
    (hacc : InAll fc scope ports acc)
    (h : l.foldlM (processPort cfg fc scope sems) acc = .ok r) : InAll fc scope ports r := by
  induction l generalizing acc with
  | nil => simp [List.foldlM_nil, pure, Except.pure] at h; subst h; exact hacc
  | cons a t ih =>
    rw [List.foldlM_cons] at h
    simp only [bind, Except.bind] at h
    split at h
    · cases h
    · rename_i acc' ha
      exact ih acc' (fun p hp => hl p (by simp [hp]))
        (processPort_inall _ _ _ _ _ _ _ _ (hl a (by simp)) hacc ha) h

/-- every exposed port descriptor of a successful `create_dzn_elements` is listed, with its interface,
    among `allPorts`, and stands on its own side -/
theorem elements_in_allPorts (cfg fc enc de) (h : createDznElements cfg fc enc = .ok de) :
    (∀ d ∈ de.provides ++ de.requires, (d.port, d.itf) ∈ de.allPorts) ∧
    (∀ d ∈ de.provides, d.port.dir = .provides) ∧ (∀ d ∈ de.requires, d.port.dir = .requires ∧ d.mc = none) := by
  unfold createDznElements at h
  simp only [bind, Except.bind, pure, Except.pure] at h
  split at h
  · cases h
  split at h
  · cases h
  rename_i sems hsems
  split at h
  · cases h
  rename_i r hr
  split at h
  · cases h
  · injection h with h; subst h
    have inv := foldlM_inall cfg fc enc.parent.fqn sems (Decl.ports enc) (Decl.ports enc) ([], []) r (fun p hp => hp)
      ⟨(by intro d hd; simp at hd), (by intro d hd; cases hd), (by intro d hd; cases hd)⟩ hr
    refine ⟨?_, inv.2.1, inv.2.2⟩
    intro d hd
    obtain ⟨hmem, hgs⟩ := inv.1 d hd
    simp only
    exact List.mem_filterMap.mpr ⟨d.port, hmem, by rw [hgs]⟩


theorem createCppPortItf_dzn (d : DznPortItf) (sn : Str) (sfns : Ids) (p : CppPortItf)
    (h : createCppPortItf d sn sfns = .ok p) : p.dzn = d := by
  unfold createCppPortItf at h
  simp only [bind, Except.bind, pure, Except.pure] at h
  split at h
  · cases h
  · split at h <;> (injection h with h; subst h; rfl)

/-- **C01 at the level of `Builder.build`** (environment → component): for every model and
    configuration the builder accepts, in the shell constructed from the generated wiring a client's
    call of an in-event on a multi-threaded (non multi-client) provides port is executed by the
    wrapped component's same-named event of the same-named port exactly once, in dispatcher
    context, arguments intact and in declared order, reply and out/inout values carried back.
    Hypotheses: Dezyne's well-formedness rules on the parsed model (unique event names per
    interface, unique formal names, unique port names) and no boundary-member collision (K-2). -/
theorem build_forwards_in_event (fc : FC) (cfg : Config) (b : BuildResult) (h : build fc cfg = .ok b)
    (p : CppPortItf) (hp : p ∈ b.ir.provides) (hsem : p.dzn.sem = .mts) (hmc : p.isMc = false)
    (ev : Event) (hev : ev ∈ inEvents p.dzn.itf)
    (hinj : ∀ q ∈ b.ir.provides ++ b.ir.requires, q.target = p.target → q = p)
    (hnames : ∀ q ∈ b.ir.requires, q.name ≠ p.name)
    (hevu : ∀ e ∈ p.dzn.itf.events, e.name = ev.name → evDirOf e = .in_ → e = ev)
    (hfn : (ev.formals.map (·.name)).Nodup)
    (hu : UniqueEvents b.allPorts)
    (pump runtime : Bool) (name : Str) (extra : Bool) (n : Nat)
    (hf : ctorCheck b.ir pump runtime = none)
    (args : List Val) (hlen : ev.formals.length = args.length) :
    ∃ w ps, construct b.ir b.allPorts b.grantIndex pump runtime none name extra = .ok w ∧
      ps.map (·.name) = ev.formals.map (·.name) ∧
      invoke (n + 3) w ⟨.bnd p.target, .in_, ev.name⟩ args =
        ({ w with shellCalls := w.shellCalls + 1, pumpTouched := true, executed := w.executed + 1,
                  out := obsLine .comp p.name ev args true :: w.out },
         .ok (if isVoid ev then none else some (w.reply true p.name ev.name))
             (writeBack ps args (ps.map (·.name)) (rewritten ev args))) := by
  unfold build at h
  simp only [bind, Except.bind, pure, Except.pure] at h
  split at h
  · cases h
  rename_i s hs
  injection h with h
  subst h
  obtain ⟨enc, de, pp, rp, ctor, hde, hpp, hrp, hcc, e1, e2, _, _, e5⟩ := buildShell_inv fc cfg s hs
  simp only at hp hinj hnames hu hf ⊢
  obtain ⟨hall, hprov, _⟩ := elements_in_allPorts cfg fc enc de hde
  rw [e1] at hp
  obtain ⟨d, hd, hcp⟩ := mapM_mem _ _ _ hpp p hp
  have hdz := createCppPortItf_dzn d _ _ p hcp
  have hpa : (p.dzn.port, p.dzn.itf) ∈ s.allPorts := by
    rw [e5, hdz]; exact hall d (by simp [hd])
  have hdir : p.dzn.port.dir = .provides := by rw [hdz]; exact hprov d hd
  exact generated_forwards_in_event fc _ _ pp rp _ ctor s.ir.ctorAssigns hcc s.ir e1 e2 rfl p
    (List.mem_filter.mpr ⟨hp, by simp [hsem]⟩) hmc ev hev (by rw [← e1, ← e2]; exact hinj) (by rw [← e2]; exact hnames)
    hevu hfn s.allPorts hpa hu hdir s.grantIndex pump runtime name extra n hf args hlen


/-- the first steps shared by the `build`-level statements -/
theorem build_inv (fc : FC) (cfg : Config) (b : BuildResult) (h : build fc cfg = .ok b) :
    ∃ enc de pp rp ctor sn fac sfns,
      createDznElements cfg fc enc = .ok de ∧
      de.provides.mapM (fun d => createCppPortItf d sn sfns) = .ok pp ∧
      de.requires.mapM (fun d => createCppPortItf d sn sfns) = .ok rp ∧
      createConstructor fc sn fac pp rp sfns = .ok (ctor, b.ir.ctorAssigns) ∧
      b.ir.provides = pp ∧ b.ir.requires = rp ∧ b.allPorts = de.allPorts := by
  unfold build at h
  simp only [bind, Except.bind, pure, Except.pure] at h
  split at h
  · cases h
  rename_i s hs
  injection h with h
  subst h
  obtain ⟨enc, de, pp, rp, ctor, hde, hpp, hrp, hcc, e1, e2, _, _, e5⟩ := buildShell_inv fc cfg s hs
  exact ⟨enc, de, pp, rp, ctor, _, _, _, hde, hpp, hrp, hcc, e1, e2, e5⟩

/-- **C01 at the level of `Builder.build`** (peer → component, multi-threaded requires port) -/
theorem build_forwards_requires_out (fc : FC) (cfg : Config) (b : BuildResult) (h : build fc cfg = .ok b)
    (p : CppPortItf) (hp : p ∈ b.ir.requires) (hsem : p.dzn.sem = .mts)
    (ev : Event) (hev : ev ∈ outEvents p.dzn.itf)
    (hinj : ∀ q ∈ b.ir.provides ++ b.ir.requires, q.target = p.target → q = p)
    (hnames : ∀ q ∈ b.ir.provides, q.name ≠ p.name)
    (hevu : ∀ e ∈ p.dzn.itf.events, e.name = ev.name → evDirOf e = .out → e = ev)
    (hfn : (ev.formals.map (·.name)).Nodup) (hallin : ∀ f ∈ ev.formals, f.dir = .in_)
    (hu : UniqueEvents b.allPorts)
    (pump runtime : Bool) (name : Str) (extra : Bool) (n : Nat)
    (hf : ctorCheck b.ir pump runtime = none)
    (args : List Val) (hlen : ev.formals.length = args.length) :
    ∃ w, construct b.ir b.allPorts b.grantIndex pump runtime none name extra = .ok w ∧
      let w1 : World := { w with posted := w.posted + 1, pumpTouched := true,
                                 queue := [{ callee := ⟨.enc p.name, .out, ev.name⟩, args := args, dangling := false }] }
      invoke (n + 1) w ⟨.bnd p.target, .out, ev.name⟩ args = (w1, .ok none args) ∧
      drain (n + 3) w1 =
        ({ w with posted := w.posted + 1, pumpTouched := true, queue := [], executed := w.executed + 1,
                  out := obsLine .comp p.name ev args true :: w.out }, none) := by
  obtain ⟨enc, de, pp, rp, ctor, sn, fac, sfns, hde, hpp, hrp, hcc, e1, e2, e5⟩ := build_inv fc cfg b h
  obtain ⟨hall, _, hreq⟩ := elements_in_allPorts cfg fc enc de hde
  rw [e2] at hp
  obtain ⟨d, hd, hcp⟩ := mapM_mem _ _ _ hrp p hp
  have hdz := createCppPortItf_dzn d _ _ p hcp
  have hpa : (p.dzn.port, p.dzn.itf) ∈ b.allPorts := by
    rw [e5, hdz]; exact hall d (by simp [hd])
  have hdir : p.dzn.port.dir = .requires := by rw [hdz]; exact (hreq d hd).1
  exact generated_forwards_requires_out fc sn fac pp rp sfns ctor b.ir.ctorAssigns hcc b.ir e1 e2 rfl p
    (List.mem_filter.mpr ⟨hp, by simp [hsem]⟩) ev hev (by rw [← e1, ← e2]; exact hinj) (by rw [← e1]; exact hnames)
    hevu hfn hallin b.allPorts hpa hu hdir b.grantIndex pump runtime name extra n hf args hlen

/-- **C01 at the level of `Builder.build`** (component → environment, multi-threaded provides port) -/
theorem build_forwards_provides_out (fc : FC) (cfg : Config) (b : BuildResult) (h : build fc cfg = .ok b)
    (p : CppPortItf) (hp : p ∈ b.ir.provides) (hsem : p.dzn.sem = .mts) (hmc : p.isMc = false)
    (ev : Event) (hev : ev ∈ outEvents p.dzn.itf)
    (hninj : ∀ q ∈ b.ir.provides ++ b.ir.requires, q.name = p.name → q = p)
    (hevu : ∀ e ∈ p.dzn.itf.events, e.name = ev.name → evDirOf e = .out → e = ev)
    (pump runtime : Bool) (name : Str) (extra : Bool) (n : Nat)
    (hf : ctorCheck b.ir pump runtime = none)
    (args : List Val) :
    ∃ w, construct b.ir b.allPorts b.grantIndex pump runtime none name extra = .ok w ∧
      let w' := w.set ⟨.bnd p.target, .out, ev.name⟩ (.scripted .env p.name ev)
      invoke (n + 2) w' ⟨.enc p.name, .out, ev.name⟩ args =
        ((scriptedRun w' .env p.name ev args).1,
         .ok (scriptedRun w' .env p.name ev args).2.1 (scriptedRun w' .env p.name ev args).2.2) := by
  obtain ⟨enc, de, pp, rp, ctor, sn, fac, sfns, hde, hpp, hrp, hcc, e1, e2, e5⟩ := build_inv fc cfg b h
  rw [e1] at hp
  exact generated_forwards_provides_out fc sn fac pp rp sfns ctor b.ir.ctorAssigns hcc b.ir e1 e2 rfl p
    (List.mem_filter.mpr ⟨hp, by simp [hsem]⟩) hmc ev hev (by rw [← e1, ← e2]; exact hninj) hevu
    b.allPorts b.grantIndex pump runtime name extra n hf args

end C01
