/-
  C11 (holder clause) — with the *specified* Deselect (only the holder's own selection is cleared)
  every out-event raised while exactly one client holds the claim is delivered to that client, for
  every number of client threads and every schedule.  (The code as it is violates this: finding
  D-9c, `C11.holder_witness`.)
-/
import DznModel
open Conc

namespace C11

/-- the phases in which the arbiter component regards the client as the owner of the resource -/
def ownerPhase (p : Pc) : Bool :=
  p = .granted || p = .selLocked || p = .selWritten || p = .holding || p = .waitRelease

/-- the phases in which the client's own Select has completed its write -/
def selectedPhase (p : Pc) : Bool := p = .selWritten || p = .holding || p = .waitRelease

structure HInv (s : State) : Prop where
  unique : ∀ c d, ownerPhase (s.pcs c) = true → ownerPhase (s.pcs d) = true → c = d
  free : s.busy = false → ∀ c, ownerPhase (s.pcs c) = false
  sel : ∀ c, selectedPhase (s.pcs c) = true → s.selected = some c
  ok : deliveriesOk s = true

theorem hinv_init (n outs : Nat) : HInv (init n outs) := by
  refine ⟨?_, ?_, ?_, ?_⟩ <;> simp [init, ownerPhase, selectedPhase, deliveriesOk]

theorem sel_owner {p : Pc} (h : selectedPhase p = true) : ownerPhase p = true := by
  cases p <;> simp_all [selectedPhase, ownerPhase]

@[simp] theorem pcs_setPc (s : State) (c d : Client) (p : Pc) :
    (setPc s c p).pcs d = if d = c then p else s.pcs d := rfl
@[simp] theorem busy_setPc (s : State) (c : Client) (p : Pc) : (setPc s c p).busy = s.busy := rfl
@[simp] theorem selected_setPc (s : State) (c : Client) (p : Pc) : (setPc s c p).selected = s.selected := rfl
@[simp] theorem deliveries_setPc (s : State) (c : Client) (p : Pc) : (setPc s c p).deliveries = s.deliveries := rfl

theorem deliveriesOk_congr (s t : State) (h : t.deliveries = s.deliveries) :
    deliveriesOk t = deliveriesOk s := by simp [deliveriesOk, h]

/-- a client changes its phase; the owner/selected status of everybody else is untouched -/
theorem hinv_move (s : State) (c : Client) (p : Pc) (t : State)
    (hp : t.pcs = (setPc s c p).pcs) (hb : t.busy = s.busy) (hs : t.selected = s.selected)
    (hd : t.deliveries = s.deliveries) (h : HInv s)
    (ho : ownerPhase p = ownerPhase (s.pcs c))
    (hsel : selectedPhase p = true → s.selected = some c) : HInv t := by
  obtain ⟨hu, hf, hsl, hok⟩ := h
  refine ⟨?_, ?_, ?_, ?_⟩
  · intro x y hx hy
    rw [hp] at hx hy
    simp only [pcs_setPc] at hx hy
    apply hu
    · by_cases hxc : x = c
      · subst hxc; simpa [ho] using hx
      · simpa [hxc] using hx
    · by_cases hyc : y = c
      · subst hyc; simpa [ho] using hy
      · simpa [hyc] using hy
  · intro hbf x
    rw [hp]; simp only [pcs_setPc]
    by_cases hxc : x = c
    · subst hxc; simp [ho, hf (hb ▸ hbf) x]
    · simp [hxc, hf (hb ▸ hbf) x]
  · intro x hx
    rw [hp] at hx; simp only [pcs_setPc] at hx
    rw [hs]
    by_cases hxc : x = c
    · subst hxc; exact hsel (by simpa using hx)
    · exact hsl x (by simpa [hxc] using hx)
  · rw [deliveriesOk_congr s t hd]; exact hok

/-- **the holder clause is inductive for the specified Deselect** -/
theorem hinv_step (s : State) (a : Action) (h : HInv s) (he : enabled s a = true) :
    HInv (step false s a) := by
  cases a with
  | postClaim c =>
    simp only [enabled, Bool.and_eq_true, decide_eq_true_eq, pcOf] at he
    exact hinv_move s c .waitClaim _ rfl rfl rfl rfl h (by simp [ownerPhase, he.2]) (by simp [selectedPhase])
  | postRelease c =>
    simp only [enabled, Bool.and_eq_true, decide_eq_true_eq, pcOf] at he
    exact hinv_move s c .waitRelease _ rfl rfl rfl rfl h (by simp [ownerPhase, he.2])
      (fun _ => h.sel c (by simp [selectedPhase, he.2]))
  | raiseOut =>
    obtain ⟨hu, hf, hsl, hok⟩ := h
    exact ⟨hu, hf, hsl, by simpa [step, deliveriesOk] using hok⟩
  | dispatch =>
    cases hdp : s.dpc with
    | idle =>
      cases hq : s.queue with
      | nil => simp [enabled, hdp, hq] at he
      | cons call rest =>
        cases call with
        | claim c =>
          by_cases hw : s.pcs c = .waitClaim
          · by_cases hb : s.busy = true
            · have : step false s .dispatch = { setPc s c .idle with queue := rest } := by
                simp [step, hdp, hq, pcOf, hw, hb]
              rw [this]
              exact hinv_move s c .idle _ rfl rfl rfl rfl h (by simp [ownerPhase, hw]) (by simp [selectedPhase])
            · have hbf : s.busy = false := by simpa using hb
              have : step false s .dispatch = { setPc s c .granted with queue := rest, busy := true } := by
                simp [step, hdp, hq, pcOf, hw, hbf]
              rw [this]
              obtain ⟨hu, hf, hsl, hok⟩ := h
              have hno := hf hbf
              refine ⟨?_, ?_, ?_, ?_⟩
              · intro x y hx hy
                simp only [pcs_setPc] at hx hy
                by_cases hxc : x = c
                · by_cases hyc : y = c
                  · rw [hxc, hyc]
                  · simp [hyc, hno y] at hy
                · simp [hxc, hno x] at hx
              · intro hbt; simp at hbt
              · intro x hx
                simp only [pcs_setPc] at hx
                by_cases hxc : x = c
                · subst hxc; simp [selectedPhase] at hx
                · have := hno x
                  have h2 := sel_owner (p := s.pcs x) (by simpa [hxc] using hx)
                  rw [this] at h2; cases h2
              · simpa [deliveriesOk] using hok
          · have : step false s .dispatch = { s with queue := rest } := by
              simp [step, hdp, hq, pcOf, hw]
            rw [this]
            obtain ⟨hu, hf, hsl, hok⟩ := h
            exact ⟨hu, hf, hsl, by simpa [deliveriesOk] using hok⟩
        | release c =>
          by_cases hw : s.pcs c = .waitRelease
          · have : step false s .dispatch = { setPc s c .released with queue := rest, busy := false } := by
              simp [step, hdp, hq, pcOf, hw]
            rw [this]
            obtain ⟨hu, hf, hsl, hok⟩ := h
            have hco : ownerPhase (s.pcs c) = true := by simp [ownerPhase, hw]
            refine ⟨?_, ?_, ?_, ?_⟩
            · intro x y hx hy
              simp only [pcs_setPc] at hx hy
              by_cases hxc : x = c
              · subst hxc; simp [ownerPhase] at hx
              · by_cases hyc : y = c
                · subst hyc; simp [ownerPhase] at hy
                · exact hu x y (by simpa [hxc] using hx) (by simpa [hyc] using hy)
            · intro _ x
              simp only [pcs_setPc]
              by_cases hxc : x = c
              · simp [hxc, ownerPhase]
              · simp only [hxc, if_false]
                cases hx : ownerPhase (s.pcs x) with
                | false => rfl
                | true => exact absurd (hu x c hx hco) hxc
            · intro x hx
              simp only [pcs_setPc] at hx
              by_cases hxc : x = c
              · subst hxc; simp [selectedPhase] at hx
              · exact hsl x (by simpa [hxc] using hx)
            · simpa [deliveriesOk] using hok
          · have : step false s .dispatch = { s with queue := rest } := by
              simp [step, hdp, hq, pcOf, hw]
            rw [this]
            obtain ⟨hu, hf, hsl, hok⟩ := h
            exact ⟨hu, hf, hsl, by simpa [deliveriesOk] using hok⟩
        | out =>
          have : step false s .dispatch = { s with lock := some .dispatcher, dpc := .outLocked } := by
            simp [step, hdp, hq]
          rw [this]
          obtain ⟨hu, hf, hsl, hok⟩ := h
          exact ⟨hu, hf, hsl, by simpa [deliveriesOk] using hok⟩
    | outLocked =>
      have : step false s .dispatch =
          { s with dpc := .outDelivered, deliveries := (s.selected, holders s) :: s.deliveries } := by
        simp [step, hdp]
      rw [this]
      obtain ⟨hu, hf, hsl, hok⟩ := h
      refine ⟨hu, hf, hsl, ?_⟩
      simp only [deliveriesOk, List.all_cons, Bool.and_eq_true]
      refine ⟨?_, by simpa [deliveriesOk] using hok⟩
      cases hh : holders s with
      | nil => rfl
      | cons x r =>
        cases r with
        | cons _ _ => rfl
        | nil =>
          have hm : x ∈ holders s := by rw [hh]; simp
          have hx : s.pcs x = .holding := by
            simpa [holders, pcOf] using (List.mem_filter.mp hm).2
          simp [hsl x (by simp [selectedPhase, hx])]
    | outDelivered =>
      have : step false s .dispatch = { s with dpc := .idle, lock := none, queue := s.queue.drop 1 } := by
        simp [step, hdp]
      rw [this]
      obtain ⟨hu, hf, hsl, hok⟩ := h
      exact ⟨hu, hf, hsl, by simpa [deliveriesOk] using hok⟩
  | clientStep c =>
    simp only [enabled, Bool.and_eq_true, decide_eq_true_eq, pcOf] at he
    obtain ⟨hcn, hen⟩ := he
    cases hp : s.pcs c with
    | idle => simp [hp] at hen
    | waitClaim => simp [hp] at hen
    | holding => simp [hp] at hen
    | waitRelease => simp [hp] at hen
    | granted =>
      have : step false s (.clientStep c) = { setPc s c .selLocked with lock := some (.client c) } := by
        simp [step, pcOf, hp]
      rw [this]
      exact hinv_move s c .selLocked _ rfl rfl rfl rfl h (by simp [ownerPhase, hp]) (by simp [selectedPhase])
    | selLocked =>
      have : step false s (.clientStep c) = { setPc s c .selWritten with selected := some c } := by
        simp [step, pcOf, hp]
      rw [this]
      obtain ⟨hu, hf, hsl, hok⟩ := h
      have hco : ownerPhase (s.pcs c) = true := by simp [ownerPhase, hp]
      refine ⟨?_, ?_, ?_, ?_⟩
      · intro x y hx hy
        simp only [pcs_setPc] at hx hy
        apply hu
        · by_cases hxc : x = c
          · subst hxc; exact hco
          · simpa [hxc] using hx
        · by_cases hyc : y = c
          · subst hyc; exact hco
          · simpa [hyc] using hy
      · intro hbf x
        have := hf hbf c
        rw [hco] at this; cases this
      · intro x hx
        simp only [pcs_setPc] at hx
        by_cases hxc : x = c
        · subst hxc; rfl
        · exact absurd (hu x c (sel_owner (by simpa [hxc] using hx)) hco) hxc
      · simpa [deliveriesOk] using hok
    | selWritten =>
      have : step false s (.clientStep c) = { setPc s c .holding with lock := none } := by
        simp [step, pcOf, hp]
      rw [this]
      exact hinv_move s c .holding _ rfl rfl rfl rfl h (by simp [ownerPhase, hp])
        (fun _ => h.sel c (by simp [selectedPhase, hp]))
    | released =>
      have : step false s (.clientStep c) = { setPc s c .deselLocked with lock := some (.client c) } := by
        simp [step, pcOf, hp]
      rw [this]
      exact hinv_move s c .deselLocked _ rfl rfl rfl rfl h (by simp [ownerPhase, hp]) (by simp [selectedPhase])
    | deselLocked =>
      have : step false s (.clientStep c) =
          { setPc s c .deselWritten with selected := if s.selected = some c then none else s.selected } := by
        simp [step, pcOf, hp]
      rw [this]
      obtain ⟨hu, hf, hsl, hok⟩ := h
      refine ⟨?_, ?_, ?_, ?_⟩
      · intro x y hx hy
        simp only [pcs_setPc] at hx hy
        by_cases hxc : x = c
        · subst hxc; simp [ownerPhase] at hx
        · by_cases hyc : y = c
          · subst hyc; simp [ownerPhase] at hy
          · exact hu x y (by simpa [hxc] using hx) (by simpa [hyc] using hy)
      · intro hbf x
        simp only [pcs_setPc]
        by_cases hxc : x = c
        · simp [hxc, ownerPhase]
        · simpa [hxc] using hf hbf x
      · intro x hx
        simp only [pcs_setPc] at hx
        by_cases hxc : x = c
        · subst hxc; simp [selectedPhase] at hx
        · have hsx := hsl x (by simpa [hxc] using hx)
          simp [hsx, hxc]
      · simpa [deliveriesOk] using hok
    | deselWritten =>
      have : step false s (.clientStep c) = { setPc s c .idle with lock := none } := by
        simp [step, pcOf, hp]
      rw [this]
      exact hinv_move s c .idle _ rfl rfl rfl rfl h (by simp [ownerPhase, hp]) (by simp [selectedPhase])

/-- **C11 (holder clause, for the specified Deselect)**: for every number of client threads, every
    number of out-events and *every* schedule, each out-event raised while exactly one client holds
    the claim was delivered to that client -/
theorem holder_specified (n outs : Nat) (acts : List Action) :
    deliveriesOk (run false (init n outs) acts) = true := by
  suffices h : ∀ s, HInv s → HInv (run false s acts) from (h _ (hinv_init n outs)).ok
  induction acts with
  | nil => intro s hs; exact hs
  | cons a as ih =>
    intro s hs
    simp only [run]
    split
    · rename_i he; exact ih _ (hinv_step s a hs he)
    · exact ih _ hs

/-- the hypothesis-free form is false of the code as it is (`asIs = true`): `holder_witness` -/
example : HInv (init 3 2) := hinv_init 3 2

end C11
