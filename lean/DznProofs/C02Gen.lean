/-
  C02 (continued) — the runtime semantics a port was configured with, for the shell `Builder.build`
  generates (corollaries of the end-to-end statements of `C01Gen`, plus the single-threaded case).
-/
import DznModel
import DznProofs.C01Gen
open Py Text Scoping Ast AstView PortSel CppGen Support Shell Sem Lem

namespace C02

/-- **multi-threaded provides port, at the level of `Builder.build`**: a client's in-event goes
    through `dzn::shell` exactly once (`shellCalls + 1`) and the component observes it *in
    dispatcher context* (`disp=1`); the caller gets the reply only after the dispatcher has run it
    (the result of `invoke` carries it) -/
theorem build_mts_in_event_in_dispatcher (fc : FC) (cfg : Config) (b : BuildResult) (h : build fc cfg = .ok b)
    (p : CppPortItf) (hp : p ∈ b.ir.provides) (hsem : p.dzn.sem = .mts) (hmc : p.isMc = false)
    (ev : Event) (hev : ev ∈ inEvents p.dzn.itf)
    (hinj : ∀ q ∈ b.ir.provides ++ b.ir.requires, q.target = p.target → q = p)
    (hnames : ∀ q ∈ b.ir.requires, q.name ≠ p.name)
    (hevu : ∀ e ∈ p.dzn.itf.events, e.name = ev.name → evDirOf e = .in_ → e = ev)
    (hfn : (ev.formals.map (·.name)).Nodup) (hu : C01.UniqueEvents b.allPorts)
    (pump runtime : Bool) (name : Str) (extra : Bool) (n : Nat)
    (hf : ctorCheck b.ir pump runtime = none)
    (args : List Val) (hlen : ev.formals.length = args.length) :
    ∃ w, construct b.ir b.allPorts b.grantIndex pump runtime none name extra = .ok w ∧
      let r := invoke (n + 3) w ⟨.bnd p.target, .in_, ev.name⟩ args
      r.1.shellCalls = w.shellCalls + 1 ∧ r.1.posted = w.posted ∧
      r.1.out = C01.obsLine .comp p.name ev args true :: w.out ∧
      (∃ vs, r.2 = .ok (if isVoid ev then none else some (w.reply true p.name ev.name)) vs) := by
  obtain ⟨w, ps, hw, _, hi⟩ := C01.build_forwards_in_event fc cfg b h p hp hsem hmc ev hev hinj hnames hevu hfn hu
    pump runtime name extra n hf args hlen
  refine ⟨w, hw, ?_⟩
  simp [hi]

/-- **multi-threaded requires port, at the level of `Builder.build`**: an out-event raised by a
    peer returns immediately — nothing is observed, nothing ran — after queueing a closure that owns
    copies of the arguments (`dangling = false`); it is the dispatcher that later runs it
    (`disp=1`) -/
theorem build_mts_requires_out_queued (fc : FC) (cfg : Config) (b : BuildResult) (h : build fc cfg = .ok b)
    (p : CppPortItf) (hp : p ∈ b.ir.requires) (hsem : p.dzn.sem = .mts)
    (ev : Event) (hev : ev ∈ outEvents p.dzn.itf)
    (hinj : ∀ q ∈ b.ir.provides ++ b.ir.requires, q.target = p.target → q = p)
    (hnames : ∀ q ∈ b.ir.provides, q.name ≠ p.name)
    (hevu : ∀ e ∈ p.dzn.itf.events, e.name = ev.name → evDirOf e = .out → e = ev)
    (hfn : (ev.formals.map (·.name)).Nodup) (hallin : ∀ f ∈ ev.formals, f.dir = .in_)
    (hu : C01.UniqueEvents b.allPorts)
    (pump runtime : Bool) (name : Str) (extra : Bool) (n : Nat)
    (hf : ctorCheck b.ir pump runtime = none)
    (args : List Val) (hlen : ev.formals.length = args.length) :
    ∃ w, construct b.ir b.allPorts b.grantIndex pump runtime none name extra = .ok w ∧
      let r := invoke (n + 1) w ⟨.bnd p.target, .out, ev.name⟩ args
      r.2 = .ok none args ∧ r.1.out = w.out ∧ r.1.executed = w.executed ∧ r.1.posted = w.posted + 1 ∧
      r.1.queue = [{ callee := ⟨.enc p.name, .out, ev.name⟩, args := args, dangling := false }] ∧
      (drain (n + 3) r.1).1.out = C01.obsLine .comp p.name ev args true :: w.out := by
  obtain ⟨w, hw, hi, hd⟩ := C01.build_forwards_requires_out fc cfg b h p hp hsem ev hev hinj hnames hevu hfn hallin hu
    pump runtime name extra n hf args hlen
  refine ⟨w, hw, ?_⟩
  simp [hi, hd]

/-- no constructor assignment of the generated shell touches a port that is not multi-threaded -/
theorem sts_port_untouched (fc : FC) (sn : Str) (fac : Facilities) (pp rp : List CppPortItf) (sfns : Ids)
    (ctor : CppGen.Constructor) (assigns : List Assign)
    (h : createConstructor fc sn fac pp rp sfns = .ok (ctor, assigns))
    (name : Str) (hn : ∀ q ∈ mtsPorts pp ++ mtsPorts rp, q.name ≠ name) :
    ∀ b ∈ assigns, b.lhs.obj ≠ .enc name := by
  intro b hb
  cases C01.assign_origin fc sn fac pp rp sfns ctor assigns h b hb with
  | inEvent q hq ev' hev' ps' hps' e => subst e; cases hq' : q.isMc <;> simp [C01.inAssign, hq']
  | provOut q hq _ ev' _ e =>
    subst e; simp only [C01.provOutAssign]; intro e; injection e with e
    exact hn q (by simp [hq]) e
  | mcEncOut q hq _ ev' _ e =>
    subst e; simp only [C01.mcEncOutAssign]; intro e; injection e with e
    exact hn q (by simp [hq]) e
  | arbOut q _ _ hl => rw [hl.1]; simp
  | reqOut q _ ev' _ ps' _ e => subst e; simp [C01.outAssign]
  | reqIn q hq ev' _ e =>
    subst e; simp only [C01.reqInAssign]; intro e; injection e with e
    exact hn q (by simp [hq]) e

/-- **single-threaded port, at the level of `Builder.build`**: the generated constructor leaves
    every event of the port alone, so the accessor's port *is* the component's port: a call on it
    runs the component's handler directly — no `dzn::shell`, nothing posted, not in dispatcher
    context -/
theorem build_sts_port_bypasses_dispatcher (fc : FC) (cfg : Config) (b : BuildResult) (h : build fc cfg = .ok b)
    (port : Port) (itf : InterfaceD) (hpa : (port, itf) ∈ b.allPorts) (ev : Event) (hev : ev ∈ itf.events)
    (hside : C01.compSide port ev)
    (hn : ∀ q ∈ mtsPorts b.ir.provides ++ mtsPorts b.ir.requires, q.name ≠ port.name)
    (hu : C01.UniqueEvents b.allPorts)
    (pump runtime : Bool) (name : Str) (extra : Bool) (n : Nat)
    (hf : ctorCheck b.ir pump runtime = none) (args : List Val) :
    ∃ w, construct b.ir b.allPorts b.grantIndex pump runtime none name extra = .ok w ∧
      invoke (n + 1) w (C01.compSlot port ev) args =
        ((scriptedRun w .comp port.name ev args).1,
         .ok (scriptedRun w .comp port.name ev args).2.1 (scriptedRun w .comp port.name ev args).2.2) ∧
      (scriptedRun w .comp port.name ev args).1.shellCalls = w.shellCalls ∧
      (scriptedRun w .comp port.name ev args).1.posted = w.posted ∧
      (scriptedRun w .comp port.name ev args).1.out = C01.obsLine .comp port.name ev args w.inDispatch :: w.out := by
  obtain ⟨enc, de, pp, rp, ctor, sn, fac, sfns, hde, hpp, hrp, hcc, e1, e2, e5⟩ := C01.build_inv fc cfg b h
  obtain ⟨w, hw, _, _, hcomp⟩ := C01.constructed_store b.ir b.allPorts b.grantIndex pump runtime name extra hf
  refine ⟨w, hw, ?_, rfl, rfl, rfl⟩
  have hc := hcomp hu port itf ev hpa hev hside (by
    intro a ha hk
    have hobj := sts_port_untouched fc sn fac pp rp sfns ctor b.ir.ctorAssigns hcc port.name (by rw [← e1, ← e2]; exact hn) a ha
    have := (C01.resolveSlot_obj a.lhs).2.2
    rw [hk] at this
    simp only [C01.compSlot] at this
    cases hao : a.lhs.obj with
    | enc x => rw [hao] at this hobj; simp only [resolveObj] at this; injection this with this; exact hobj (by rw [this])
    | bnd x => rw [hao] at this; simp [resolveObj] at this
    | arb x => rw [hao] at this; simp [resolveObj] at this
    | local_ => rw [hao] at this; simp [resolveObj] at this)
  exact C01.env_to_comp_sts w n port.name ev (evDirOf ev) args hc

end C02
