/-
  C19 (file-level clause) — in the generated shell files, changing only the copyright or the
  creator information changes nothing but comment lines.
-/
import DznModel
import DznProofs.Lemmas.Text
import DznProofs.C19
open Py Text Scoping Ast AstView PortSel CppGen Support Shell Lem

namespace C19

/-- the code projection of a rendered text block is the code-line filter of its line buffer -/
theorem codeOf_tbStr (ls : List Str) (h : ∀ l ∈ ls, Spec.breakFree l = true) :
    Spec.codeOf (tbStr [] ls) = ls.filter Spec.isCodeLine := by
  unfold Spec.codeOf tbStr
  by_cases he : ls = []
  · subst he; simp [splitlines]
  · have : ([] ++ ls).isEmpty = false := by cases ls <;> simp_all
    simp only [List.nil_append] at this ⊢
    rw [this]; simp only [Bool.false_eq_true, if_false]
    rw [splitlines_join ls he h]

theorem contentLines_list_breakFree (l : List Content) : ∀ x ∈ contentLines (.list l), Spec.breakFree x = true := by
  intro x hx
  simp only [contentLines, List.mem_flatMap] at hx
  obtain ⟨s, _, hs⟩ := hx
  exact itemLines_all_breakFree s x hs

theorem codeOf_mk_list (l : List Content) :
    Spec.codeOf (TB.mk' (.list l)).toStr = (contentLines (.list l)).filter Spec.isCodeLine := by
  show Spec.codeOf (tbStr [] (contentLines (.list l))) = _
  exact codeOf_tbStr _ (contentLines_list_breakFree l)

theorem not_code_of_slashes (r : Str) (h : (L "//").isPrefixOf r = true) : Spec.isCodeLine r = false := by
  have hp : (L "//") <+: r := List.isPrefixOf_iff_prefix.mp h
  obtain ⟨rest, rfl⟩ := hp
  have : lstrip ('/' :: '/' :: rest) = '/' :: '/' :: rest := by
    simp [lstrip, isSpace]
  show (!isBlank ('/' :: '/' :: rest) && !(L "//").isPrefixOf (lstrip ('/' :: '/' :: rest))) = false
  rw [this]
  simp [List.isPrefixOf]

/-- a rendered comment contributes no code line -/
theorem comment_no_code (X : List Str) (hX : ∀ l ∈ X, Spec.breakFree l = true) :
    ((flatten false (.comment X)).flatMap itemLines).filter Spec.isCodeLine = [] := by
  simp only [flatten]
  split
  · simp
  · rename_i hne
    simp only [List.flatMap_cons, List.flatMap_nil, List.append_nil]
    have hne' : commentStr X ≠ [] := by intro e; rw [e] at hne; simp at hne
    have hcl : commentLines X ≠ [] := by
      intro e; apply hne'; simp [commentStr, tbStr, e]
    have : itemLines (commentStr X) = commentLines X := by
      unfold itemLines
      rw [if_neg (by simpa using hne')]
      unfold commentStr tbStr
      have : ([] ++ commentLines X).isEmpty = false := by cases h : commentLines X <;> simp_all
      simp only [List.nil_append] at this ⊢
      rw [this]; simp only [Bool.false_eq_true, if_false]
      exact splitlines_join _ hcl (commentLines_breakFree X hX)
    rw [this, List.filter_eq_nil_iff]
    intro r hr
    simp [not_code_of_slashes r (starts_with_slashes X r hr)]

/-- **the header comment is invisible to the code projection**: whatever (break-free) lines the
    leading comment object holds, the code lines of the file are those of the rest -/
theorem code_ignores_leading_comment (X Y : List Str) (hX : ∀ l ∈ X, Spec.breakFree l = true)
    (hY : ∀ l ∈ Y, Spec.breakFree l = true) (r1 r2 : List Content) :
    Spec.codeOf (TB.mk' (.list (.list (.comment X :: r1) :: r2))).toStr =
    Spec.codeOf (TB.mk' (.list (.list (.comment Y :: r1) :: r2))).toStr := by
  rw [codeOf_mk_list, codeOf_mk_list]
  simp only [contentLines, flatten, flattenList, List.flatMap_append, List.filter_append]
  have hx := comment_no_code X hX
  have hy := comment_no_code Y hY
  simp only [flatten] at hx hy
  rw [hx, hy]

/-! ### through the build -/

/-- the same configuration with other copyright and creator texts -/
@[reducible] def withText (cfg : Config) (cr ci : Content) : Config :=
  { cfg with copyright := cr, creatorInfo := ci }

theorem elements_same (cfg : Config) (cr ci : Content) (fc enc) :
    createDznElements (withText cfg cr ci) fc enc = createDznElements cfg fc enc := rfl

/-- **C19 (files)**: building with other copyright / creator texts fails with the same error or
    succeeds with the same file names, the same wiring and — line for line — the same code in the
    shell header and the shell source; only comment lines can differ.  (The six support files do
    not depend on the configuration's texts at all: `C12.support_files_standalone`.) -/
theorem files_code_independent (fc : FC) (cfg : Config) (cr ci : Content) :
    (∀ e, buildShell fc cfg = .error e → buildShell fc (withText cfg cr ci) = .error e) ∧
    (∀ a, buildShell fc cfg = .ok a → ∃ b, buildShell fc (withText cfg cr ci) = .ok b ∧
        b.hh.filename = a.hh.filename ∧ b.cc.filename = a.cc.filename ∧
        Spec.codeOf b.hh.contents = Spec.codeOf a.hh.contents ∧
        Spec.codeOf b.cc.contents = Spec.codeOf a.cc.contents) := by
  unfold buildShell
  simp only [bind, Except.bind, pure, Except.pure, elements_same]
  split
  · exact ⟨fun e h => h, fun a h => by cases h⟩
  split
  · exact ⟨fun e h => h, fun a h => by cases h⟩
  split
  · exact ⟨fun e h => h, fun a h => by cases h⟩
  split
  · exact ⟨fun e h => h, fun a h => by cases h⟩
  split
  · exact ⟨fun e h => h, fun a h => by cases h⟩
  split
  · exact ⟨fun e h => h, fun a h => by cases h⟩
  split
  · exact ⟨fun e h => h, fun a h => by cases h⟩
  split
  · exact ⟨fun e h => h, fun a h => by cases h⟩
  refine ⟨fun e h => (by cases h), fun a h => ?_⟩
  injection h with h; subst h
  refine ⟨_, rfl, rfl, rfl, ?_, ?_⟩
  · exact code_ignores_leading_comment _ _ (contentLines_list_breakFree _) (contentLines_list_breakFree _) _ _
  · exact code_ignores_leading_comment _ _ (contentLines_list_breakFree _) (contentLines_list_breakFree _) _ _

end C19
