/-
  C04 (continued) — the generated multi-client wrappers executed over whole histories.

  `C04.refines_partial` is about the abstract selector machine (`selStep`).  Here the wrappers the
  generator emits (`mcClaim`, `mcRelease`, `mcDeliver` handlers of the wiring IR) are *executed* by
  the semantics (`Sem.invoke`): a client's claim reaches the component through the dispatcher, its
  reply comes back to that client and selects it exactly when it is the granting reply; a release
  reaches the component and deselects; calls never rebind events (`frame_invoke_drain`); and an
  out-event raised by the component is observed by exactly the selected client.  `history_refines`
  lifts this to every history of claims and releases by any number of clients.
-/
import DznModel
import DznProofs.Lemmas.Sem
import DznProofs.C01
import DznProofs.C04
open Py Scoping Ast PortSel Shell Sem Lem

namespace C04

/-- what calls never change: which handler sits in which slot, the wiring IR, the ports -/
structure Frame (w w' : World) : Prop where
  store : w'.store = w.store
  ir : w'.ir = w.ir
  allPorts : w'.allPorts = w.allPorts
  grantIndex : w'.grantIndex = w.grantIndex

theorem Frame.refl (w : World) : Frame w w := ⟨rfl, rfl, rfl, rfl⟩
theorem Frame.trans {a b c : World} (h1 : Frame a b) (h2 : Frame b c) : Frame a c :=
  ⟨h2.store.trans h1.store, h2.ir.trans h1.ir, h2.allPorts.trans h1.allPorts, h2.grantIndex.trans h1.grantIndex⟩

theorem frame_setSelector (w : World) (s : Selector) : Frame w (w.setSelector s) := ⟨rfl, rfl, rfl, rfl⟩

/-- changing anything but the four framed fields -/
theorem Frame.of_eq {w w' : World} (h1 : w'.store = w.store) (h2 : w'.ir = w.ir) (h3 : w'.allPorts = w.allPorts)
    (h4 : w'.grantIndex = w.grantIndex) : Frame w w' := ⟨h1, h2, h3, h4⟩

/-- **calls never rebind events**: whatever is invoked and whatever the dispatcher drains, every
    slot holds afterwards what it held before -/
theorem frame_invoke_drain (n : Nat) :
    (∀ w s args, Frame w (invoke n w s args).1) ∧ (∀ w, Frame w (drain n w).1) := by
  induction n with
  | zero =>
    constructor
    · intro w s args; rw [invoke]; exact Frame.refl w
    · intro w; rw [drain]; exact Frame.refl w
  | succ n ih =>
    obtain ⟨ihI, ihD⟩ := ih
    constructor
    · intro w s args
      rw [invoke]
      cases hg : w.get s with
      | none => exact Frame.refl w
      | some rh =>
        cases rh with
        | scripted who port ev => exact Frame.of_eq rfl rfl rfl rfl
        | noop ev => exact Frame.refl w
        | ir h ev cid cmv =>
          cases h with
          | ref t => exact ihI _ _ _
          | shell callee ps callArgs byVal =>
            simp only
            generalize hw0 : ({ w with shellCalls := w.shellCalls + 1, pumpTouched := true } : World) = w0
            have h0 : Frame w w0 := by subst hw0; exact Frame.of_eq rfl rfl rfl rfl
            have h1 := ihD w0
            generalize hd : drain n w0 = dres at h1
            obtain ⟨w1, e1⟩ := dres
            cases e1 with
            | some e => exact h0.trans h1
            | none =>
              simp only
              cases evalArgs ps args callArgs with
              | none => exact h0.trans h1
              | some cargs =>
                simp only
                have h2 := ihI { w1 with inDispatch := true } (resolveSlot callee cmv cid) cargs
                generalize invoke n { w1 with inDispatch := true } (resolveSlot callee cmv cid) cargs = ires at h2
                obtain ⟨w2, r2⟩ := ires
                have h12 : Frame w1 { w1 with inDispatch := true } := Frame.of_eq rfl rfl rfl rfl
                have h3 : Frame w w2 := (h0.trans h1).trans (h12.trans h2)
                cases r2 <;> exact Frame.of_eq h3.store h3.ir h3.allPorts h3.grantIndex
          | post callee ps callArgs byVal =>
            simp only
            cases evalArgs ps args callArgs with
            | none => exact Frame.refl w
            | some cargs => exact Frame.of_eq rfl rfl rfl rfl
          | mcDeliver mv evName ps callArgs =>
            simp only
            cases w.selector mv with
            | none => exact Frame.refl w
            | some sel =>
              simp only
              cases sel.selected with
              | none => exact Frame.refl w
              | some id =>
                simp only
                cases evalArgs ps args callArgs with
                | none => exact Frame.refl w
                | some cargs =>
                  simp only
                  have h2 := ihI w { obj := .client mv id, dir := .out, ev := evName } cargs
                  generalize invoke n w { obj := .client mv id, dir := .out, ev := evName } cargs = ires at h2
                  obtain ⟨w2, r2⟩ := ires
                  cases r2 <;> exact h2
          | mcClaim mv evName ps callArgs g =>
            simp only
            cases evalArgs ps args callArgs with
            | none => exact Frame.refl w
            | some cargs =>
              simp only
              have h2 := ihI w { obj := .arb mv, dir := .in_, ev := evName } cargs
              generalize invoke n w { obj := .arb mv, dir := .in_, ev := evName } cargs = ires at h2
              obtain ⟨w2, r2⟩ := ires
              cases r2 with
              | exc e => exact h2
              | ok rep after =>
                simp only
                have key : ∀ (g : Bool), Frame w (if g then (match w2.selector mv with
                    | some sel => w2.setSelector (sel.select cid) | none => w2) else w2) := by
                  intro g
                  cases g with
                  | false => exact h2
                  | true =>
                    simp only [if_true]
                    cases w2.selector mv with
                    | none => exact h2
                    | some sel => exact h2.trans (frame_setSelector _ _)
                exact key _
          | mcRelease mv e calledEv ps callArgs =>
            simp only
            cases evalArgs ps args callArgs with
            | none => exact Frame.refl w
            | some cargs =>
              simp only
              have h2 := ihI w { obj := .arb mv, dir := .in_, ev := calledEv } cargs
              generalize invoke n w { obj := .arb mv, dir := .in_, ev := calledEv } cargs = ires at h2
              obtain ⟨w2, r2⟩ := ires
              cases r2 with
              | exc e => exact h2
              | ok rep after =>
                simp only
                cases w2.selector mv with
                | none => exact h2
                | some sel => exact h2.trans (frame_setSelector _ _)
    · intro w
      rw [drain]
      cases hq : w.queue with
      | nil => exact Frame.refl w
      | cons c rest =>
        simp only
        have h0 : Frame w { w with queue := rest } := Frame.of_eq rfl rfl rfl rfl
        by_cases hdang : c.dangling = true
        · simp only [hdang, if_true]; exact h0
        · simp only [hdang, Bool.false_eq_true, if_false]
          have h1 := ihI { { w with queue := rest } with inDispatch := true } c.callee c.args
          generalize invoke n { { w with queue := rest } with inDispatch := true } c.callee c.args = ires at h1
          obtain ⟨w2, r2⟩ := ires
          have h01 : Frame w { { w with queue := rest } with inDispatch := true } := Frame.of_eq rfl rfl rfl rfl
          have h2 : Frame w w2 := h01.trans h1
          cases r2 with
          | exc e => exact Frame.of_eq h2.store h2.ir h2.allPorts h2.grantIndex
          | ok rep after =>
            simp only
            have h3 := ihD { { w2 with inDispatch := w.inDispatch } with executed := w2.executed + 1 }
            have h23 : Frame w2 { { w2 with inDispatch := w.inDispatch } with executed := w2.executed + 1 } :=
              Frame.of_eq rfl rfl rfl rfl
            exact (h2.trans h23).trans h3


theorem frame_get {w w' : World} (h : Frame w w') (k : RSlot) : w'.get k = w.get k := by
  unfold World.get; rw [h.store]

/-! ### one call through `dzn::shell` on any slot -/

/-- `C01.env_to_comp_mts_provides` for an arbitrary slot (the arbitered port of a selector is
    wired like a boundary port) -/
theorem shell_call (w : World) (n : Nat) (s : RSlot) (p : Str) (ev : Event) (ps : List LParam)
    (byVal : List Str) (args : List Val)
    (hq : w.queue = [])
    (hb : w.get s = some (.ir (.shell ⟨.enc p, .in_, ev.name⟩ ps (ps.map (·.name)) byVal) ev [] []))
    (hc : w.get ⟨.enc p, .in_, ev.name⟩ = some (.scripted .comp p ev))
    (hlen : ps.length = args.length) (hnd : (ps.map (·.name)).Nodup) :
    invoke (n + 3) w s args =
      ({ w with shellCalls := w.shellCalls + 1, pumpTouched := true, executed := w.executed + 1,
                out := C01.obsLine .comp p ev args true :: w.out },
       .ok (if isVoid ev then none else some (w.reply true p ev.name))
           (writeBack ps args (ps.map (·.name)) (rewritten ev args))) := by
  rw [invoke]
  simp only [hb]
  have hd : drain (n + 2) { w with shellCalls := w.shellCalls + 1, pumpTouched := true } =
      ({ w with shellCalls := w.shellCalls + 1, pumpTouched := true }, none) := C01.drain_empty _ _ hq
  simp only [hd, evalArgs_self ps args hlen hnd]
  rw [invoke]
  have hc' : World.get { w with shellCalls := w.shellCalls + 1, pumpTouched := true, inDispatch := true }
      ⟨.enc p, .in_, ev.name⟩ = some (.scripted .comp p ev) := hc
  simp only [resolveSlot, resolveObj, hc']
  by_cases hv : isVoid ev = true <;>
    simp [scriptedRun, hv, World.reply, World.emit, C01.obsLine, rewritten]


/-! ### the per-client wrappers, executed -/

/-- the world after one rerouted call that the component observed -/
def afterCall (w : World) (p : Str) (ev : Event) (args : List Val) : World :=
  { w with shellCalls := w.shellCalls + 1, pumpTouched := true, executed := w.executed + 1,
           out := C01.obsLine .comp p ev args true :: w.out }

theorem afterCall_selector (w : World) (p : Str) (ev : Event) (args : List Val) (mv : Str) :
    (afterCall w p ev args).selector mv = w.selector mv := rfl

/-- **a client's claim**: the call reaches the wrapped component through the dispatcher exactly once,
    the component's reply is returned to that client, and the client becomes the selected one
    exactly when the reply is the configured granting value — otherwise the selection is untouched -/
theorem client_claim (w : World) (n : Nat) (mv p id : Str) (ev : Event) (ps ps' : List LParam)
    (byVal : List Str) (g : Str) (args : List Val) (sel : Selector) (gi : Nat)
    (hq : w.queue = [])
    (hcl : w.get ⟨.client mv id, .in_, ev.name⟩ = some (.ir (.mcClaim mv ev.name ps (ps.map (·.name)) g) ev id mv))
    (harb : w.get ⟨.arb mv, .in_, ev.name⟩ =
      some (.ir (.shell ⟨.enc p, .in_, ev.name⟩ ps' (ps'.map (·.name)) byVal) ev [] []))
    (hc : w.get ⟨.enc p, .in_, ev.name⟩ = some (.scripted .comp p ev))
    (hsel : w.selector mv = some sel) (hnv : isVoid ev = false) (hgi : w.grantIndex = some gi)
    (hlen : ps.length = args.length) (hnd : (ps.map (·.name)).Nodup)
    (hlen' : ps'.length = args.length) (hnd' : (ps'.map (·.name)).Nodup) :
    invoke (n + 4) w ⟨.client mv id, .in_, ev.name⟩ args =
      ((if w.reply true p ev.name = (gi : Int) then (afterCall w p ev args).setSelector (sel.select id)
        else afterCall w p ev args),
       .ok (some (w.reply true p ev.name))
           (writeBack ps args (ps.map (·.name)) (writeBack ps' args (ps'.map (·.name)) (rewritten ev args)))) := by
  rw [invoke]
  simp only [hcl, evalArgs_self ps args hlen hnd]
  rw [shell_call w n ⟨.arb mv, .in_, ev.name⟩ p ev ps' byVal args hq harb hc hlen' hnd']
  simp only [hnv, Bool.false_eq_true, if_false]
  have hg' : ({ w with shellCalls := w.shellCalls + 1, pumpTouched := true, executed := w.executed + 1,
                       out := C01.obsLine .comp p ev args true :: w.out } : World).grantIndex = some gi := hgi
  have hs' : ({ w with shellCalls := w.shellCalls + 1, pumpTouched := true, executed := w.executed + 1,
                       out := C01.obsLine .comp p ev args true :: w.out } : World).selector mv = some sel := hsel
  simp only [hs', afterCall]
  by_cases hv : w.reply true p ev.name = (gi : Int) <;> simp [hv, hgi] <;> rfl

/-- **a client's release**: the call reaches the wrapped component through the dispatcher exactly
    once and afterwards `Deselect(id)` has run -/
theorem client_release (w : World) (n : Nat) (mv p id : Str) (ev : Event) (ps ps' : List LParam)
    (byVal : List Str) (args : List Val) (sel : Selector)
    (hq : w.queue = [])
    (hcl : w.get ⟨.client mv id, .in_, ev.name⟩ =
      some (.ir (.mcRelease mv ev.name ev.name ps (ps.map (·.name))) ev id mv))
    (harb : w.get ⟨.arb mv, .in_, ev.name⟩ =
      some (.ir (.shell ⟨.enc p, .in_, ev.name⟩ ps' (ps'.map (·.name)) byVal) ev [] []))
    (hc : w.get ⟨.enc p, .in_, ev.name⟩ = some (.scripted .comp p ev))
    (hsel : w.selector mv = some sel)
    (hlen : ps.length = args.length) (hnd : (ps.map (·.name)).Nodup)
    (hlen' : ps'.length = args.length) (hnd' : (ps'.map (·.name)).Nodup) :
    invoke (n + 4) w ⟨.client mv id, .in_, ev.name⟩ args =
      ((afterCall w p ev args).setSelector (sel.deselect id),
       .ok none (writeBack ps args (ps.map (·.name)) (writeBack ps' args (ps'.map (·.name)) (rewritten ev args)))) := by
  rw [invoke]
  simp only [hcl, evalArgs_self ps args hlen hnd]
  rw [shell_call w n ⟨.arb mv, .in_, ev.name⟩ p ev ps' byVal args hq harb hc hlen' hnd']
  have hs' : ({ w with shellCalls := w.shellCalls + 1, pumpTouched := true, executed := w.executed + 1,
                       out := C01.obsLine .comp p ev args true :: w.out } : World).selector mv = some sel := hsel
  simp only [hs', afterCall]

/-- **delivery**: an out-event the component raises on the multi-client port is observed by the
    selected client — once, with the arguments intact — and by nobody else -/
theorem deliver_to_selected (w : World) (n : Nat) (mv p id : Str) (ev : Event) (ps : List LParam)
    (args : List Val) (sel : Selector)
    (henc : w.get ⟨.enc p, .out, ev.name⟩ = some (.ir (.ref ⟨.arb mv, .out, ev.name⟩) ev [] []))
    (harb : w.get ⟨.arb mv, .out, ev.name⟩ = some (.ir (.mcDeliver mv ev.name ps (ps.map (·.name))) ev [] []))
    (hcl : w.get ⟨.client mv id, .out, ev.name⟩ = some (.scripted (.envc id) p ev))
    (hsel : w.selector mv = some sel) (hs : sel.selected = some id)
    (hlen : ps.length = args.length) (hnd : (ps.map (·.name)).Nodup) :
    invoke (n + 3) w ⟨.enc p, .out, ev.name⟩ args =
      ((scriptedRun w (.envc id) p ev args).1, .ok none args) := by
  rw [invoke]
  simp only [henc, resolveSlot, resolveObj]
  rw [invoke]
  simp only [harb, hsel, hs, evalArgs_self ps args hlen hnd]
  rw [invoke]
  simp only [hcl]

/-- … and to nobody when no client is selected -/
theorem deliver_to_nobody (w : World) (n : Nat) (mv p : Str) (ev : Event) (ps : List LParam)
    (args : List Val) (sel : Selector)
    (henc : w.get ⟨.enc p, .out, ev.name⟩ = some (.ir (.ref ⟨.arb mv, .out, ev.name⟩) ev [] []))
    (harb : w.get ⟨.arb mv, .out, ev.name⟩ = some (.ir (.mcDeliver mv ev.name ps (ps.map (·.name))) ev [] []))
    (hsel : w.selector mv = some sel) (hs : sel.selected = none) :
    invoke (n + 2) w ⟨.enc p, .out, ev.name⟩ args = (w, .ok none args) := by
  rw [invoke]
  simp only [henc, resolveSlot, resolveObj]
  exact deliver_to_selected_only w n mv ev.name ev ps args _ sel harb hsel hs


/-! ### whole histories -/

/-- the wiring of one multi-client port as far as claim and release are concerned (what
    `InitializePort<Port>` and the constructor establish; it only speaks about slots, so calls keep it) -/
structure McWired (w : World) (mv p : Str) (claim release : Event) (psC psA psR psB : List LParam)
    (bvC bvR : List Str) (g : Str) (ids : List Str) : Prop where
  clClaim : ∀ id ∈ ids, w.get ⟨.client mv id, .in_, claim.name⟩ =
    some (.ir (.mcClaim mv claim.name psC (psC.map (·.name)) g) claim id mv)
  arbClaim : w.get ⟨.arb mv, .in_, claim.name⟩ =
    some (.ir (.shell ⟨.enc p, .in_, claim.name⟩ psA (psA.map (·.name)) bvC) claim [] [])
  compClaim : w.get ⟨.enc p, .in_, claim.name⟩ = some (.scripted .comp p claim)
  clRelease : ∀ id ∈ ids, w.get ⟨.client mv id, .in_, release.name⟩ =
    some (.ir (.mcRelease mv release.name release.name psR (psR.map (·.name))) release id mv)
  arbRelease : w.get ⟨.arb mv, .in_, release.name⟩ =
    some (.ir (.shell ⟨.enc p, .in_, release.name⟩ psB (psB.map (·.name)) bvR) release [] [])
  compRelease : w.get ⟨.enc p, .in_, release.name⟩ = some (.scripted .comp p release)
  claimValued : isVoid claim = false
  ndC : (psC.map (·.name)).Nodup
  ndA : (psA.map (·.name)).Nodup
  ndR : (psR.map (·.name)).Nodup
  ndB : (psB.map (·.name)).Nodup
  lenA : psA.length = psC.length
  lenB : psB.length = psR.length

theorem McWired.frame {w w' : World} {mv p claim release psC psA psR psB bvC bvR g ids}
    (h : McWired w mv p claim release psC psA psR psB bvC bvR g ids) (f : Frame w w') :
    McWired w' mv p claim release psC psA psR psB bvC bvR g ids :=
  { h with
    clClaim := fun id hid => by rw [frame_get f]; exact h.clClaim id hid
    arbClaim := by rw [frame_get f]; exact h.arbClaim
    compClaim := by rw [frame_get f]; exact h.compClaim
    clRelease := fun id hid => by rw [frame_get f]; exact h.clRelease id hid
    arbRelease := by rw [frame_get f]; exact h.arbRelease
    compRelease := by rw [frame_get f]; exact h.compRelease }

/-- what the clients do: a claim (the component is scripted to answer it with `reply`) or a release -/
inductive ClientOp
  | claim (id : Str) (reply : Int) (args : List Val)
  | release (id : Str) (args : List Val)

def ClientOp.id : ClientOp → Str
  | .claim id _ _ => id
  | .release id _ => id

/-- the abstract operation a client operation amounts to -/
def ClientOp.abs (gi : Nat) : ClientOp → Op
  | .claim id v _ => .claim id (decide (v = (gi : Int)))
  | .release id _ => .release id

/-- the call passes as many arguments as the event has parameters -/
def ClientOp.argsOk (psC psR : List LParam) : ClientOp → Prop
  | .claim _ _ args => psC.length = args.length
  | .release _ args => psR.length = args.length

def setReply (w : World) (p ev : Str) (v : Int) : World :=
  { w with replies := ((true, p, ev), v) :: w.replies.filter (·.1 ≠ (true, p, ev)) }

theorem setReply_reply (w : World) (p ev : Str) (v : Int) : (setReply w p ev v).reply true p ev = v := by
  simp [setReply, World.reply]

/-- execute one client operation on the shell: through the generated wrapper of that client -/
def runOp (n : Nat) (mv p : Str) (claim release : Event) (w : World) : ClientOp → World
  | .claim id v args => (invoke (n + 4) (setReply w p claim.name v) ⟨.client mv id, .in_, claim.name⟩ args).1
  | .release id args => (invoke (n + 4) w ⟨.client mv id, .in_, release.name⟩ args).1

theorem selector_mv (w : World) (mv : Str) (sel : Selector) (h : w.selector mv = some sel) : sel.mv = mv := by
  unfold World.selector at h
  have := List.find?_some h
  simpa using this

theorem selector_setSelector (w : World) (s : Selector) : (w.setSelector s).selector s.mv = some s := by
  simp [World.setSelector, World.selector]

theorem select_mv (s : Selector) (id : Str) : (s.select id).mv = s.mv := by
  unfold Selector.select; split <;> rfl
theorem deselect_mv (s : Selector) (id : Str) : (s.deselect id).mv = s.mv := by
  unfold Selector.deselect; split <;> rfl

/-- **one operation**: the slots stay as they are, the queue stays empty, and the selector moves
    exactly as the abstract machine `selStep` says -/
theorem runOp_step (n : Nat) (w : World) (mv p : Str) (claim release : Event) (psC psA psR psB : List LParam)
    (bvC bvR : List Str) (g : Str) (ids : List Str) (gi : Nat) (sel : Selector)
    (hw : McWired w mv p claim release psC psA psR psB bvC bvR g ids)
    (hq : w.queue = []) (hgi : w.grantIndex = some gi) (hsel : w.selector mv = some sel)
    (op : ClientOp) (hid : op.id ∈ ids)
    (hargs : op.argsOk psC psR) :
    Frame w (runOp n mv p claim release w op) ∧ (runOp n mv p claim release w op).queue = [] ∧
    (runOp n mv p claim release w op).selector mv = some (selStep sel (op.abs gi)) := by
  have hmv := selector_mv w mv sel hsel
  cases op with
  | claim id v args =>
    simp only [ClientOp.id] at hid
    simp only [ClientOp.argsOk] at hargs
    have f0 : Frame w (setReply w p claim.name v) := ⟨rfl, rfl, rfl, rfl⟩
    have hw0 := hw.frame f0
    have hcall := client_claim (setReply w p claim.name v) n mv p id claim psC psA bvC g args sel gi hq
      (hw0.clClaim id hid) hw0.arbClaim hw0.compClaim hsel hw.claimValued hgi hargs hw.ndC
      (by rw [hw.lenA]; exact hargs) hw.ndA
    simp only [runOp, hcall, setReply_reply, ClientOp.abs]
    by_cases hv : v = (gi : Int)
    · simp only [hv, if_true, decide_true, selStep]
      refine ⟨⟨rfl, rfl, rfl, rfl⟩, hq, ?_⟩
      have := selector_setSelector (afterCall (setReply w p claim.name (gi : Int)) p claim args) (sel.select id)
      rw [select_mv, hmv] at this
      exact this
    · simp only [hv, if_false, decide_false, selStep]
      exact ⟨⟨rfl, rfl, rfl, rfl⟩, hq, hsel⟩
  | release id args =>
    simp only [ClientOp.id] at hid
    simp only [ClientOp.argsOk] at hargs
    have hcall := client_release w n mv p id release psR psB bvR args sel hq
      (hw.clRelease id hid) hw.arbRelease hw.compRelease hsel hargs hw.ndR (by rw [hw.lenB]; exact hargs) hw.ndB
    simp only [runOp, hcall, ClientOp.abs, selStep]
    refine ⟨⟨rfl, rfl, rfl, rfl⟩, hq, ?_⟩
    have := selector_setSelector (afterCall w p release args) (sel.deselect id)
    rw [deselect_mv, hmv] at this
    exact this

/-- **every history**: after any sequence of claims and releases by registered clients — executed
    through the generated per-client wrappers — the slots are as the constructor left them, nothing
    is pending, and the selector's state is the abstract machine's state for the same history -/
theorem history_refines (n : Nat) (mv p : Str) (claim release : Event) (psC psA psR psB : List LParam)
    (bvC bvR : List Str) (g : Str) (ids : List Str) (gi : Nat) (ops : List ClientOp) (w : World) (sel : Selector)
    (hw : McWired w mv p claim release psC psA psR psB bvC bvR g ids)
    (hq : w.queue = []) (hgi : w.grantIndex = some gi) (hsel : w.selector mv = some sel)
    (hids : ∀ op ∈ ops, op.id ∈ ids)
    (hargs : ∀ op ∈ ops, op.argsOk psC psR) :
    let w' := ops.foldl (runOp n mv p claim release) w
    Frame w w' ∧ w'.queue = [] ∧
    w'.selector mv = some ((ops.map (ClientOp.abs gi)).foldl selStep sel) := by
  induction ops generalizing w sel with
  | nil => exact ⟨Frame.refl w, hq, hsel⟩
  | cons op r ih =>
    obtain ⟨f1, q1, s1⟩ := runOp_step n w mv p claim release psC psA psR psB bvC bvR g ids gi sel hw hq hgi hsel op
      (hids op (by simp)) (hargs op (by simp))
    have := ih (runOp n mv p claim release w op) (selStep sel (op.abs gi)) (hw.frame f1) q1
      (by rw [f1.grantIndex]; exact hgi) s1 (fun o ho => hids o (by simp [ho])) (fun o ho => hargs o (by simp [ho]))
    simp only [List.foldl_cons, List.map_cons]
    exact ⟨f1.trans this.1, this.2.1, this.2.2⟩

/-- **C04, executed**: after any such history an out-event raised by the wrapped component is
    observed by the client the abstract machine has selected — once, arguments intact — and by
    nobody when it has selected none.  With `refines_partial`: when nobody releases a claim held by
    somebody else, that client is the holder of the specification. -/
theorem history_delivery (n m : Nat) (mv p : Str) (claim release : Event) (psC psA psR psB : List LParam)
    (bvC bvR : List Str) (g : Str) (ids : List Str) (gi : Nat) (ops : List ClientOp) (w : World) (sel : Selector)
    (hw : McWired w mv p claim release psC psA psR psB bvC bvR g ids)
    (hq : w.queue = []) (hgi : w.grantIndex = some gi) (hsel : w.selector mv = some sel)
    (hids : ∀ op ∈ ops, op.id ∈ ids)
    (hargs : ∀ op ∈ ops, op.argsOk psC psR)
    (ev : Event) (ps : List LParam) (args : List Val)
    (henc : w.get ⟨.enc p, .out, ev.name⟩ = some (.ir (.ref ⟨.arb mv, .out, ev.name⟩) ev [] []))
    (harb : w.get ⟨.arb mv, .out, ev.name⟩ = some (.ir (.mcDeliver mv ev.name ps (ps.map (·.name))) ev [] []))
    (hcl : ∀ id ∈ ids, w.get ⟨.client mv id, .out, ev.name⟩ = some (.scripted (.envc id) p ev))
    (hlen : ps.length = args.length) (hnd : (ps.map (·.name)).Nodup)
    (hreg : ∀ id, ((ops.map (ClientOp.abs gi)).foldl selStep sel).selected = some id → id ∈ ids) :
    let w' := ops.foldl (runOp n mv p claim release) w
    match ((ops.map (ClientOp.abs gi)).foldl selStep sel).selected with
    | some id => invoke (m + 3) w' ⟨.enc p, .out, ev.name⟩ args = ((scriptedRun w' (.envc id) p ev args).1, .ok none args)
    | none => invoke (m + 2) w' ⟨.enc p, .out, ev.name⟩ args = (w', .ok none args) := by
  obtain ⟨f, _, hs⟩ := history_refines n mv p claim release psC psA psR psB bvC bvR g ids gi ops w sel hw hq hgi hsel hids hargs
  simp only
  cases hsd : ((ops.map (ClientOp.abs gi)).foldl selStep sel).selected with
  | some id =>
    simp only
    exact deliver_to_selected _ m mv p id ev ps args _ (by rw [frame_get f]; exact henc) (by rw [frame_get f]; exact harb)
      (by rw [frame_get f]; exact hcl id (hreg id hsd)) hs hsd hlen hnd
  | none =>
    simp only
    exact deliver_to_nobody _ m mv p ev ps args _ (by rw [frame_get f]; exact henc) (by rw [frame_get f]; exact harb) hs hsd


theorem clientsOf_abs (gi : Nat) (ops : List ClientOp) : clientsOf (ops.map (ClientOp.abs gi)) = ops.map ClientOp.id := by
  induction ops with
  | nil => rfl
  | cons op r ih => cases op <;> simp [ClientOp.abs, clientsOf, ClientOp.id, ih]

/-- **the holder of the specification** (partial: histories without a release by a non-holder,
    finding D-9): after any such history executed through the generated wrappers, the shell's
    selected client is the client whose most recent claim was answered with the granting reply and
    who has not released since -/
theorem history_holder (n : Nat) (mv p : Str) (claim release : Event) (psC psA psR psB : List LParam)
    (bvC bvR : List Str) (g : Str) (ids : List Str) (gi : Nat) (ops : List ClientOp) (w : World) (sel : Selector)
    (hw : McWired w mv p claim release psC psA psR psB bvC bvR g ids)
    (hq : w.queue = []) (hgi : w.grantIndex = some gi) (hsel : w.selector mv = some sel)
    (hids : ∀ op ∈ ops, op.id ∈ ids) (hargs : ∀ op ∈ ops, op.argsOk psC psR)
    (hreg : ∀ op ∈ ops, op.id ∈ sel.clients)
    (hnf : NoForeignRelease sel.selected (ops.map (ClientOp.abs gi))) :
    ∃ s', (ops.foldl (runOp n mv p claim release) w).selector mv = some s' ∧
      s'.selected = (ops.map (ClientOp.abs gi)).foldl specStep sel.selected := by
  obtain ⟨_, _, hs⟩ := history_refines n mv p claim release psC psA psR psB bvC bvR g ids gi ops w sel hw hq hgi hsel hids hargs
  refine ⟨_, hs, ?_⟩
  exact (refines_partial sel (ops.map (ClientOp.abs gi))
    (by rw [clientsOf_abs]; intro c hc; obtain ⟨op, hop, rfl⟩ := List.mem_map.mp hc; exact hreg op hop) hnf).1

end C04
