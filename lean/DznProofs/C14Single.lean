/-
  C14 / C07 — what a caller does with a lookup result: `FindResult.has_one_instance` and
  `FindResult.get_single_instance` with every type hint.  A declaration is handed out exactly when it
  is the only declaration on the scope chain and of the hinted kind; every other outcome is a
  `FindError`; the test and the getter agree.
-/
import DznModel
import DznProofs.C14
open Py Scoping Ast AstView

namespace C14

/-- `get_single_instance(hint)` succeeds with `d` iff `d` is the only item and of the hinted kind -/
theorem getSingleH_ok_iff (items : List Decl) (k : String) (d : Decl) :
    getSingleH items (.kind k) = .ok d ↔ items = [d] ∧ d.kind = k := by
  unfold getSingleH
  cases items with
  | nil => simp
  | cons a r =>
    cases r with
    | nil =>
      by_cases hk : a.kind = k
      · simp [hk]
        intro h; rw [← h]; exact hk
      · simp [hk]
        intro h; subst h; exact hk
    | cons b r' => simp

theorem getSingleH_absent_ok_iff (items : List Decl) (d : Decl) :
    getSingleH items .absent = .ok d ↔ items = [d] := by
  unfold getSingleH
  cases items with
  | nil => simp
  | cons a r => cases r <;> simp

/-- every failure of `get_single_instance` is the documented `FindError` -/
theorem getSingleH_err (items : List Decl) (h : Hint) (e : PyErr) (he : getSingleH items h = .error e) :
    e = .lib .FindError := by
  unfold getSingleH at he
  cases items with
  | nil => injection he with he; exact he.symm
  | cons a r =>
    cases r with
    | nil =>
      cases h with
      | absent => cases he
      | invalid => injection he with he; exact he.symm
      | kind k =>
        simp only at he
        split at he
        · cases he
        · injection he with he; exact he.symm
    | cons b r' => injection he with he; exact he.symm

/-- **test and getter agree**: `has_one_instance(hint)` is true exactly when `get_single_instance(hint)`
    hands out a declaration (for the absent and the seven valid hints) -/
theorem hasOne_iff_getSingle (items : List Decl) (h : Hint) (hv : h ≠ .invalid) :
    hasOne items h = .ok true ↔ ∃ d, getSingleH items h = .ok d := by
  unfold hasOne getSingleH
  cases items with
  | nil => simp
  | cons a r =>
    cases r with
    | nil =>
      cases h with
      | absent => simp
      | invalid => exact absurd rfl hv
      | kind k => by_cases hk : a.kind = k <;> simp [hk]
    | cons b r' => simp

/-- … and with the lookup in front: from a calling scope, `find_fqn(...).get_single_instance(kind)`
    hands out `d` iff `d` is the one declaration whose fully qualified name is on the scope chain, and
    it is of that kind -/
theorem lookup_single (f : FC) (name scope : Ids) (k : String) (d : Decl) :
    getSingleH (findFqn f name scope) (.kind k) = .ok d ↔
      Spec.findFqnSpec f name scope = [d] ∧ d.kind = k := by
  rw [getSingleH_ok_iff, find_fqn_spec]

end C14
