/-
  C15 stated on the INPUT document (the clause "an out event with an out parameter is always refused"):
  whatever a JSON document contains besides, if an interface reachable from the root through namespaces
  lists an event written with direction "out" that has a formal written with direction "out", parsing the
  document does not succeed.  (`C15.out_event_refused` says the same about the *result*; this one cannot be
  satisfied by dropping the offending formal on the way.)
-/
import DznModel
import DznProofs.C15
open Py Scoping Ast JVal Parser

namespace C15

theorem bind_ok {α β} {x : R α} {f : α → R β} {b : β} (h : (x >>= f) = .ok b) :
    ∃ a, x = .ok a ∧ f a = .ok b := by
  cases x with
  | error e => simp [bind, Except.bind] at h
  | ok a => exact ⟨a, rfl, h⟩

theorem asObj_ok {j : JVal} {o : Obj} (h : asObj j = .ok o) : j = .obj o := by
  cases j <;> simp [asObj, jerr] at h
  subst h; rfl

theorem getStr_ok {o : Obj} {k s : Str} (h : getStr o k = .ok s) : lookup k o = some (.str s) := by
  unfold getStr tryGetStr at h
  cases hl : lookup k o with
  | none => simp [hl, bind, Except.bind, jerr] at h
  | some v =>
    cases v <;> simp [hl, bind, Except.bind, jerr, pure, Except.pure] at h
    subst h; rfl

theorem getDict_ok {o : Obj} {k : Str} {d : JVal} (h : getDict o k = .ok d) : lookup k o = some d := by
  unfold getDict tryGetDict at h
  cases hl : lookup k o with
  | none => simp [hl, bind, Except.bind, jerr] at h
  | some v =>
    by_cases hv : v.isObj
    · simp [hl, hv, bind, Except.bind, pure, Except.pure] at h; subst h; rfl
    · simp [hl, hv, bind, Except.bind, jerr] at h

theorem getList_ok {o : Obj} {k : Str} {l : List JVal} (h : getList o k = .ok l) :
    lookup k o = some (.arr l) := by
  unfold getList at h
  cases hl : lookup k o with
  | none => simp [hl, jerr] at h
  | some v =>
    cases v <;> simp [hl, jerr] at h
    subst h; rfl

theorem eqStr_eq {v : JVal} {s : Str} (h : v.eqStr s = true) : v = .str s := by
  cases v <;> simp [JVal.eqStr] at h
  subst h; rfl

/-- a formal written "out" parses (if it parses) to an `out` formal -/
theorem parseFormal_dir_out (j : JVal) (f : Formal) (h : parseFormal j = .ok f)
    (hb : Spec.jFormalIsOut j = true) : f.dir = .out := by
  unfold parseFormal at h
  obtain ⟨o, ho, h⟩ := bind_ok h
  obtain ⟨_, _, h⟩ := bind_ok h
  obtain ⟨name, _, h⟩ := bind_ok h
  obtain ⟨d, _, h⟩ := bind_ok h
  obtain ⟨ty, _, h⟩ := bind_ok h
  obtain ⟨s, hs, h⟩ := bind_ok h
  obtain ⟨dir, hdir, h⟩ := bind_ok h
  have hj := asObj_ok ho
  subst hj
  have hl := getStr_ok hs
  simp only [Spec.jFormalIsOut, Spec.jDirIsOut, hl] at hb
  have hs' : s = L "out" := by simpa [JVal.eqStr] using hb
  subst hs'
  have : dir = .out := by
    simp [parseFormalDirection] at hdir
    exact hdir.symm
  simp only [pure, Except.pure] at h
  injection h with h
  subst h
  first | rfl | exact this | simp [this]

theorem mapM_ok_fwd {α β} (f : α → R β) (l : List α) (r : List β) (h : l.mapM f = .ok r) :
    ∀ a ∈ l, ∃ b ∈ r, f a = .ok b := by
  induction l generalizing r with
  | nil => intro a ha; cases ha
  | cons a t ih =>
    rw [List.mapM_cons] at h
    obtain ⟨b, hb, h⟩ := bind_ok h
    obtain ⟨bs, hbs, h⟩ := bind_ok h
    simp only [pure, Except.pure] at h
    injection h with h; subst h
    intro x hx
    rcases List.mem_cons.mp hx with rfl | hx
    · exact ⟨b, by simp, hb⟩
    · obtain ⟨b', hb', hf⟩ := ih bs hbs x hx
      exact ⟨b', by simp [hb'], hf⟩

theorem parseFormals_ok {j : JVal} {fs : List Formal} (h : parseFormals j = .ok fs) :
    ∃ o l, j = .obj o ∧ lookup (L "elements") o = some (.arr l) ∧ l.mapM parseFormal = .ok fs := by
  unfold parseFormals at h
  obtain ⟨o, ho, h⟩ := bind_ok h
  obtain ⟨_, _, h⟩ := bind_ok h
  obtain ⟨l, hl, h⟩ := bind_ok h
  exact ⟨o, l, asObj_ok ho, getList_ok hl, h⟩

theorem parseSignature_ok {j : JVal} {ty : Ids} {fs : List Formal} (h : parseSignature j = .ok (ty, fs)) :
    ∃ o d d0, j = .obj o ∧ lookup (L "formals") o = some d ∧ parseFormals d = .ok fs ∧
      lookup (L "type_name") o = some d0 ∧ parseScopeName d0 = .ok ty := by
  unfold parseSignature at h
  obtain ⟨o, ho, h⟩ := bind_ok h
  obtain ⟨_, _, h⟩ := bind_ok h
  obtain ⟨d0, hd0, h⟩ := bind_ok h
  obtain ⟨ty', hty, h⟩ := bind_ok h
  obtain ⟨d, hd, h⟩ := bind_ok h
  obtain ⟨fs', hfs, h⟩ := bind_ok h
  simp only [pure, Except.pure] at h
  injection h with h
  injection h with h1 h2
  subst h1; subst h2
  exact ⟨o, d, d0, asObj_ok ho, getDict_ok hd, hfs, getDict_ok hd0, hty⟩

theorem mapM_strOf_single {l : List JVal} {s : Str} (h : l.mapM strOf? = some [s]) : l = [.str s] := by
  match l, h with
  | [], h => simp at h
  | [a], h =>
    cases a <;> simp [strOf?] at h
    subst h; rfl
  | a :: b :: t, h =>
    exfalso
    simp only [List.mapM_cons, bind, Option.bind] at h
    cases ha : strOf? a <;> simp [ha] at h
    cases hb : strOf? b <;> simp [hb] at h
    cases ht : List.mapM strOf? t <;> simp [ht, pure] at h

theorem parseScopeName_single {j : JVal} {s : Str} (h : parseScopeName j = .ok [s]) :
    ∃ o, j = .obj o ∧ lookup (L "ids") o = some (.arr [.str s]) := by
  unfold parseScopeName at h
  obtain ⟨o, ho, h⟩ := bind_ok h
  obtain ⟨_, _, h⟩ := bind_ok h
  obtain ⟨l, hl, h⟩ := bind_ok h
  split at h
  · simp [jerr] at h
  · unfold idsOfJson at h
    cases hm : l.mapM strOf? with
    | none => simp [hm] at h
    | some strs =>
      simp only [hm, mkIds] at h
      split at h
      · injection h with h
        subst h
        have := mapM_strOf_single hm
        subst this
        exact ⟨o, asObj_ok ho, getList_ok hl⟩
      · cases h

theorem parseEvent_ok {j : JVal} {e : Event} (h : parseEvent j = .ok e) :
    ∃ o d s, j = .obj o ∧ lookup (L "signature") o = some d ∧ parseSignature d = .ok (e.replyType, e.formals) ∧
      lookup (L "direction") o = some (.str s) ∧ parseEventDirection s = .ok e.dir := by
  unfold parseEvent at h
  obtain ⟨o, ho, h⟩ := bind_ok h
  obtain ⟨_, _, h⟩ := bind_ok h
  obtain ⟨name, _, h⟩ := bind_ok h
  obtain ⟨d, hd, h⟩ := bind_ok h
  obtain ⟨⟨ty, fs⟩, hsig, h⟩ := bind_ok h
  obtain ⟨s, hs, h⟩ := bind_ok h
  obtain ⟨dir, hdir, h⟩ := bind_ok h
  refine ⟨o, d, s, asObj_ok ho, getDict_ok hd, ?_, getStr_ok hs, ?_⟩
  · split at h
    · simp [jerr] at h
    · split at h
      · simp [jerr] at h
      · simp only [pure, Except.pure] at h
        injection h with h; subst h; exact hsig
  · split at h
    · simp [jerr] at h
    · split at h
      · simp [jerr] at h
      · simp only [pure, Except.pure] at h
        injection h with h; subst h; exact hdir

/-- **the event clause on the input**: an event written "out" with a formal written "out", or with a written reply
    type other than `void`, never parses -/
theorem bad_event_refused (j : JVal) (hb : Spec.jBadEvent j = true) : ∀ e, parseEvent j ≠ .ok e := by
  intro e h
  obtain ⟨o, d, s, hj, hsig, hps, hdir, hpd⟩ := parseEvent_ok h
  subst hj
  simp only [Spec.jBadEvent, Bool.and_eq_true, Bool.or_eq_true] at hb
  obtain ⟨hb1, hb2⟩ := hb
  -- the event's direction
  simp only [Spec.jDirIsOut, hdir] at hb1
  have hs : s = L "out" := by simpa [JVal.eqStr] using hb1
  subst hs
  have hed : e.dir = .out := by
    simp [parseEventDirection] at hpd
    exact hpd.symm
  obtain ⟨sg, d', d0, hd, hfm, hpf, htn, hpt⟩ := parseSignature_ok hps
  subst hd
  rcases hb2 with hb2 | hb2
  · -- the offending formal
    obtain ⟨fm, l, hd', hel, hmap⟩ := parseFormals_ok hpf
    subst hd'
    simp only [Spec.jFormalsOf, hsig, hfm, hel, List.any_eq_true] at hb2
    obtain ⟨a, ha, hout⟩ := hb2
    obtain ⟨f, hf, hpa⟩ := mapM_ok_fwd _ _ _ hmap a ha
    have := parseFormal_dir_out a f hpa hout
    exact (parse_event_out_ok _ e h hed).2 f hf this
  · -- the reply type
    have hvoid := (parse_event_out_ok _ e h hed).1
    rw [hvoid] at hpt
    obtain ⟨tn, hd0, hids⟩ := parseScopeName_single hpt
    subst hd0
    simp [Spec.jReplyNotVoid, hsig, htn, hids] at hb2

theorem parseEvents_ok {j : JVal} {es : List Event} (h : parseEvents j = .ok es) :
    ∃ o l, j = .obj o ∧ lookup (L "elements") o = some (.arr l) ∧ l.mapM parseEvent = .ok es := by
  unfold parseEvents at h
  obtain ⟨o, ho, h⟩ := bind_ok h
  obtain ⟨_, _, h⟩ := bind_ok h
  obtain ⟨l, hl, h⟩ := bind_ok h
  exact ⟨o, l, asObj_ok ho, getList_ok hl, h⟩

theorem parseInterface_ok {j : JVal} {ns : NsTree} {i : InterfaceD} (h : parseInterface j ns = .ok i) :
    ∃ o d es, j = .obj o ∧ lookup (L "events") o = some d ∧ parseEvents d = .ok es := by
  unfold parseInterface at h
  obtain ⟨o, ho, h⟩ := bind_ok h
  obtain ⟨_, _, h⟩ := bind_ok h
  obtain ⟨d0, _, h⟩ := bind_ok h
  obtain ⟨name, _, h⟩ := bind_ok h
  obtain ⟨d1, _, h⟩ := bind_ok h
  obtain ⟨types, _, h⟩ := bind_ok h
  obtain ⟨d, hd, h⟩ := bind_ok h
  obtain ⟨es, hes, h⟩ := bind_ok h
  exact ⟨o, d, es, asObj_ok ho, getDict_ok hd, hes⟩

/-- an interface that lists such an event never parses -/
theorem bad_interface_refused (kvs : Obj) (ns : NsTree)
    (hb : (Spec.jEventsOf kvs).any Spec.jBadEvent = true) : ∀ i, parseInterface (.obj kvs) ns ≠ .ok i := by
  intro i h
  obtain ⟨o, d, es, hj, hev, hpe⟩ := parseInterface_ok h
  injection hj with hj; subst hj
  obtain ⟨ev, l, hd, hel, hmap⟩ := parseEvents_ok hpe
  subst hd
  simp only [Spec.jEventsOf, hev, hel, List.any_eq_true] at hb
  obtain ⟨a, ha, hbad⟩ := hb
  obtain ⟨e, _, hpa⟩ := mapM_ok_fwd _ _ _ hmap a ha
  exact bad_event_refused a hbad e hpa

theorem parseSimple_interface_refused (kvs : Obj) (cls : JVal) (ns : NsTree) (fc : FC)
    (hc : cls.eqStr (L "interface") = true)
    (hb : (Spec.jEventsOf kvs).any Spec.jBadEvent = true) :
    (parseSimple cls (.obj kvs) ns fc).2 ≠ none := by
  have hcls := eqStr_eq hc
  subst hcls
  have hi : ∃ e, parseInterface (.obj kvs) ns = .error e := by
    cases hp : parseInterface (.obj kvs) ns with
    | ok i => exact absurd hp (bad_interface_refused kvs ns hb i)
    | error e => exact ⟨e, rfl⟩
  obtain ⟨e, he⟩ := hi
  simp [parseSimple, JVal.eqStr, he, addTo]

theorem lookupW_val {k : Str} {kvs : Obj} {x : { v : JVal // sizeOf v < sizeOf kvs }}
    (h : lookupW k kvs = some x) : lookup k kvs = some x.val := by
  unfold lookupW at h
  split at h
  · cases h
  · rename_i v hv; injection h with h; subst h; exact hv

theorem parseNamespaceHead_elems {kvs : Obj} {name : Ids} {l : List JVal} {hl}
    (h : parseNamespaceHead kvs = .ok (name, ⟨l, hl⟩)) : lookup (L "elements") kvs = some (.arr l) := by
  unfold parseNamespaceHead at h
  obtain ⟨_, _, h⟩ := bind_ok h
  obtain ⟨d, _, h⟩ := bind_ok h
  obtain ⟨nm, _, h⟩ := bind_ok h
  cases hw : lookupW (L "elements") kvs with
  | none => simp [hw, jerr] at h
  | some x =>
    obtain ⟨v, hv⟩ := x
    have hlk := lookupW_val hw
    cases v <;> simp [hw, jerr, pure, Except.pure] at h
    obtain ⟨_, h2⟩ := h
    subst h2
    exact hlk

theorem bad_element_refused (inner : List JVal → Bool)
    (ih : ∀ l ns fc, inner l = true → (parseElements l ns fc).2 ≠ none)
    (j : JVal) (ns : NsTree) (fc : FC) (hb : Spec.jBadElem inner j = true) :
    (parseElement j ns fc).2 ≠ none := by
  cases j with
  | obj kvs =>
    simp only [Spec.jBadElem] at hb
    cases hc : lookup (L "<class>") kvs with
    | none => simp [hc] at hb
    | some cls =>
      simp only [hc] at hb
      rw [parseElement]
      simp only [hc]
      by_cases hn : cls.eqStr (L "namespace") = true
      · simp only [hn, if_true] at hb ⊢
        cases hh : parseNamespaceHead kvs with
        | error e => simp
        | ok p =>
          obtain ⟨name, ⟨elems, hlt⟩⟩ := p
          have hel := parseNamespaceHead_elems hh
          simp only [hel] at hb
          exact ih elems _ fc hb
      · simp only [hn] at hb ⊢
        by_cases hi : cls.eqStr (L "interface") = true
        · simp only [hi, if_true] at hb
          exact parseSimple_interface_refused kvs cls ns fc hi hb
        · simp [hi] at hb
  | _ => simp [Spec.jBadElem] at hb

theorem bad_elems_refused : ∀ (n : Nat) (l : List JVal) (ns : NsTree) (fc : FC),
    Spec.jBadElems n l = true → (parseElements l ns fc).2 ≠ none
  | 0, l, ns, fc, h => by simp [Spec.jBadElems] at h
  | n + 1, l, ns, fc, h => by
    induction l generalizing fc with
    | nil => simp [Spec.jBadElems] at h
    | cons j rest ih =>
      rw [parseElements]
      cases hp : parseElement j ns fc with
      | mk fc' oe =>
        cases oe with
        | some e => simp
        | none =>
          simp only
          simp only [Spec.jBadElems, List.any_cons, Bool.or_eq_true] at h
          rcases h with hj | hrest
          · exact absurd (by rw [hp]) (bad_element_refused _ (bad_elems_refused n) j ns fc hj)
          · exact ih fc' (by simpa [Spec.jBadElems] using hrest)

theorem parseRoot_elems {j : JVal} {elems : List JVal} (h : parseRoot j = .ok elems) :
    ∃ o, j = .obj o ∧ lookup (L "elements") o = some (.arr elems) := by
  unfold parseRoot at h
  obtain ⟨o, ho, h⟩ := bind_ok h
  obtain ⟨_, _, h⟩ := bind_ok h
  obtain ⟨_, _, h⟩ := bind_ok h
  obtain ⟨l, hl, h⟩ := bind_ok h
  obtain ⟨_, _, h⟩ := bind_ok h
  simp only [pure, Except.pure] at h
  injection h with h; subst h
  exact ⟨o, asObj_ok ho, getList_ok hl⟩

/-- **C15 on the input document**: a document in which an interface (at the root or inside namespaces nested at
    most `fuel` deep) lists an out event with an `out` parameter is never parsed successfully -/
theorem bad_document_refused (fuel : Nat) (ast : JVal) (h : Spec.jBadDoc fuel ast = true) :
    ∃ e, parse ast = .error e := by
  unfold parse processFrom
  cases hr : parseRoot ast with
  | error e => exact ⟨e, by simp⟩
  | ok elems =>
    obtain ⟨o, hj, hel⟩ := parseRoot_elems hr
    subst hj
    simp only [Spec.jBadDoc, hel] at h
    have := bad_elems_refused fuel elems {} {} h
    cases hp : parseElements elems {} {} with
    | mk fc oe =>
      cases oe with
      | none => rw [hp] at this; exact absurd rfl this
      | some e => exact ⟨e, by simp [hp]⟩

/-- the hypothesis is satisfiable: a one-interface document with `out void E(out T a)` -/
example : Spec.jBadDoc 1 (.obj [(L "<class>", .str (L "root")), (L "elements", .arr [
    .obj [(L "<class>", .str (L "interface")), (L "events", .obj [(L "elements", .arr [
      .obj [(L "direction", .str (L "out")), (L "signature", .obj [(L "formals", .obj [(L "elements", .arr [
        .obj [(L "direction", .str (L "out"))]])])])]])])]])]) = true := by decide

/-- … and one with `out bool E()` -/
example : Spec.jBadDoc 1 (.obj [(L "<class>", .str (L "root")), (L "elements", .arr [
    .obj [(L "<class>", .str (L "interface")), (L "events", .obj [(L "elements", .arr [
      .obj [(L "direction", .str (L "out")), (L "signature", .obj [(L "type_name", .obj [(L "ids", .arr [
        .str (L "bool")])])])]])])]])]) = true := by decide

/-! ### fuel: looking deeper never finds less (the monitor's fuel covers every shallower nesting) -/

theorem jBadElem_mono (f g : List JVal → Bool) (h : ∀ l, f l = true → g l = true) (j : JVal)
    (hb : Spec.jBadElem f j = true) : Spec.jBadElem g j = true := by
  cases j with
  | obj kvs =>
    simp only [Spec.jBadElem] at hb ⊢
    cases hc : lookup (L "<class>") kvs with
    | none => simp [hc] at hb
    | some cls =>
      simp only [hc] at hb ⊢
      by_cases hn : cls.eqStr (L "namespace") = true
      · simp only [hn, if_true] at hb ⊢
        cases he : lookup (L "elements") kvs with
        | none => simp [he] at hb
        | some v =>
          cases v <;> simp [he] at hb ⊢
          exact h _ hb
      · simp only [hn] at hb ⊢
        exact hb
  | _ => simp [Spec.jBadElem] at hb

/-- more fuel never finds less: what is found looking `n` namespaces deep is found looking deeper -/
theorem jBadElems_mono : ∀ (n : Nat) (l : List JVal), Spec.jBadElems n l = true → Spec.jBadElems (n + 1) l = true
  | 0, l, h => by simp [Spec.jBadElems] at h
  | n + 1, l, h => by
    simp only [Spec.jBadElems, List.any_eq_true] at h ⊢
    obtain ⟨j, hj, hb⟩ := h
    exact ⟨j, hj, jBadElem_mono _ _ (fun l' h' => jBadElems_mono n l' h') j hb⟩

theorem jBadElems_le (n m : Nat) (h : n ≤ m) (l : List JVal) (hb : Spec.jBadElems n l = true) :
    Spec.jBadElems m l = true := by
  induction h with
  | refl => exact hb
  | step _ ih => exact jBadElems_mono _ l ih

end C15
