/-
  C01 — The shell forwards every port event to its counterpart exactly once, intact.
  Theorems over the wiring semantics (DznModel.Sem) and the generator of the wiring IR
  (DznModel.Shell).  The trace-level tie to the compiled C++ is the check's correspondence run.
-/
import DznModel
import DznProofs.Lemmas.Sem
open Py Scoping Ast PortSel Shell Sem Lem

namespace C01

/-! ### the store after executing assignments -/

def setAll (w : World) (l : List (RSlot × RH)) : World := l.foldl (fun w kv => w.set kv.1 kv.2) w

/-- executing assignments with pairwise distinct left-hand slots yields a store that maps each
    slot to its own right-hand side and leaves every other slot as it was: no event of an exposed
    port is left unrouted, routed twice, or routed to a different port or event -/
theorem store_after_assigns (w : World) (l : List (RSlot × RH)) (hnd : (l.map (·.1)).Nodup) :
    (∀ kv ∈ l, (setAll w l).get kv.1 = some kv.2) ∧
    (∀ s, s ∉ l.map (·.1) → (setAll w l).get s = w.get s) := by
  induction l generalizing w with
  | nil => exact ⟨fun _ h => (by cases h), fun _ _ => rfl⟩
  | cons kv r ih =>
    simp only [List.map_cons, List.nodup_cons] at hnd
    obtain ⟨ih1, ih2⟩ := ih (w.set kv.1 kv.2) hnd.2
    constructor
    · intro x hx
      rcases List.mem_cons.mp hx with rfl | hx
      · show (setAll (w.set x.1 x.2) r).get x.1 = _
        rw [ih2 x.1 hnd.1, get_set_same]
      · exact ih1 x hx
    · intro s hs
      simp only [List.map_cons, List.mem_cons, not_or] at hs
      show (setAll (w.set kv.1 kv.2) r).get s = _
      rw [ih2 s hs.2, get_set_other _ _ _ _ hs.1]

/-! ### what one stimulus does -/

/-- the single observation line a scripted handler prints -/
def obsLine (who : Who) (port : Str) (ev : Event) (args : List Val) (disp : Bool) : Str :=
  L "obs " ++ who.str ++ L " " ++ port ++ L "." ++ ev.name ++ L " args=" ++ valsStr args ++
  L " disp=" ++ (if disp then L "1" else L "0")

theorem scriptedRun_out (w : World) (who : Who) (port : Str) (ev : Event) (args : List Val) :
    (scriptedRun w who port ev args).1.out = obsLine who port ev args w.inDispatch :: w.out := rfl

theorem drain_empty (n : Nat) (w : World) (h : w.queue = []) : drain (n + 1) w = (w, none) := by
  simp [drain, h]

/-- **environment → component, multi-threaded provides port**: a client's call of an in-event on
    the boundary port is executed by the wrapped component's same-named event of the same-named
    port exactly once (one observation line, arguments intact, in declared order); the scripted
    reply and the component's out/inout values come back to the caller; nothing else changes.
    (That the observation carries `disp=1` is the dispatcher-context clause of C02.) -/
theorem env_to_comp_mts_provides (w : World) (n : Nat) (mv p : Str) (ev : Event) (ps : List LParam)
    (byVal : List Str) (args : List Val)
    (hq : w.queue = [])
    (hb : w.get ⟨.bnd mv, .in_, ev.name⟩ =
          some (.ir (.shell ⟨.enc p, .in_, ev.name⟩ ps (ps.map (·.name)) byVal) ev [] []))
    (hc : w.get ⟨.enc p, .in_, ev.name⟩ = some (.scripted .comp p ev))
    (hlen : ps.length = args.length) (hnd : (ps.map (·.name)).Nodup) :
    invoke (n + 3) w ⟨.bnd mv, .in_, ev.name⟩ args =
      ({ w with shellCalls := w.shellCalls + 1, pumpTouched := true, executed := w.executed + 1,
                out := obsLine .comp p ev args true :: w.out },
       .ok (if isVoid ev then none else some (w.reply true p ev.name))
           (writeBack ps args (ps.map (·.name)) (rewritten ev args))) := by
  rw [invoke]
  simp only [hb]
  have hd : drain (n + 2) { w with shellCalls := w.shellCalls + 1, pumpTouched := true } =
      ({ w with shellCalls := w.shellCalls + 1, pumpTouched := true }, none) := drain_empty _ _ hq
  simp only [hd, evalArgs_self ps args hlen hnd]
  rw [invoke]
  have hc' : World.get { w with shellCalls := w.shellCalls + 1, pumpTouched := true, inDispatch := true }
      ⟨.enc p, .in_, ev.name⟩ = some (.scripted .comp p ev) := hc
  simp only [resolveSlot, resolveObj, hc']
  by_cases hv : isVoid ev = true <;>
    simp [scriptedRun, hv, World.reply, World.emit, obsLine, rewritten]

/-- **single-threaded port**: the accessor hands out the component's own port, so the call *is*
    the component's event: once, intact, no dispatcher involved -/
theorem env_to_comp_sts (w : World) (n : Nat) (p : Str) (ev : Event) (d : EvDir) (args : List Val)
    (hc : w.get ⟨.enc p, d, ev.name⟩ = some (.scripted .comp p ev)) :
    invoke (n + 1) w ⟨.enc p, d, ev.name⟩ args =
      ((scriptedRun w .comp p ev args).1, .ok (scriptedRun w .comp p ev args).2.1 (scriptedRun w .comp p ev args).2.2) := by
  rw [invoke]; simp [hc]

/-- **component → environment, multi-threaded provides port**: an out-event raised by the component
    reaches the environment's handler bound on the boundary port exactly once, intact -/
theorem comp_to_env_mts_provides (w : World) (n : Nat) (mv p : Str) (ev : Event) (args : List Val)
    (he : w.get ⟨.enc p, .out, ev.name⟩ = some (.ir (.ref ⟨.bnd mv, .out, ev.name⟩) ev [] []))
    (hb : w.get ⟨.bnd mv, .out, ev.name⟩ = some (.scripted .env p ev)) :
    invoke (n + 2) w ⟨.enc p, .out, ev.name⟩ args =
      ((scriptedRun w .env p ev args).1, .ok (scriptedRun w .env p ev args).2.1 (scriptedRun w .env p ev args).2.2) := by
  rw [invoke]; simp only [he]
  rw [invoke]; simp [resolveSlot, resolveObj, hb]

/-- **environment → component, multi-threaded requires port**: the out-event a peer raises on the
    boundary port is queued — nothing is observed and the call returns — and when the dispatcher
    runs it arrives at the component's same-named event exactly once, with the values it had at call
    time -/
theorem requires_out_posted_then_delivered (w : World) (n : Nat) (mv p : Str) (ev : Event)
    (ps : List LParam) (args : List Val)
    (hq : w.queue = [])
    (hb : w.get ⟨.bnd mv, .out, ev.name⟩ =
          some (.ir (.post ⟨.enc p, .out, ev.name⟩ ps (ps.map (·.name)) (ps.map (·.name))) ev [] []))
    (hc : w.get ⟨.enc p, .out, ev.name⟩ = some (.scripted .comp p ev))
    (hlen : ps.length = args.length) (hnd : (ps.map (·.name)).Nodup) :
    let w1 : World := { w with posted := w.posted + 1, pumpTouched := true,
                               queue := [{ callee := ⟨.enc p, .out, ev.name⟩, args := args, dangling := false }] }
    invoke (n + 1) w ⟨.bnd mv, .out, ev.name⟩ args = (w1, .ok none args) ∧
    drain (n + 3) w1 =
      ({ w with posted := w.posted + 1, pumpTouched := true, queue := [], executed := w.executed + 1,
                out := obsLine .comp p ev args true :: w.out }, none) := by
  have hdang : ((ps.map (·.name)).any fun a => !(ps.map (·.name)).contains a) = false := by
    simp only [List.any_eq_false]
    intro a ha; simpa using ha
  constructor
  · rw [invoke]
    simp only [hb, evalArgs_self ps args hlen hnd, hdang, hq, resolveSlot, resolveObj, List.nil_append]
  · rw [drain]
    simp only [Bool.false_eq_true, if_false]
    rw [invoke]
    have hc' : World.get { w with posted := w.posted + 1, pumpTouched := true, queue := [], inDispatch := true }
        ⟨.enc p, .out, ev.name⟩ = some (.scripted .comp p ev) := hc
    simp only [hc']
    rw [drain_empty _ _ rfl]
    simp [scriptedRun, World.emit, obsLine]

/-! ### the generator emits the arguments in declared order -/

theorem mapM_ok_map {α β γ} (f : α → R β) (g : β → γ) (h : α → γ)
    (hf : ∀ a b, f a = .ok b → g b = h a) (l : List α) (r : List β) (hr : l.mapM f = .ok r) :
    r.map g = l.map h := by
  induction l generalizing r with
  | nil => simp [List.mapM_nil, pure, Except.pure] at hr; subst hr; rfl
  | cons a t ih =>
    rw [List.mapM_cons] at hr
    simp only [bind, Except.bind, pure, Except.pure] at hr
    split at hr
    · cases hr
    · rename_i b hb
      split at hr
      · cases hr
      · rename_i bs hbs
        injection hr with hr; subst hr
        simp [hf a b hb, ih bs hbs]

/-- the lambda parameters carry the formals' names, in declared order -/
theorem lambdaParams_names (fc : FC) (itf : InterfaceD) (ev : Event) (refs : Bool) (ps : List LParam)
    (h : lambdaParamsOf fc itf ev refs = .ok ps) : ps.map (·.name) = ev.formals.map (·.name) := by
  unfold lambdaParamsOf at h
  apply mapM_ok_map _ _ _ _ _ _ h
  intro f b hb
  simp only [bind, Except.bind, pure, Except.pure] at hb
  split at hb
  · cases hb
  · injection hb with hb; subst hb; rfl

/-- **arguments in declared order**: every rerouting lambda the generator emits for an in-event
    calls the component's same-named event of the same port with its own parameters, in the
    order of the event's formals -/
theorem mapM_mem {α β} (f : α → R β) (l : List α) (r : List β) (h : l.mapM f = .ok r) :
    ∀ b ∈ r, ∃ a ∈ l, f a = .ok b := by
  induction l generalizing r with
  | nil => simp [List.mapM_nil, pure, Except.pure] at h; subst h; simp
  | cons a t ih =>
    rw [List.mapM_cons] at h
    simp only [bind, Except.bind, pure, Except.pure] at h
    split at h
    · cases h
    · rename_i b hb
      split at h
      · cases h
      · rename_i bs hbs
        injection h with h; subst h
        intro x hx
        rcases List.mem_cons.mp hx with rfl | hx
        · exact ⟨a, by simp, hb⟩
        · obtain ⟨a', ha', hf⟩ := ih bs hbs x hx
          exact ⟨a', by simp [ha'], hf⟩

/-- **arguments in declared order**: every rerouting lambda the generator emits for an in-event
    calls the component's same-named event of the same port with its own parameters, in the
    order of the event's formals -/
theorem args_declared_order (fc : FC) (p : CppPortItf) (as : List Assign)
    (h : rerouteInEvents fc p = .ok as) :
    ∀ a ∈ as, ∃ ev ∈ inEvents p.dzn.itf, ∃ ps byVal,
      a.lhs.dir = .in_ ∧ a.lhs.ev = ev.name ∧
      a.rhs = .shell ⟨.enc p.name, .in_, ev.name⟩ ps (ps.map (·.name)) byVal ∧
      ps.map (·.name) = ev.formals.map (·.name) := by
  unfold rerouteInEvents at h
  intro a ha
  obtain ⟨ev, hev, hf⟩ := mapM_mem _ _ _ h a ha
  simp only [bind, Except.bind, pure, Except.pure] at hf
  split at hf
  · cases hf
  · rename_i ps hps
    injection hf with hf; subst hf
    have hn := lambdaParams_names fc p.dzn.itf ev true ps hps
    exact ⟨ev, hev, ps, inFormalNames ev, rfl, rfl, by simp [formalNames, hn], hn⟩

end C01
