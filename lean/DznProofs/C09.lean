/-
  C09 — Facility ownership follows the configured origin.

  The semantics (`Sem.construct`) reads what the constructor does about the facilities from the
  member-initialiser list of the wiring IR (`Sem.milFacts`); the generator side
  (`createConstructor_mil`) says which initialisers `create_constructor` emits for each origin; the
  two meet in the `build_*` theorems: for every model and configuration `Builder.build` accepts.
-/
import DznModel
import DznProofs.C01Gen
open Py Text Scoping Ast AstView PortSel Shell Sem CppGen Support

namespace C09

/-! ### what the generated member-initialiser list is -/

def milCreate : List Str :=
  [L "m_locator(std::move(FacilitiesCheck(prototypeLocator).clone().set(m_runtime).set(m_dispatcher)))",
   L "m_encapsulee(m_locator)"]
def milImport : List Str :=
  [L "m_dispatcher(FacilitiesCheck(locator).get<dzn::pump>())", L "m_encapsulee(locator)"]

def mvName (p : CppPortItf) : Str := (p.memberVar.map (·.name)).getD []

/-- the initialiser of a multi-threaded provides port -/
def provInit (p : CppPortItf) : Str :=
  if p.isMc then
    mvName p ++ L "(multiclientLog, \"" ++ p.name ++ L "\", [this](const auto& identifier) { return InitializePort" ++
      p.capName ++ L "(identifier); })"
  else mvName p ++ L "(m_encapsulee." ++ p.name ++ L ")"

/-- the initialiser of a multi-threaded requires port -/
def reqInit (p : CppPortItf) : Str := mvName p ++ L "(m_encapsulee." ++ p.name ++ L ")"

def facMil : Origin → List Str | .create => milCreate | .import_ => milImport

/-- the initialisers `create_constructor` emits: the facility part fixed by the origin, then one
    initialiser per multi-threaded port -/
theorem createConstructor_mil (fc : FC) (sn : Str) (fac : Facilities) (pp rp : List CppPortItf) (sfns : Ids)
    (ctor : Constructor) (assigns : List Assign)
    (h : createConstructor fc sn fac pp rp sfns = .ok (ctor, assigns)) :
    ctor.mil = facMil fac.origin ++ (mtsPorts pp).map provInit ++ (mtsPorts rp).map reqInit := by
  unfold createConstructor at h
  dsimp only at h
  cases hfo : fac.origin <;> simp only [hfo] at h
  all_goals
    simp only [bind, Except.bind, pure, Except.pure] at h
    split at h
    · cases h
    split at h
    · cases h
    split at h
    · cases h
    split at h
    · cases h
    injection h with h
    injection h with h _
    subst h
    rfl


/-! ### what the semantics reads from that list -/

/-- starts like a port initialiser (`m_p…`, `m_r…`) or like the initialiser of a port without
    boundary member (`(`): none of the four facility initialisers does -/
def portLike : Str → Bool
  | 'm' :: '_' :: 'p' :: _ => true
  | 'm' :: '_' :: 'r' :: _ => true
  | '(' :: _ => true
  | _ => false

/-- the boundary member of a port is `m_pp…`, `m_rp…` or absent (what `create_cpp_portitf` produces) -/
def MvShape (p : CppPortItf) : Prop := mvName p = [] ∨ ∃ r, mvName p = L "m_pp" ++ r ∨ mvName p = L "m_rp" ++ r

theorem provInit_portLike (p : CppPortItf) (h : MvShape p) : portLike (provInit p) = true := by
  unfold provInit
  rcases h with h | ⟨r, h | h⟩ <;> split <;> simp [h, portLike]

theorem reqInit_portLike (p : CppPortItf) (h : MvShape p) : portLike (reqInit p) = true := by
  unfold reqInit
  rcases h with h | ⟨r, h | h⟩ <;> simp [h, portLike]

theorem any_eq_false_of_portLike (l : List Str) (x : Str) (hx : portLike x = false) (hl : ∀ m ∈ l, portLike m = true) :
    l.any (fun m => decide (m = x)) = false := by
  simp only [List.any_eq_false, decide_eq_true_eq]
  intro m hm e
  have := hl m hm
  rw [e, hx] at this; cases this

def factsCreate : MilFacts := { checks := true, cloneSet := true, encOwn := true, encProto := false, dispFromLocator := false }
def factsImport : MilFacts := { checks := true, cloneSet := false, encOwn := false, encProto := true, dispFromLocator := true }

theorem milFacts_of_mil (ir : ShellIR) (o : Origin) (rest : List Str) (hm : ir.mil = facMil o ++ rest)
    (hr : ∀ m ∈ rest, portLike m = true) :
    milFacts ir = (if o = .create then factsCreate else factsImport) := by
  have hno : ∀ x, portLike x = false → rest.any (fun m => decide (m = x)) = false :=
    fun x hx => any_eq_false_of_portLike rest x hx hr
  unfold milFacts
  simp only [hm]
  cases o
  · -- import
    simp only [facMil, milImport, List.any_append, List.any_cons, List.any_nil, Bool.or_false]
    rw [hno _ (by decide), hno _ (by decide), hno _ (by decide), hno _ (by decide)]
    simp only [factsImport, Bool.or_false]
    have h1 : containsSub (L "FacilitiesCheck(") (L "m_dispatcher(FacilitiesCheck(locator).get<dzn::pump>())") = true := by decide
    simp [h1]
  · -- create
    simp only [facMil, milCreate, List.any_append, List.any_cons, List.any_nil, Bool.or_false]
    rw [hno _ (by decide), hno _ (by decide), hno _ (by decide), hno _ (by decide)]
    simp only [factsCreate, Bool.or_false]
    have h1 : containsSub (L "FacilitiesCheck(")
        (L "m_locator(std::move(FacilitiesCheck(prototypeLocator).clone().set(m_runtime).set(m_dispatcher)))") = true := by decide
    simp [h1]


/-! ### the constructed shell, for any wiring IR with such a list -/

theorem runAssigns_fac (w : World) (as : List Assign) (a b : Str) (c : Option InterfaceD) :
    (runAssigns w as a b c).fac = w.fac := by
  unfold runAssigns
  induction as generalizing w with
  | nil => rfl
  | cons x r ih => simp only [List.foldl_cons]; rw [ih]; split <;> rfl

theorem compBind_fac (w : World) (s : Option (Str × EvDir × Str)) : (compBind w s).fac = w.fac := by
  unfold compBind
  generalize w.allPorts = l
  induction l generalizing w with
  | nil => rfl
  | cons pi r ih =>
    simp only [List.foldl_cons]
    rw [ih]
    obtain ⟨p, itf⟩ := pi
    generalize itf.events = es
    induction es generalizing w with
    | nil => rfl
    | cons e t iht =>
      simp only [List.foldl_cons]; rw [iht]
      split
      · split <;> rfl
      · split <;> rfl

theorem construct_fac (ir : ShellIR) (ap gi pump runtime skip name extra) (w : World)
    (h : construct ir ap gi pump runtime skip name extra = .ok w) : w.fac = facInfo ir pump runtime extra := by
  unfold construct at h
  split at h
  · cases h
  · injection h with h; subst h
    rw [runAssigns_fac]
    exact compBind_fac _ _

/-- **create**: construction succeeds iff the user's prototype locator carries neither a dispatcher
    nor a runtime -/
theorem create_succeeds_iff_no_facilities (ir : ShellIR) (ap gi) (pump runtime : Bool) (skip name extra)
    (ho : ir.origin = .create) (hf : milFacts ir = factsCreate) :
    (∃ w, construct ir ap gi pump runtime skip name extra = .ok w) ↔ (pump = false ∧ runtime = false) := by
  unfold construct ctorCheck facilitiesCheck
  rw [ho, hf]
  cases pump <;> cases runtime <;> simp [factsCreate]

/-- **import**: construction succeeds iff the user's locator carries both -/
theorem import_succeeds_iff_both_facilities (ir : ShellIR) (ap gi) (pump runtime : Bool) (skip name extra)
    (ho : ir.origin = .import_) (hf : milFacts ir = factsImport) :
    (∃ w, construct ir ap gi pump runtime skip name extra = .ok w) ↔ (pump = true ∧ runtime = true) := by
  unfold construct ctorCheck facilitiesCheck
  rw [ho, hf]
  cases pump <;> cases runtime <;> simp [factsImport]

/-- with `create`, the component gets a locator that is *not* the user's object and holds the
    shell's own dispatcher and runtime plus everything of the prototype, which is left unmodified;
    the shell posts to its own dispatcher and offers the locator accessor -/
theorem create_owns_fresh_facilities (ir : ShellIR) (ap gi skip name) (pump runtime extra : Bool) (w : World)
    (ho : ir.origin = .create) (hf : milFacts ir = factsCreate)
    (h : construct ir ap gi pump runtime skip name extra = .ok w) :
    w.fac.compLocatorIsProto = false ∧ w.fac.compPump = .own ∧ w.fac.compRuntime = .own ∧
    w.fac.compExtra = extra ∧ w.fac.dispatcher = .own ∧ w.fac.hasLocatorAccessor = true ∧
    w.fac.protoKeysAfter = w.fac.protoKeysBefore := by
  rw [construct_fac ir ap gi pump runtime skip name extra w h]
  simp [facInfo, hf, factsCreate, ho]

/-- with `import`, the shell uses the very dispatcher found in the user's locator, hands that
    locator itself to the component and offers no locator accessor -/
theorem import_uses_user_facilities (ir : ShellIR) (ap gi skip name) (extra : Bool) (w : World)
    (ho : ir.origin = .import_) (hf : milFacts ir = factsImport)
    (h : construct ir ap gi true true skip name extra = .ok w) :
    w.fac.compLocatorIsProto = true ∧ w.fac.compPump = .proto ∧ w.fac.compRuntime = .proto ∧
    w.fac.dispatcher = .proto ∧ w.fac.hasLocatorAccessor = false ∧
    w.fac.protoKeysAfter = w.fac.protoKeysBefore := by
  rw [construct_fac ir ap gi true true skip name extra w h]
  simp [facInfo, hf, factsImport, ho]

/-- a failing check fails the construction before the component exists (no world at all) -/
theorem failure_before_component (ir : ShellIR) (ap gi pump runtime skip name extra) (e : Exc)
    (h : ctorCheck ir pump runtime = some e) :
    construct ir ap gi pump runtime skip name extra = .error e := by
  unfold construct; rw [h]

/-- **a constructor that never calls `FacilitiesCheck` never fails** — whatever the locator holds:
    the check has to be in the member-initialiser list (this is what a generator that drops the
    initialiser breaks) -/
theorem no_check_no_failure (ir : ShellIR) (ap gi pump runtime skip name extra)
    (h : (milFacts ir).checks = false) : ∃ w, construct ir ap gi pump runtime skip name extra = .ok w := by
  unfold construct ctorCheck; rw [h]; exact ⟨_, rfl⟩

/-- generator side: the `Locator()` accessor, the own runtime member and the `dzn/runtime.hh`
    include exist exactly for `create`; the dispatcher member is a reference exactly for `import` -/
theorem locator_accessor_iff_create (o : Origin) (s : Str) :
    ((createFacilities o s).locatorAccessor.isSome ↔ o = .create) ∧
    ((createFacilities o s).runtime.isSome ↔ o = .create) ∧
    ((createFacilities o s).dispatcher.ty.pfix = .ref ↔ o = .import_) := by
  cases o <;> simp [createFacilities]

/-! ### at the level of `Builder.build` -/

theorem createCppPortItf_mv (d : DznPortItf) (sn : Str) (sfns : Ids) (p : CppPortItf)
    (h : createCppPortItf d sn sfns = .ok p) : MvShape p := by
  unfold createCppPortItf at h
  simp only [bind, Except.bind, pure, Except.pure] at h
  split at h
  · cases h
  · rename_i cap _
    split at h <;> (injection h with h; subst h)
    · left; rfl
    · right
      by_cases hd : d.port.dir = .provides
      · exact ⟨cap, Or.inl (by simp [mvName, hd])⟩
      · exact ⟨cap, Or.inr (by simp [mvName, hd])⟩
    · right; exact ⟨cap, Or.inl (by simp [mvName])⟩

theorem createFacilities_origin (o : Origin) (s : Str) : (createFacilities o s).origin = o := by
  cases o <;> rfl

/-- the member-initialiser list of the shell `Builder.build` generates, and what the semantics reads from it -/
theorem build_milFacts (fc : FC) (cfg : Config) (b : BuildResult) (h : build fc cfg = .ok b) :
    b.ir.origin = cfg.origin ∧
    milFacts b.ir = (if cfg.origin = .create then factsCreate else factsImport) := by
  unfold build at h
  simp only [bind, Except.bind, pure, Except.pure] at h
  split at h
  · cases h
  rename_i s hs
  injection h with h
  subst h
  simp only
  -- open buildShell
  unfold buildShell at hs
  simp only [bind, Except.bind, pure, Except.pure] at hs
  split at hs
  · cases hs
  split at hs
  · cases hs
  split at hs
  · cases hs
  split at hs
  · cases hs
  split at hs
  · cases hs
  rename_i pp hpp
  split at hs
  · cases hs
  rename_i rp hrp
  split at hs
  · cases hs
  split at hs
  · cases hs
  rename_i ca hca
  injection hs with hs
  subst hs
  obtain ⟨ctor, assigns⟩ := ca
  refine ⟨rfl, ?_⟩
  have hmil := createConstructor_mil fc _ _ pp rp _ ctor assigns hca
  rw [createFacilities_origin] at hmil
  have hshape : ∀ m ∈ (mtsPorts pp).map provInit ++ (mtsPorts rp).map reqInit, portLike m = true := by
    intro m hm
    simp only [List.mem_append, List.mem_map] at hm
    rcases hm with ⟨p, hp, rfl⟩ | ⟨p, hp, rfl⟩
    · obtain ⟨d, _, hcp⟩ := C01.mapM_mem _ _ _ hpp p (List.mem_filter.mp hp).1
      exact provInit_portLike p (createCppPortItf_mv d _ _ p hcp)
    · obtain ⟨d, _, hcp⟩ := C01.mapM_mem _ _ _ hrp p (List.mem_filter.mp hp).1
      exact reqInit_portLike p (createCppPortItf_mv d _ _ p hcp)
  exact milFacts_of_mil _ cfg.origin _ (by simp only; rw [hmil, List.append_assoc]) hshape

/-- **C09 at the level of `Builder.build`, create**: for every model and configuration the builder
    accepts with `facilities_origin = CREATE`, constructing the shell succeeds iff the user's
    prototype locator carries neither dispatcher nor runtime; then the component's locator is the
    shell's own (not the user's object) and holds the shell's own dispatcher and runtime plus the
    user's other entries, the prototype is unmodified, the shell posts to its own dispatcher and
    offers `Locator()` -/
theorem build_create (fc : FC) (cfg : Config) (b : BuildResult) (h : build fc cfg = .ok b) (ho : cfg.origin = .create)
    (pump runtime extra : Bool) (name : Str) :
    ((∃ w, construct b.ir b.allPorts b.grantIndex pump runtime none name extra = .ok w) ↔ (pump = false ∧ runtime = false)) ∧
    (∀ w, construct b.ir b.allPorts b.grantIndex pump runtime none name extra = .ok w →
      w.fac.compLocatorIsProto = false ∧ w.fac.compPump = .own ∧ w.fac.compRuntime = .own ∧
      w.fac.compExtra = extra ∧ w.fac.dispatcher = .own ∧ w.fac.hasLocatorAccessor = true ∧
      w.fac.protoKeysAfter = w.fac.protoKeysBefore) := by
  obtain ⟨h1, h2⟩ := build_milFacts fc cfg b h
  rw [ho] at h1
  simp only [ho, if_true] at h2
  exact ⟨create_succeeds_iff_no_facilities b.ir _ _ pump runtime none name extra h1 h2,
    fun w hw => create_owns_fresh_facilities b.ir _ _ none name pump runtime extra w h1 h2 hw⟩

/-- **C09 at the level of `Builder.build`, import**: construction succeeds iff the user's locator
    carries both dispatcher and runtime; then the shell uses that very dispatcher, hands the user's
    locator object itself to the component and offers no locator accessor -/
theorem build_import (fc : FC) (cfg : Config) (b : BuildResult) (h : build fc cfg = .ok b) (ho : cfg.origin = .import_)
    (pump runtime extra : Bool) (name : Str) :
    ((∃ w, construct b.ir b.allPorts b.grantIndex pump runtime none name extra = .ok w) ↔ (pump = true ∧ runtime = true)) ∧
    (∀ w, construct b.ir b.allPorts b.grantIndex true true none name extra = .ok w →
      w.fac.compLocatorIsProto = true ∧ w.fac.compPump = .proto ∧ w.fac.compRuntime = .proto ∧
      w.fac.dispatcher = .proto ∧ w.fac.hasLocatorAccessor = false ∧
      w.fac.protoKeysAfter = w.fac.protoKeysBefore) := by
  obtain ⟨h1, h2⟩ := build_milFacts fc cfg b h
  rw [ho] at h1
  have hne : ¬ (Origin.import_ = Origin.create) := by decide
  simp only [ho, hne, if_false] at h2
  exact ⟨import_succeeds_iff_both_facilities b.ir _ _ pump runtime none name extra h1 h2,
    fun w hw => import_uses_user_facilities b.ir _ _ none name extra w h1 h2 hw⟩

end C09
