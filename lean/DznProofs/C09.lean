/-
  C09 — Facility ownership follows the configured origin.
-/
import DznModel
open Py Scoping Ast PortSel Shell Sem CppGen

namespace C09

/-- **create**: construction succeeds iff the user's prototype locator carries neither a dispatcher
    nor a runtime -/
theorem create_succeeds_iff_no_facilities (ir : ShellIR) (ap gi) (pump runtime : Bool) (skip name extra)
    (ho : ir.origin = .create) :
    (∃ w, construct ir ap gi pump runtime skip name extra = .ok w) ↔ (pump = false ∧ runtime = false) := by
  unfold construct facilitiesCheck
  rw [ho]
  cases pump <;> cases runtime <;> simp

/-- **import**: construction succeeds iff the user's locator carries both -/
theorem import_succeeds_iff_both_facilities (ir : ShellIR) (ap gi) (pump runtime : Bool) (skip name extra)
    (ho : ir.origin = .import_) :
    (∃ w, construct ir ap gi pump runtime skip name extra = .ok w) ↔ (pump = true ∧ runtime = true) := by
  unfold construct facilitiesCheck
  rw [ho]
  cases pump <;> cases runtime <;> simp

/-- with `create`, the component gets a locator that is *not* the user's object and holds the
    shell's own dispatcher and runtime plus everything of the prototype, which is left unmodified;
    the shell posts to its own dispatcher and offers the locator accessor -/
theorem create_owns_fresh_facilities (ir : ShellIR) (ap gi skip name) (extra : Bool) (w : World)
    (ho : ir.origin = .create) (h : construct ir ap gi false false skip name extra = .ok w) :
    w.fac.compLocatorIsProto = false ∧ w.fac.compPump = .own ∧ w.fac.compRuntime = .own ∧
    w.fac.compExtra = extra ∧ w.fac.dispatcher = .own ∧ w.fac.hasLocatorAccessor = true ∧
    w.fac.protoKeysAfter = w.fac.protoKeysBefore := by
  unfold construct facilitiesCheck at h
  rw [ho] at h
  simp only [Bool.false_eq_true, if_false] at h
  injection h with h; subst h
  have : ∀ (w : World) as a b c, (runAssigns w as a b c).fac = w.fac := by
    intro w as a b c
    unfold runAssigns
    induction as generalizing w with
    | nil => rfl
    | cons x r ih => simp only [List.foldl_cons]; rw [ih]; split <;> rfl
  have hcb : ∀ (w : World) s, (compBind w s).fac = w.fac := by
    intro w s
    unfold compBind
    generalize w.allPorts = l
    induction l generalizing w with
    | nil => rfl
    | cons pi r ih =>
      simp only [List.foldl_cons]
      rw [ih]
      obtain ⟨p, itf⟩ := pi
      generalize itf.events = es
      induction es generalizing w with
      | nil => rfl
      | cons e t iht =>
        simp only [List.foldl_cons]; rw [iht]
        split
        · split <;> rfl
        · split <;> rfl
  rw [this]
  simp [hcb, facInfo, ho]

/-- with `import`, the shell uses the very dispatcher found in the user's locator, hands that
    locator itself to the component and offers no locator accessor -/
theorem import_uses_user_facilities (ir : ShellIR) (ap gi skip name) (extra : Bool) (w : World)
    (ho : ir.origin = .import_) (h : construct ir ap gi true true skip name extra = .ok w) :
    w.fac.compLocatorIsProto = true ∧ w.fac.compPump = .proto ∧ w.fac.compRuntime = .proto ∧
    w.fac.dispatcher = .proto ∧ w.fac.hasLocatorAccessor = false ∧
    w.fac.protoKeysAfter = w.fac.protoKeysBefore := by
  unfold construct facilitiesCheck at h
  rw [ho] at h
  simp only [Bool.not_true, Bool.false_eq_true, if_false] at h
  injection h with h; subst h
  have : ∀ (w : World) as a b c, (runAssigns w as a b c).fac = w.fac := by
    intro w as a b c
    unfold runAssigns
    induction as generalizing w with
    | nil => rfl
    | cons x r ih => simp only [List.foldl_cons]; rw [ih]; split <;> rfl
  have hcb : ∀ (w : World) s, (compBind w s).fac = w.fac := by
    intro w s
    unfold compBind
    generalize w.allPorts = l
    induction l generalizing w with
    | nil => rfl
    | cons pi r ih =>
      simp only [List.foldl_cons]
      rw [ih]
      obtain ⟨p, itf⟩ := pi
      generalize itf.events = es
      induction es generalizing w with
      | nil => rfl
      | cons e t iht =>
        simp only [List.foldl_cons]; rw [iht]
        split
        · split <;> rfl
        · split <;> rfl
  rw [this]
  simp [hcb, facInfo, ho]

/-- a failing construction throws from `FacilitiesCheck`, i.e. before the component (or anything
    else) exists: there is no world -/
theorem failure_before_component (ir : ShellIR) (ap gi pump runtime skip name extra) (e : Exc)
    (h : facilitiesCheck ir.origin ir.structName pump runtime = some e) :
    construct ir ap gi pump runtime skip name extra = .error e := by
  unfold construct; rw [h]

/-- generator side: the `Locator()` accessor, the own runtime member and the `dzn/runtime.hh`
    include exist exactly for `create`; the dispatcher member is a reference exactly for `import` -/
theorem locator_accessor_iff_create (o : Origin) (s : Str) :
    ((createFacilities o s).locatorAccessor.isSome ↔ o = .create) ∧
    ((createFacilities o s).runtime.isSome ↔ o = .create) ∧
    ((createFacilities o s).dispatcher.ty.pfix = .ref ↔ o = .import_) := by
  cases o <;> simp [createFacilities]

end C09
