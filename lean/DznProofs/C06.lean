/-
  C06 — Generated files form valid, self-contained C++.   (**partial**)
  No executable model can express "g++ accepts this translation unit"; the structural obligations
  the statement decomposes into are proved here on the byte-exact generator model (and on the
  translated header texts); compiler acceptance itself is sampled by the check.
-/
import DznModel
import DznProofs.Lemmas.Text
import DznProofs.C20
open Py Text Scoping Ast Shell Support CppGen Lem

namespace C06

/-- a successful build returns exactly eight files: header, source and the six support files -/
theorem eight_files (fc : FC) (cfg : Config) (r : BuildResult) (h : build fc cfg = .ok r) :
    r.files.length = 8 := by
  unfold build at h
  simp only [bind, Except.bind, pure, Except.pure] at h
  split at h
  · cases h
  · injection h with h; subst h; simp [supportFiles, Kind.all]

/-- the support files are named `<prefix ids joined by _>_Dzn_<Name>.hh` -/
theorem support_files_named_by_prefix (pfx : Option Ids) :
    (supportFiles pfx).map (·.filename) =
      Kind.all.map (fun k => (distillateNs pfx).2.2 ++ k.fileSuffix) := by
  simp [supportFiles, createHeader, Kind.all]

/-- **include closure (support headers)**: every project include of a support header names another
    support header of the same prefix (checked on the *translated, current* include tables) -/
theorem include_closure_support (pfx : Option Ids) (k : Kind) :
    ∀ x ∈ k.projIncludes,
      ((distillateNs pfx).2.2 ++ L "_" ++ x ++ L ".hh") ∈ (supportFiles pfx).map (·.filename) := by
  intro x hx
  rw [support_files_named_by_prefix]
  cases k <;> simp [Kind.projIncludes, Lit.strictPortProjIncludes, Lit.iLogProjIncludes,
    Lit.miscUtilsProjIncludes, Lit.metaHelpersProjIncludes, Lit.multiClientSelectorProjIncludes,
    Lit.mutexWrappedProjIncludes] at hx
  all_goals
    rcases hx with rfl | rfl | rfl | rfl <;>
      simp [Kind.all, Kind.fileSuffix, Lit.iLogFileSuffix, Lit.miscUtilsFileSuffix,
        Lit.metaHelpersFileSuffix, Lit.mutexWrappedFileSuffix]

/-- **named scope (partial)**: for an encapsulee inside a namespace the opener of the namespace
    block names that namespace — it is not the unnamed `namespace {`.  (For the global scope the
    generator does emit `namespace {`: finding D-8, see `named_scope_witness`.) -/
theorem named_scope_partial (ns : Ids) (hne : ns ≠ []) :
    L "namespace" ++ nsSuffix ns ++ L " {" ≠ L "namespace {" := by
  intro h
  have h2 : nsSuffix ns ++ L " {" = L " {" := by
    have h' : L "namespace" ++ (nsSuffix ns ++ L " {") = L "namespace" ++ L " {" := by
      rw [← List.append_assoc]; exact h
    exact List.append_cancel_left h'
  have hs : nsSuffix ns = L " " ++ Fqn.str { ids := ns } := by
    unfold nsSuffix
    cases ns with
    | nil => exact absurd rfl hne
    | cons a b => rfl
  rw [hs] at h2
  have hlen := congrArg List.length h2
  -- ` ` ++ X ++ ` {` has at least three characters, ` {` has two
  simp at hlen

/-- the recorded finding D-8, proved: the global scope yields an unnamed namespace -/
theorem named_scope_witness (t : TB) (hl : t.lines ≠ []) (ht : ∀ l ∈ t.header ++ t.lines, Spec.breakFree l = true) :
    (namespaceBlock [] t).lines.head? = some (L "namespace {") := by
  have hle : t.lines.isEmpty = false := by cases h : t.lines <;> simp_all
  have := (C20.namespace_balanced [] t (by decide) ht).1 hl
  rw [this]; rfl

/-- **include closure (shell header)**: every quoted include of the shell header names the
    Dezyne-generated header of the model file or one of the returned support files -/
theorem include_closure_shell (cfg : Config) (orig : Str) :
    ∀ x ∈ shellProjectIncludes cfg orig,
      x = orig ++ L ".hh" ∨ x ∈ (supportFiles cfg.pfx).map (·.filename) := by
  intro x hx
  unfold shellProjectIncludes at hx
  simp only [List.mem_append, List.mem_cons, List.not_mem_nil, or_false] at hx
  rcases hx with (rfl | rfl) | hx
  · exact Or.inl rfl
  · right; simp [supportFiles, Kind.all]
  · right
    split at hx
    · simp only [List.mem_cons, List.not_mem_nil, or_false] at hx
      rcases hx with rfl | rfl <;> simp [supportFiles, Kind.all]
    · cases hx

/-- … and a multi-client shell does include the log and selector headers, a plain one does not -/
theorem shell_includes_selector_iff (cfg : Config) (orig : Str) :
    (createHeader .multiClientSelector cfg.pfx).filename ∈ shellProjectIncludes cfg orig ↔
      cfg.ports.multiclient.isSome = true ∨
        (createHeader .multiClientSelector cfg.pfx).filename = orig ++ L ".hh" ∨
        (createHeader .multiClientSelector cfg.pfx).filename = (createHeader .strictPort cfg.pfx).filename := by
  unfold shellProjectIncludes
  cases h : cfg.ports.multiclient.isSome <;> simp

end C06
