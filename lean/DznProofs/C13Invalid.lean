/-
  C13 (the "invalid inputs always fail" half, at the level of `build`) — each class of invalid input
  named in the property makes the *whole build* fail, wherever in the model or the configuration it
  occurs and whatever else is valid: unknown / ambiguous / non-component encapsulee, rejected port
  selection, a port whose type has no unique interface, an exposed port left without semantics,
  invalid multi-client settings, a multi-client port name that is no provides port.
  (`C13.trichotomy` says the failure is one of the library's errors and never partial.)
-/
import DznModel
import DznProofs.C13
import DznProofs.C07
open Py Text Scoping Ast AstView PortSel CppGen Support Shell

namespace C13

theorem build_error_of_shell (fc cfg e) (h : buildShell fc cfg = .error e) : build fc cfg = .error e := by
  unfold build; rw [h]; rfl

/-- unknown encapsulee -/
theorem unknown_encapsulee (fc : FC) (cfg : Config) (h : findFqn fc cfg.encapsulee = []) :
    build fc cfg = .error (.lib .AdvShellError) := by
  apply build_error_of_shell
  unfold buildShell
  simp [h, adv]

/-- a name that denotes more than one declaration -/
theorem ambiguous_encapsulee (fc : FC) (cfg : Config) (a b : Decl) (r : List Decl)
    (h : findFqn fc cfg.encapsulee = a :: b :: r) : build fc cfg = .error (.lib .FindError) := by
  apply build_error_of_shell
  unfold buildShell
  simp [h, getSingle, bind, Except.bind]

/-- a declaration that is neither a component nor a system -/
theorem non_component_encapsulee (fc : FC) (cfg : Config) (enc : Decl)
    (h : findFqn fc cfg.encapsulee = [enc]) (hk : isComponentOrSystem enc = false) :
    build fc cfg = .error (.lib .AdvShellError) := by
  apply build_error_of_shell
  unfold buildShell
  simp only [h, getSingle, bind, Except.bind, List.isEmpty_cons, Bool.false_eq_true, if_false]
  unfold createDznElements
  simp [hk, adv]

/-- whenever the exposed-port stage fails, the build fails with that error -/
theorem build_error_of_elements (fc : FC) (cfg : Config) (enc : Decl) (e : PyErr)
    (h : findFqn fc cfg.encapsulee = [enc]) (he : createDznElements cfg fc enc = .error e) :
    build fc cfg = .error e := by
  apply build_error_of_shell
  unfold buildShell
  simp only [h, getSingle, bind, Except.bind, List.isEmpty_cons, Bool.false_eq_true, if_false, he]

/-- the port-name sets `create_dzn_elements` hands to the port selection -/
def provNames (enc : Decl) : List Str := ((Decl.ports enc).filter (·.dir = .provides)).map (·.name) |>.eraseDups
def reqNames (enc : Decl) : List Str := ((Decl.ports enc).filter (·.dir = .requires)).map (·.name) |>.eraseDups

/-- **rejected port selection** (unknown name, name on the wrong side, …: `C03.reject`) -/
theorem selection_rejected (fc : FC) (cfg : Config) (enc : Decl) (e : PyErr)
    (h : findFqn fc cfg.encapsulee = [enc]) (hk : isComponentOrSystem enc = true)
    (hm : cfg.ports.matchAll (provNames enc) (reqNames enc) = .error e) :
    build fc cfg = .error e := by
  apply build_error_of_elements fc cfg enc e h
  unfold createDznElements
  simp only [hk, Bool.not_true, Bool.false_eq_true, if_false, bind, Except.bind]
  unfold provNames reqNames at hm
  rw [hm]

/-- if some port makes the per-port step fail whatever was accumulated before, the fold fails -/
theorem foldlM_fails_of (cfg fc scope sems) (l : List Port) (acc)
    (hbad : ∃ p ∈ l, ∀ acc, ∃ e, processPort cfg fc scope sems acc p = .error e) :
    ∃ e, l.foldlM (processPort cfg fc scope sems) acc = .error e := by
  induction l generalizing acc with
  | nil => obtain ⟨p, hp, _⟩ := hbad; simp at hp
  | cons a t ih =>
    rw [List.foldlM_cons]
    cases ha : processPort cfg fc scope sems acc a with
    | error e => exact ⟨e, rfl⟩
    | ok acc' =>
      simp only [bind, Except.bind]
      obtain ⟨p, hp, hn⟩ := hbad
      rcases List.mem_cons.mp hp with rfl | hp
      · obtain ⟨e, he⟩ := hn acc; rw [ha] at he; cases he
      · exact ih acc' ⟨p, hp, hn⟩

theorem elements_fail_of_port (cfg fc enc)
    (hbad : ∀ sems, ∃ p ∈ Decl.ports enc, ∀ acc, ∃ e, processPort cfg fc enc.parent.fqn sems acc p = .error e) :
    ∃ e, createDznElements cfg fc enc = .error e := by
  unfold createDznElements
  split
  · exact ⟨_, rfl⟩
  · simp only [bind, Except.bind]
    split
    · exact ⟨_, rfl⟩
    · rename_i sems _
      obtain ⟨e, he⟩ := foldlM_fails_of cfg fc enc.parent.fqn sems (Decl.ports enc) ([], []) (hbad sems)
      rw [he]; exact ⟨e, rfl⟩

/-- **unresolvable, ambiguous or wrong-kind port type**: any port — exposed or not, first or last —
    whose written type does not denote exactly one interface makes the build fail -/
theorem port_type_unresolved (fc : FC) (cfg : Config) (enc : Decl) (h : findFqn fc cfg.encapsulee = [enc])
    (p : Port) (hp : p ∈ Decl.ports enc) (hn : Spec.portInterface fc enc.parent.fqn p = none) :
    ∃ e, build fc cfg = .error e := by
  obtain ⟨e, he⟩ := elements_fail_of_port cfg fc enc (fun sems => ⟨p, hp, fun acc => by
    refine ⟨.lib .FindError, ?_⟩
    unfold processPort
    rw [C07.port_lookup_error fc enc.parent.fqn p hn]; rfl⟩)
  exact ⟨e, build_error_of_elements fc cfg enc e h he⟩

/-- **an exposed port left without semantics** (provides, or requires and not injected) -/
theorem uncovered_port (fc : FC) (cfg : Config) (enc : Decl) (h : findFqn fc cfg.encapsulee = [enc])
    (p : Port) (hp : p ∈ Decl.ports enc) (hexp : p.dir = .provides ∨ p.injected = false)
    (hun : ∀ sems, cfg.ports.matchAll (provNames enc) (reqNames enc) = .ok sems → sems.lookup p.name = none) :
    ∃ e, build fc cfg = .error e := by
  by_cases hk : isComponentOrSystem enc = true
  case neg => exact ⟨_, non_component_encapsulee fc cfg enc h (by simpa using hk)⟩
  cases hm : cfg.ports.matchAll (provNames enc) (reqNames enc) with
  | error e => exact ⟨e, selection_rejected fc cfg enc e h hk hm⟩
  | ok sems =>
    have hl := hun sems hm
    suffices hs : ∃ e, createDznElements cfg fc enc = .error e by
      obtain ⟨e, he⟩ := hs; exact ⟨e, build_error_of_elements fc cfg enc e h he⟩
    unfold createDznElements
    simp only [hk, Bool.not_true, Bool.false_eq_true, if_false, bind, Except.bind]
    unfold provNames reqNames at hm
    rw [hm]
    simp only []
    obtain ⟨e, he⟩ := foldlM_fails_of cfg fc enc.parent.fqn sems (Decl.ports enc) ([], [])
      ⟨p, hp, fun acc => by
        unfold processPort
        simp only [bind, Except.bind]
        split
        · exact ⟨_, rfl⟩
        · split
          · split
            · split
              · exact ⟨_, rfl⟩
              · rw [hl]; exact ⟨_, rfl⟩
            · rcases hexp with hd | hi
              · rename_i hnd; exact absurd hd hnd
              · simp only [hi, Bool.not_false, if_true]
                rw [hl]; exact ⟨_, rfl⟩
          · exact ⟨_, rfl⟩⟩
    rw [he]; exact ⟨e, rfl⟩

/-- **invalid multi-client settings**: when the configured port is a provides port of the encapsulee
    and the settings are refused for its interface (unknown claim/release event, claim reply not an
    enum, granting value not a field, release an out-event: `C04.cfg_checked`), the build fails -/
theorem multiclient_invalid (fc : FC) (cfg : Config) (enc : Decl) (h : findFqn fc cfg.encapsulee = [enc])
    (p : Port) (hp : p ∈ Decl.ports enc) (hd : p.dir = .provides)
    (hbad : ∀ itf, Spec.portInterface fc enc.parent.fqn p = some itf →
        ∃ e, checkMulticlientCfg cfg.ports.multiclient p.name itf fc = .error e) :
    ∃ e, build fc cfg = .error e := by
  obtain ⟨e, he⟩ := elements_fail_of_port cfg fc enc (fun sems => ⟨p, hp, fun acc => by
    unfold processPort
    simp only [bind, Except.bind]
    split
    · exact ⟨_, rfl⟩
    · rename_i d hdd
      split
      · rename_i itf
        have hi := (C07.port_type_is_the_denoted_interface fc enc.parent.fqn p itf).mp hdd
        obtain ⟨e, he⟩ := hbad itf hi
        simp only [hd, if_true]
        rw [he]; exact ⟨_, rfl⟩
      · exact ⟨_, rfl⟩⟩)
  exact ⟨e, build_error_of_elements fc cfg enc e h he⟩

/-! ### a multi-client port name that is no provides port of the encapsulee -/

theorem checkMc_some (c : Option MultiClientCfg) (pn itf fc fx)
    (h : checkMulticlientCfg c pn itf fc = .ok (some fx)) : ∃ m, c = some m ∧ pn = m.portName := by
  unfold checkMulticlientCfg at h
  split at h
  · cases h
  · rename_i m
    split at h
    · cases h
    · rename_i hpn
      exact ⟨m, rfl, by simpa using hpn⟩

def McFrom (ports : List Port) (name : Str) (l : List DznPortItf) : Prop :=
  ∀ d ∈ l, d.mc.isSome = true → d.port ∈ ports ∧ d.port.dir = .provides ∧ d.port.name = name

theorem mkDznPortItf_fields (p i s mc d) (h : mkDznPortItf p i s mc = .ok d) : d.port = p ∧ d.mc = mc := by
  unfold mkDznPortItf at h; split at h
  · cases h
  · injection h with h; subst h; exact ⟨rfl, rfl⟩

theorem processPort_mcFrom (cfg fc scope sems acc port ports r) (m : MultiClientCfg)
    (hm : cfg.ports.multiclient = some m) (hacc : McFrom ports m.portName acc.1) (hp : port ∈ ports)
    (h : processPort cfg fc scope sems acc port = .ok r) : McFrom ports m.portName r.1 := by
  unfold processPort at h
  simp only [bind, Except.bind, pure, Except.pure] at h
  split at h
  · cases h
  split at h
  · split at h
    · rename_i hdir
      split at h
      · cases h
      rename_i mc hmc
      split at h
      · cases h
      split at h
      · cases h
      · rename_i d hd
        injection h with h; subst h
        obtain ⟨e1, e2⟩ := mkDznPortItf_fields _ _ _ _ _ hd
        intro x hx hxs
        rcases List.mem_append.mp hx with hx | hx
        · exact hacc x hx hxs
        · simp at hx; subst hx
          rw [e2] at hxs
          cases mc with
          | none => simp at hxs
          | some fx =>
            obtain ⟨m', hm', hn⟩ := checkMc_some _ _ _ _ _ hmc
            rw [hm] at hm'; injection hm' with hm'; subst hm'
            rw [e1]; exact ⟨hp, hdir, hn⟩
    · split at h
      · split at h
        · cases h
        split at h
        · cases h
        · injection h with h; subst h; exact hacc
      · injection h with h; subst h; exact hacc
  · cases h

theorem foldlM_mcFrom (cfg fc scope sems) (ports l : List Port) (acc r) (m : MultiClientCfg)
    (hm : cfg.ports.multiclient = some m) (hl : ∀ p ∈ l, p ∈ ports) (hacc : McFrom ports m.portName acc.1)
    (h : l.foldlM (processPort cfg fc scope sems) acc = .ok r) : McFrom ports m.portName r.1 := by
  induction l generalizing acc with
  | nil => simp [List.foldlM_nil, pure, Except.pure] at h; subst h; exact hacc
  | cons a t ih =>
    rw [List.foldlM_cons] at h
    simp only [bind, Except.bind] at h
    split at h
    · cases h
    · rename_i acc' ha
      exact ih acc' (fun p hp => hl p (by simp [hp]))
        (processPort_mcFrom _ _ _ _ _ _ _ _ m hm hacc (hl a (by simp)) ha) h

/-- **multi-client port name that is not a provides port** (unknown name, or a requires port) -/
theorem multiclient_port_unknown (fc : FC) (cfg : Config) (enc : Decl) (h : findFqn fc cfg.encapsulee = [enc])
    (m : MultiClientCfg) (hm : cfg.ports.multiclient = some m)
    (hno : ∀ p ∈ Decl.ports enc, p.dir = .provides → p.name ≠ m.portName) :
    ∃ e, build fc cfg = .error e := by
  cases hde : createDznElements cfg fc enc with
  | error e => exact ⟨e, build_error_of_elements fc cfg enc e h hde⟩
  | ok de =>
    exfalso
    unfold createDznElements at hde
    simp only [bind, Except.bind, pure, Except.pure] at hde
    split at hde
    · cases hde
    split at hde
    · cases hde
    split at hde
    · cases hde
    rename_i r hr
    split at hde
    · cases hde
    · rename_i hcond
      have hfrom := foldlM_mcFrom cfg fc enc.parent.fqn _ (Decl.ports enc) (Decl.ports enc) ([], []) r m hm
        (fun _ hp => hp) (by intro d hd; simp at hd) hr
      have hany : r.1.any (fun x => x.mc.isSome) = true := by
        cases hh : r.1.any (fun x => x.mc.isSome) with
        | true => rfl
        | false => rw [hm, hh] at hcond; simp at hcond
      obtain ⟨d, hd, hds⟩ := List.any_eq_true.mp hany
      obtain ⟨h1, h2, h3⟩ := hfrom d hd hds
      exact hno d.port h1 h2 h3

/-- **summary**: every class of invalid input the property names makes the build fail -/
theorem invalid_fails (fc : FC) (cfg : Config) :
    (findFqn fc cfg.encapsulee = [] → ∃ e, build fc cfg = .error e) ∧
    (∀ a b r, findFqn fc cfg.encapsulee = a :: b :: r → ∃ e, build fc cfg = .error e) ∧
    (∀ enc, findFqn fc cfg.encapsulee = [enc] →
      (isComponentOrSystem enc = false → ∃ e, build fc cfg = .error e) ∧
      (∀ e, isComponentOrSystem enc = true → cfg.ports.matchAll (provNames enc) (reqNames enc) = .error e →
          build fc cfg = .error e) ∧
      (∀ p ∈ Decl.ports enc, Spec.portInterface fc enc.parent.fqn p = none → ∃ e, build fc cfg = .error e) ∧
      (∀ p ∈ Decl.ports enc, (p.dir = .provides ∨ p.injected = false) →
          (∀ sems, cfg.ports.matchAll (provNames enc) (reqNames enc) = .ok sems → sems.lookup p.name = none) →
          ∃ e, build fc cfg = .error e) ∧
      (∀ p ∈ Decl.ports enc, p.dir = .provides →
          (∀ itf, Spec.portInterface fc enc.parent.fqn p = some itf →
              ∃ e, checkMulticlientCfg cfg.ports.multiclient p.name itf fc = .error e) →
          ∃ e, build fc cfg = .error e) ∧
      (∀ m, cfg.ports.multiclient = some m →
          (∀ p ∈ Decl.ports enc, p.dir = .provides → p.name ≠ m.portName) → ∃ e, build fc cfg = .error e)) :=
  ⟨fun h => ⟨_, unknown_encapsulee fc cfg h⟩,
   fun a b r h => ⟨_, ambiguous_encapsulee fc cfg a b r h⟩,
   fun enc h =>
    ⟨fun hk => ⟨_, non_component_encapsulee fc cfg enc h hk⟩,
     fun e hk hm => selection_rejected fc cfg enc e h hk hm,
     fun p hp hn => port_type_unresolved fc cfg enc h p hp hn,
     fun p hp hexp hun => uncovered_port fc cfg enc h p hp hexp hun,
     fun p hp hd hbad => multiclient_invalid fc cfg enc h p hp hd hbad,
     fun m hm hno => multiclient_port_unknown fc cfg enc h m hm hno⟩⟩

end C13
