/-
  C11 — The generated multi-client support under all thread interleavings.   (**partial**)
  Proved over the interleaving model DznModel.Conc for any number of client threads and runs of
  any length (inductive invariants).  Not exhibited by the model: the C++ memory model, std::mutex,
  the real dzn::pump (tied by TSan runs of the real shell with a threaded pump).
-/
import DznModel
open Conc

namespace C11

def lockedPhase (p : Pc) : Bool :=
  p = .selLocked || p = .selWritten || p = .deselLocked || p = .deselWritten

/-- the mutual-exclusion invariant: a client owns the lock exactly while it is inside
    Select/Deselect, the dispatcher exactly while it delivers an out-event -/
structure MInv (s : State) : Prop where
  client : ∀ c, lockedPhase (pcOf s c) = true ↔ s.lock = some (.client c)
  disp : s.dpc ≠ .idle ↔ s.lock = some .dispatcher
  outHead : s.dpc ≠ .idle → ∃ rest, s.queue = .out :: rest

theorem minv_init (n outs : Nat) : MInv (init n outs) := by
  constructor
  · intro c; simp [init, pcOf, lockedPhase]
  · simp [init]
  · intro h; simp [init] at h

/-- **mutual exclusion is inductive**: every enabled step of every thread preserves the invariant,
    whatever the schedule and the number of threads -/
theorem minv_step (asIs : Bool) (s : State) (a : Action) (h : MInv s) (he : enabled s a = true) :
    MInv (step asIs s a) := by
  obtain ⟨hc, hd, ho⟩ := h
  simp only [pcOf] at hc
  cases a with
  | postClaim c =>
    simp only [enabled, Bool.and_eq_true, decide_eq_true_eq] at he
    have hcc := hc c
    refine ⟨?_, ?_, ?_⟩
    · intro d
      have hcd := hc d
      by_cases hdc : d = c
      · subst hdc; simp_all [step, pcOf, setPc, lockedPhase]
      · simpa [step, pcOf, setPc, hdc, lockedPhase] using hcd
    · simpa [step, setPc] using hd
    · intro hne
      obtain ⟨rest, hr⟩ := ho (by simpa [step, setPc] using hne)
      exact ⟨rest ++ [.claim c], by simp [step, setPc, hr]⟩
  | postRelease c =>
    simp only [enabled, Bool.and_eq_true, decide_eq_true_eq] at he
    have hcc := hc c
    refine ⟨?_, ?_, ?_⟩
    · intro d
      have hcd := hc d
      by_cases hdc : d = c
      · subst hdc; simp_all [step, pcOf, setPc, lockedPhase]
      · simpa [step, pcOf, setPc, hdc, lockedPhase] using hcd
    · simpa [step, setPc] using hd
    · intro hne
      obtain ⟨rest, hr⟩ := ho (by simpa [step, setPc] using hne)
      exact ⟨rest ++ [.release c], by simp [step, setPc, hr]⟩
  | raiseOut =>
    refine ⟨fun d => by simpa [step, pcOf] using hc d, by simpa [step] using hd, ?_⟩
    intro hne
    obtain ⟨rest, hr⟩ := ho (by simpa [step] using hne)
    exact ⟨rest ++ [.out], by simp [step, hr]⟩
  | dispatch =>
    cases hdp : s.dpc with
    | idle =>
      have hlk : s.lock ≠ some .dispatcher := by
        intro e; exact absurd (hd.mpr e) (by simp [hdp])
      cases hq : s.queue with
      | nil => simp [enabled, hdp, hq] at he
      | cons call rest =>
        cases call with
        | claim c =>
          have hcc := hc c
          by_cases hw : s.pcs c = .waitClaim
          · have hnl : s.lock ≠ some (.client c) := by
              intro e; have := hcc.mpr e; rw [hw] at this; simp [lockedPhase] at this
            by_cases hb : s.busy = true
            · refine ⟨?_, ?_, ?_⟩
              · intro d
                have hcd := hc d
                by_cases hdc : d = c
                · subst hdc; simp [step, hdp, hq, hb, hw, pcOf, setPc, lockedPhase, hnl]
                · simpa [step, hdp, hq, hb, hw, pcOf, setPc, hdc, lockedPhase] using hcd
              · simpa [step, hdp, hq, hb, hw, setPc] using hd
              · intro hne'; simp [step, hdp, hq, hb, hw, setPc] at hne'
            · refine ⟨?_, ?_, ?_⟩
              · intro d
                have hcd := hc d
                by_cases hdc : d = c
                · subst hdc; simp [step, hdp, hq, hb, hw, pcOf, setPc, lockedPhase, hnl]
                · simpa [step, hdp, hq, hb, hw, pcOf, setPc, hdc, lockedPhase] using hcd
              · simpa [step, hdp, hq, hb, hw, setPc] using hd
              · intro hne'; simp [step, hdp, hq, hb, hw, setPc] at hne'
          · refine ⟨?_, ?_, ?_⟩
            · intro d; simpa [step, hdp, hq, hw, pcOf] using hc d
            · simpa [step, hdp, hq, hw] using hd
            · intro hne'; simp [step, hdp, hq, hw] at hne'
        | release c =>
          have hcc := hc c
          by_cases hw : s.pcs c = .waitRelease
          · have hnl : s.lock ≠ some (.client c) := by
              intro e; have := hcc.mpr e; rw [hw] at this; simp [lockedPhase] at this
            refine ⟨?_, ?_, ?_⟩
            · intro d
              have hcd := hc d
              by_cases hdc : d = c
              · subst hdc; simp [step, hdp, hq, hw, pcOf, setPc, lockedPhase, hnl]
              · simpa [step, hdp, hq, hw, pcOf, setPc, hdc, lockedPhase] using hcd
            · simpa [step, hdp, hq, hw, setPc] using hd
            · intro hne'; simp [step, hdp, hq, hw, setPc] at hne'
          · refine ⟨?_, ?_, ?_⟩
            · intro d; simpa [step, hdp, hq, hw, pcOf] using hc d
            · simpa [step, hdp, hq, hw] using hd
            · intro hne'; simp [step, hdp, hq, hw] at hne'
        | out =>
          simp only [enabled, hdp, hq] at he
          have hl : s.lock = none := by simpa using he
          refine ⟨?_, ?_, ?_⟩
          · intro d
            have hcd := hc d
            simp_all [step, pcOf, lockedPhase]
          · simp [step, hdp, hq]
          · intro _; exact ⟨rest, by simp [step, hdp, hq]⟩
    | outLocked =>
      have hl : s.lock = some .dispatcher := hd.mp (by simp [hdp])
      obtain ⟨rest, hr⟩ := ho (by simp [hdp])
      refine ⟨?_, ?_, ?_⟩
      · intro d; have := hc d; simp_all [step, pcOf]
      · simp [step, hdp, hl]
      · intro _; exact ⟨rest, by simp [step, hdp, hr]⟩
    | outDelivered =>
      refine ⟨?_, ?_, ?_⟩
      · intro d
        have hcd := hc d
        have hl : s.lock = some .dispatcher := hd.mp (by simp [hdp])
        simp_all [step, pcOf, lockedPhase]
      · simp [step, hdp]
      · intro hne; simp [step, hdp] at hne
  | clientStep c =>
    simp only [enabled, Bool.and_eq_true, decide_eq_true_eq] at he
    have hcc := hc c
    constructor
    · intro d
      have hcd := hc d
      by_cases hdc : d = c
      · subst hdc
        cases hp : s.pcs d <;> (have hl := hcc; rw [hp] at hl; simp [lockedPhase] at hl) <;>
          simp_all [step, pcOf, setPc, lockedPhase]
      · cases hp : s.pcs c <;> simp_all [step, pcOf, setPc, lockedPhase] <;> grind
    · cases hp : s.pcs c <;> simp_all [step, pcOf, setPc, lockedPhase] <;> grind
    · cases hp : s.pcs c <;> simp_all [step, pcOf, setPc, lockedPhase]


/-- mutual exclusion holds in every reachable state, for every schedule -/
theorem mutex_reachable (asIs : Bool) (n outs : Nat) (acts : List Action) :
    MInv (run asIs (init n outs) acts) := by
  have : ∀ s, MInv s → MInv (run asIs s acts) := by
    induction acts with
    | nil => intro s h; exact h
    | cons a r ih =>
      intro s h
      simp only [run]
      split
      · rename_i he; exact ih _ (minv_step asIs s a h he)
      · exact ih s h
  exact this _ (minv_init n outs)

/-- every write of the selection and every read for a delivery is done by the thread that owns
    the lock at that moment -/
theorem selection_access_under_lock (asIs : Bool) (s : State) (a : Action) (h : MInv s)
    (he : enabled s a = true) :
    ((step asIs s a).selected ≠ s.selected → ∃ c, a = .clientStep c ∧ s.lock = some (.client c)) ∧
    ((step asIs s a).deliveries ≠ s.deliveries → a = .dispatch ∧ s.lock = some .dispatcher) := by
  obtain ⟨hc, hd, ho⟩ := h
  simp only [pcOf] at hc
  cases a with
  | postClaim c => simp [step, setPc]
  | postRelease c => simp [step, setPc]
  | raiseOut => simp [step]
  | dispatch =>
    cases hdp : s.dpc with
    | idle =>
      cases hq : s.queue with
      | nil => simp [step, hdp, hq]
      | cons call rest =>
        cases call with
        | claim c => simp only [step, hdp, hq]; split <;> (try split) <;> simp [setPc]
        | release c => simp only [step, hdp, hq]; split <;> simp [setPc]
        | out => simp [step, hdp, hq]
    | outLocked =>
      have hl : s.lock = some .dispatcher := hd.mp (by simp [hdp])
      simp [step, hdp, hl]
    | outDelivered => simp [step, hdp]
  | clientStep c =>
    simp only [enabled, Bool.and_eq_true, decide_eq_true_eq] at he
    have hcc := hc c
    constructor
    · intro hne
      refine ⟨c, rfl, ?_⟩
      cases hp : s.pcs c <;> simp_all [step, pcOf, setPc, lockedPhase]
    · intro hne
      cases hp : s.pcs c <;> simp_all [step, pcOf, setPc]

/-! ### MutexWrapped: the lock-and-data handle releases the lock on reset and at scope exit -/

/-- at most one handle owns the lock: acquiring is impossible while it is locked -/
theorem acquire_exclusive (m : Mutex) (h : m.locked = true) : acquire m = none := by simp [acquire, h]

theorem acquire_locks (m : Mutex) (m' : Mutex) (hd : Handle) (h : acquire m = some (m', hd)) :
    m.locked = false ∧ m'.locked = true ∧ hd.owns = true := by
  unfold acquire at h
  split at h
  · cases h
  · rename_i hl; injection h with h; injection h with h1 h2; subst h1 h2; simp_all

/-- **RAII**: after an explicit reset, and after scope exit, the lock is free; a second reset (or the
    deleter running after a reset) is harmless -/
theorem raii (m : Mutex) (hd : Handle) (ho : hd.owns = true) :
    (hd.reset m).1.locked = false ∧ (hd.scopeExit m).locked = false ∧
    ((hd.reset m).2.reset (hd.reset m).1 = hd.reset m) ∧
    ((hd.reset m).2.scopeExit (hd.reset m).1).locked = false := by
  simp [Handle.reset, Handle.scopeExit, ho]

/-! ### no deadlock -/

/-- clients outside the configured range never move; a blocked client has its call in the queue -/
structure WInv (s : State) : Prop where
  range : ∀ c, s.n ≤ c → s.pcs c = .idle
  wclaim : ∀ c, s.pcs c = .waitClaim → Call.claim c ∈ s.queue
  wrelease : ∀ c, s.pcs c = .waitRelease → Call.release c ∈ s.queue

theorem winv_init (n outs : Nat) : WInv (init n outs) := by
  constructor <;> intro c <;> simp [init]

theorem winv_step (asIs : Bool) (s : State) (a : Action) (h : WInv s) (hm : MInv s) (he : enabled s a = true) :
    WInv (step asIs s a) ∧ (step asIs s a).n = s.n := by
  obtain ⟨hr, hwc, hwr⟩ := h
  cases a with
  | postClaim c =>
    simp only [enabled, Bool.and_eq_true, decide_eq_true_eq, pcOf] at he
    refine ⟨⟨?_, ?_, ?_⟩, rfl⟩
    · intro d hd
      have hd' : s.n ≤ d := by simpa [step, setPc] using hd
      have hlt := he.1
      have : d ≠ c := by intro e; exact Nat.lt_irrefl _ (Nat.lt_of_lt_of_le hlt (e ▸ hd'))
      simpa [step, setPc, this] using hr d hd'
    · intro d hd
      by_cases hdc : d = c
      · subst hdc; simp [step, setPc]
      · have := hwc d (by simpa [step, setPc, hdc] using hd)
        simp [step, setPc, this]
    · intro d hd
      by_cases hdc : d = c
      · subst hdc; simp [step, setPc] at hd
      · have := hwr d (by simpa [step, setPc, hdc] using hd)
        simp [step, setPc, this]
  | postRelease c =>
    simp only [enabled, Bool.and_eq_true, decide_eq_true_eq, pcOf] at he
    refine ⟨⟨?_, ?_, ?_⟩, rfl⟩
    · intro d hd
      have hd' : s.n ≤ d := by simpa [step, setPc] using hd
      have hlt := he.1
      have : d ≠ c := by intro e; exact Nat.lt_irrefl _ (Nat.lt_of_lt_of_le hlt (e ▸ hd'))
      simpa [step, setPc, this] using hr d hd'
    · intro d hd
      by_cases hdc : d = c
      · subst hdc; simp [step, setPc] at hd
      · have := hwc d (by simpa [step, setPc, hdc] using hd)
        simp [step, setPc, this]
    · intro d hd
      by_cases hdc : d = c
      · subst hdc; simp [step, setPc]
      · have := hwr d (by simpa [step, setPc, hdc] using hd)
        simp [step, setPc, this]
  | raiseOut =>
    refine ⟨⟨fun d hd => by simpa [step] using hr d hd, ?_, ?_⟩, rfl⟩
    · intro d hd; have := hwc d (by simpa [step] using hd); simp [step, this]
    · intro d hd; have := hwr d (by simpa [step] using hd); simp [step, this]
  | dispatch =>
    cases hdp : s.dpc with
    | idle =>
      cases hq : s.queue with
      | nil => simp [enabled, hdp, hq] at he
      | cons call rest =>
        have hmem : ∀ x, x ∈ s.queue → x ≠ call → x ∈ rest := by
          intro x hx hne; rw [hq] at hx
          rcases List.mem_cons.mp hx with h | h
          · exact absurd h hne
          · exact h
        cases call with
        | claim c =>
          by_cases hw : s.pcs c = .waitClaim
          · by_cases hb : s.busy = true
            · refine ⟨⟨?_, ?_, ?_⟩, by simp [step, hdp, hq, hw, hb, setPc]⟩
              · intro d hd
                have hd' : s.n ≤ d := by simpa [step, hdp, hq, hw, hb, setPc] using hd
                by_cases hdc : d = c
                · subst hdc; simp [step, hdp, hq, hw, hb, setPc]
                · simpa [step, hdp, hq, hw, hb, setPc, hdc] using hr d hd'
              · intro d hd
                by_cases hdc : d = c
                · subst hdc; simp [step, hdp, hq, hw, hb, setPc] at hd
                · have h1 : s.pcs d = .waitClaim := by simpa [step, hdp, hq, hw, hb, setPc, hdc] using hd
                  have := hmem _ (hwc d h1) (by simp [hdc])
                  simpa [step, hdp, hq, hw, hb, setPc] using this
              · intro d hd
                by_cases hdc : d = c
                · subst hdc; simp [step, hdp, hq, hw, hb, setPc] at hd
                · have h1 : s.pcs d = .waitRelease := by simpa [step, hdp, hq, hw, hb, setPc, hdc] using hd
                  have := hmem _ (hwr d h1) (by simp)
                  simpa [step, hdp, hq, hw, hb, setPc] using this
            · refine ⟨⟨?_, ?_, ?_⟩, by simp [step, hdp, hq, hw, hb, setPc]⟩
              · intro d hd
                have hd' : s.n ≤ d := by simpa [step, hdp, hq, hw, hb, setPc] using hd
                have hdc : d ≠ c := by
                  intro e; subst e; have := hr d hd'; rw [this] at hw; cases hw
                simpa [step, hdp, hq, hw, hb, setPc, hdc] using hr d hd'
              · intro d hd
                by_cases hdc : d = c
                · subst hdc; simp [step, hdp, hq, hw, hb, setPc] at hd
                · have h1 : s.pcs d = .waitClaim := by simpa [step, hdp, hq, hw, hb, setPc, hdc] using hd
                  have := hmem _ (hwc d h1) (by simp [hdc])
                  simpa [step, hdp, hq, hw, hb, setPc] using this
              · intro d hd
                by_cases hdc : d = c
                · subst hdc; simp [step, hdp, hq, hw, hb, setPc] at hd
                · have h1 : s.pcs d = .waitRelease := by simpa [step, hdp, hq, hw, hb, setPc, hdc] using hd
                  have := hmem _ (hwr d h1) (by simp)
                  simpa [step, hdp, hq, hw, hb, setPc] using this
          · refine ⟨⟨?_, ?_, ?_⟩, by simp [step, hdp, hq, hw]⟩
            · intro d hd; exact by simpa [step, hdp, hq, hw] using hr d (by simpa [step, hdp, hq, hw] using hd)
            · intro d hd
              have h1 : s.pcs d = .waitClaim := by simpa [step, hdp, hq, hw] using hd
              have hdc : d ≠ c := by intro e; subst e; exact hw h1
              have := hmem _ (hwc d h1) (by simp [hdc])
              simpa [step, hdp, hq, hw] using this
            · intro d hd
              have h1 : s.pcs d = .waitRelease := by simpa [step, hdp, hq, hw] using hd
              have := hmem _ (hwr d h1) (by simp)
              simpa [step, hdp, hq, hw] using this
        | release c =>
          by_cases hw : s.pcs c = .waitRelease
          · refine ⟨⟨?_, ?_, ?_⟩, by simp [step, hdp, hq, hw, setPc]⟩
            · intro d hd
              have hd' : s.n ≤ d := by simpa [step, hdp, hq, hw, setPc] using hd
              have hdc : d ≠ c := by
                intro e; subst e; have := hr d hd'; rw [this] at hw; cases hw
              simpa [step, hdp, hq, hw, setPc, hdc] using hr d hd'
            · intro d hd
              by_cases hdc : d = c
              · subst hdc; simp [step, hdp, hq, hw, setPc] at hd
              · have h1 : s.pcs d = .waitClaim := by simpa [step, hdp, hq, hw, setPc, hdc] using hd
                have := hmem _ (hwc d h1) (by simp)
                simpa [step, hdp, hq, hw, setPc] using this
            · intro d hd
              by_cases hdc : d = c
              · subst hdc; simp [step, hdp, hq, hw, setPc] at hd
              · have h1 : s.pcs d = .waitRelease := by simpa [step, hdp, hq, hw, setPc, hdc] using hd
                have := hmem _ (hwr d h1) (by simp [hdc])
                simpa [step, hdp, hq, hw, setPc] using this
          · refine ⟨⟨?_, ?_, ?_⟩, by simp [step, hdp, hq, hw]⟩
            · intro d hd; exact by simpa [step, hdp, hq, hw] using hr d (by simpa [step, hdp, hq, hw] using hd)
            · intro d hd
              have h1 : s.pcs d = .waitClaim := by simpa [step, hdp, hq, hw] using hd
              have := hmem _ (hwc d h1) (by simp)
              simpa [step, hdp, hq, hw] using this
            · intro d hd
              have h1 : s.pcs d = .waitRelease := by simpa [step, hdp, hq, hw] using hd
              have hdc : d ≠ c := by intro e; subst e; exact hw h1
              have := hmem _ (hwr d h1) (by simp [hdc])
              simpa [step, hdp, hq, hw] using this
        | out =>
          refine ⟨⟨?_, ?_, ?_⟩, by simp [step, hdp, hq]⟩
          · intro d hd; exact by simpa [step, hdp, hq] using hr d (by simpa [step, hdp, hq] using hd)
          · intro d hd; have := hwc d (by simpa [step, hdp, hq] using hd); simpa [step, hdp, hq] using this
          · intro d hd; have := hwr d (by simpa [step, hdp, hq] using hd); simpa [step, hdp, hq] using this
    | outLocked =>
      refine ⟨⟨?_, ?_, ?_⟩, by simp [step, hdp]⟩
      · intro d hd; exact by simpa [step, hdp] using hr d (by simpa [step, hdp] using hd)
      · intro d hd; have := hwc d (by simpa [step, hdp] using hd); simpa [step, hdp] using this
      · intro d hd; have := hwr d (by simpa [step, hdp] using hd); simpa [step, hdp] using this
    | outDelivered =>
      -- the head of the queue is the out-event being delivered: dropping it removes no client call
      refine ⟨⟨?_, ?_, ?_⟩, by simp [step, hdp]⟩
      · intro d hd; exact by simpa [step, hdp] using hr d (by simpa [step, hdp] using hd)
      · intro d hd
        have h1 := hwc d (by simpa [step, hdp] using hd)
        obtain ⟨rest, hr'⟩ := hm.outHead (by simp [hdp])
        rw [hr'] at h1
        simp only [step, hdp, hr', List.drop_succ_cons, List.drop_zero]
        simpa using h1
      · intro d hd
        have h1 := hwr d (by simpa [step, hdp] using hd)
        obtain ⟨rest, hr'⟩ := hm.outHead (by simp [hdp])
        rw [hr'] at h1
        simp only [step, hdp, hr', List.drop_succ_cons, List.drop_zero]
        simpa using h1
  | clientStep c =>
    simp only [enabled, Bool.and_eq_true, decide_eq_true_eq, pcOf] at he
    refine ⟨⟨?_, ?_, ?_⟩, by cases hp : s.pcs c <;> simp [step, hp, setPc]⟩
    · intro d hd
      have hd' : s.n ≤ d := by cases hp : s.pcs c <;> simpa [step, hp, setPc] using hd
      have hlt := he.1
      have hdc : d ≠ c := by intro e; exact Nat.lt_irrefl _ (Nat.lt_of_lt_of_le hlt (e ▸ hd'))
      cases hp : s.pcs c <;> simpa [step, hp, setPc, hdc] using hr d hd'
    · intro d hd
      by_cases hdc : d = c
      · subst hdc; cases hp : s.pcs d <;> simp_all [step, setPc]
      · have h1 : s.pcs d = .waitClaim := by cases hp : s.pcs c <;> simpa [step, hp, setPc, hdc] using hd
        have := hwc d h1
        cases hp : s.pcs c <;> simpa [step, hp, setPc] using this
    · intro d hd
      by_cases hdc : d = c
      · subst hdc; cases hp : s.pcs d <;> simp_all [step, setPc]
      · have h1 : s.pcs d = .waitRelease := by cases hp : s.pcs c <;> simpa [step, hp, setPc, hdc] using hd
        have := hwr d h1
        cases hp : s.pcs c <;> simpa [step, hp, setPc] using this


/-- **no deadlock**: in every state satisfying the invariants (hence in every reachable state) with
    at least one client thread, some thread can take a step — the single lock is never held across
    a blocking operation -/
theorem no_deadlock (s : State) (hm : MInv s) (hw : WInv s) (hn : 0 < s.n) :
    ∃ a ∈ allActions s, enabled s a = true := by
  have hdisp : Action.dispatch ∈ allActions s := by simp [allActions]
  have hcl : ∀ c, c < s.n → Action.clientStep c ∈ allActions s ∧ Action.postClaim c ∈ allActions s ∧
      Action.postRelease c ∈ allActions s := by
    intro c hc
    simp only [allActions, List.mem_append, List.mem_flatMap, List.mem_range]
    exact ⟨Or.inl ⟨c, hc, by simp⟩, Or.inl ⟨c, hc, by simp⟩, Or.inl ⟨c, hc, by simp⟩⟩
  -- a client that owns the lock can always continue
  have owner_steps : ∀ c, s.lock = some (.client c) → ∃ a ∈ allActions s, enabled s a = true := by
    intro c hl
    have hlp := (hm.client c).mpr hl
    have hc : c < s.n := by
      apply Classical.byContradiction; intro hge
      have := hw.range c (Nat.le_of_not_lt hge)
      simp [pcOf, this, lockedPhase] at hlp
    refine ⟨.clientStep c, (hcl c hc).1, ?_⟩
    simp only [pcOf, lockedPhase, Bool.or_eq_true, decide_eq_true_eq] at hlp
    rcases hlp with ((h | h) | h) | h <;> simp [enabled, hc, pcOf, h]
  by_cases hd : s.dpc = .idle
  · cases hq : s.queue with
    | cons call rest =>
      cases call with
      | claim c => exact ⟨.dispatch, hdisp, by simp [enabled, hd, hq]⟩
      | release c => exact ⟨.dispatch, hdisp, by simp [enabled, hd, hq]⟩
      | out =>
        cases hl : s.lock with
        | none => exact ⟨.dispatch, hdisp, by simp [enabled, hd, hq, hl]⟩
        | some t =>
          cases t with
          | client c => exact owner_steps c hl
          | dispatcher => exact absurd (hm.disp.mpr hl) (by simp [hd])
    | nil =>
      -- empty queue: nobody is blocked on the dispatcher, so client 0 can move (or the lock owner can)
      have h0 := hcl 0 hn
      cases hp : s.pcs 0 with
      | idle => exact ⟨.postClaim 0, h0.2.1, by simp [enabled, hn, pcOf, hp]⟩
      | holding => exact ⟨.postRelease 0, h0.2.2, by simp [enabled, hn, pcOf, hp]⟩
      | waitClaim => have := hw.wclaim 0 hp; rw [hq] at this; cases this
      | waitRelease => have := hw.wrelease 0 hp; rw [hq] at this; cases this
      | selLocked => exact ⟨.clientStep 0, h0.1, by simp [enabled, hn, pcOf, hp]⟩
      | selWritten => exact ⟨.clientStep 0, h0.1, by simp [enabled, hn, pcOf, hp]⟩
      | deselLocked => exact ⟨.clientStep 0, h0.1, by simp [enabled, hn, pcOf, hp]⟩
      | deselWritten => exact ⟨.clientStep 0, h0.1, by simp [enabled, hn, pcOf, hp]⟩
      | granted =>
        cases hl : s.lock with
        | none => exact ⟨.clientStep 0, h0.1, by simp [enabled, hn, pcOf, hp, hl]⟩
        | some t =>
          cases t with
          | client c => exact owner_steps c hl
          | dispatcher => exact absurd (hm.disp.mpr hl) (by simp [hd])
      | released =>
        cases hl : s.lock with
        | none => exact ⟨.clientStep 0, h0.1, by simp [enabled, hn, pcOf, hp, hl]⟩
        | some t =>
          cases t with
          | client c => exact owner_steps c hl
          | dispatcher => exact absurd (hm.disp.mpr hl) (by simp [hd])
  · refine ⟨.dispatch, hdisp, ?_⟩
    cases hdp : s.dpc <;> simp_all [enabled]

/-- **the recorded finding D-9 as a race between well-behaved clients, proved**: client 0 claims,
    holds and releases; before it runs its Deselect, client 1 claims, is granted and selects; then
    client 0's delayed Deselect clears client 1's selection and an out-event raised while client 1
    holds the claim reaches nobody.  With the specified Deselect the same schedule delivers to
    client 1. -/
def raceSchedule : List Action :=
  [.postClaim 0, .dispatch, .clientStep 0, .clientStep 0, .clientStep 0,      -- 0 holds
   .postRelease 0, .dispatch,                                                  -- 0 released (Deselect pending)
   .postClaim 1, .dispatch, .clientStep 1, .clientStep 1, .clientStep 1,      -- 1 granted, selected, holds
   .clientStep 0, .clientStep 0, .clientStep 0,                                -- 0's delayed Deselect
   .raiseOut, .dispatch, .dispatch, .dispatch]                                 -- out-event while 1 holds

theorem holder_witness :
    (run true (init 2 1) raceSchedule).deliveries = [(none, [1])] ∧
    deliveriesOk (run true (init 2 1) raceSchedule) = false ∧
    (run false (init 2 1) raceSchedule).deliveries = [(some 1, [1])] ∧
    deliveriesOk (run false (init 2 1) raceSchedule) = true := by
  decide

/-- **the step order of the per-client wrappers is the one the interleaving model is built on**:
    the rendered release wrapper forwards the release to the component first and deselects
    afterwards; the rendered claim wrapper forwards the claim and selects only on the granting reply.
    (The correspondence check compares these texts byte for byte with the generator's output.) -/
theorem wrapper_order (lhs : Shell.Slot) (mv ev cev : Str) (ps : List Shell.LParam) (args : List Str) (grant : Str) :
    (∃ pre, Shell.Assign.render { lhs, rhs := .mcRelease mv ev cev ps args } =
        pre ++ (L "    " ++ mv ++ L ".Arbitered().in." ++ cev ++ L "(" ++ Py.join (L ", ") args ++ L ");\n" ++
          L "    " ++ mv ++ L ".Deselect(identifier);\n" ++ L "};")) ∧
    (∃ pre, Shell.Assign.render { lhs, rhs := .mcClaim mv ev ps args grant } =
        pre ++ (L "    const auto r = " ++ mv ++ L ".Arbitered().in." ++ ev ++ L "(" ++ Py.join (L ", ") args ++ L ");\n" ++
          L "    if (r == " ++ grant ++ L ") " ++ mv ++ L ".Select(identifier);\n" ++ L "    return r;\n" ++ L "};")) := by
  constructor
  · refine ⟨lhs.str ++ L " = [&, identifier]" ++ Shell.lambdaParams ps ++ L " {\n", ?_⟩
    simp only [Shell.Assign.render, List.append_assoc]
  · refine ⟨lhs.str ++ L " = [&, identifier]" ++ Shell.lambdaParams ps ++ L " {\n", ?_⟩
    simp only [Shell.Assign.render, List.append_assoc]

end C11
