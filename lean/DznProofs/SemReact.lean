/-
  The wiring semantics with a wrapped component that REACTS (raises an out-event while it handles an
  in-event, before the in-event returns — what Dezyne components do): `Sem.invokeR` / `Sem.drainR`.
  With no reactions registered it is the semantics all other program-level theorems are about.
-/
import DznModel
open Py Sem

namespace SemReact

theorem reactionOf_nil (w : World) (p e : Str) : reactionOf [] w p e = none := by
  simp [reactionOf, List.lookup]

/-- **conservative extension**: without reactions `invokeR`/`drainR` are `invoke`/`drain` -/
theorem invokeR_drainR_nil (fuel : Nat) :
    (∀ w s args, invokeR [] fuel w s args = invoke fuel w s args) ∧ (∀ w, drainR [] fuel w = drain fuel w) := by
  induction fuel with
  | zero => exact ⟨fun w s args => by rw [invokeR, invoke], fun w => by rw [drainR, drain]⟩
  | succ n ih =>
    obtain ⟨ihI, ihD⟩ := ih
    constructor
    · intro w s args
      rw [invokeR, invoke]
      simp only [ihI, ihD, reactionOf_nil, ite_self]
    · intro w
      rw [drainR, drain]
      simp only [ihI, ihD]

theorem invokeR_nil (fuel : Nat) (w : World) (s : RSlot) (args : List Val) :
    invokeR [] fuel w s args = invoke fuel w s args := (invokeR_drainR_nil fuel).1 w s args

theorem drainR_nil (fuel : Nat) (w : World) : drainR [] fuel w = drain fuel w := (invokeR_drainR_nil fuel).2 w

end SemReact
