import DznModel
import DznProofs.C01Gen
open Py Text Scoping Ast AstView PortSel CppGen Support Shell Sem Lem C13

namespace C01

/-! ### the hypotheses of `build_forwards_in_event` are satisfiable: the worked model of
    `C13.exValid` (component `N.C`, provides port `p : N.I`, in-event `go(in T a)`, everything MTS) -/

def exB : BuildResult := match build exFc exCfg with | .ok b => b | .error _ => default

theorem exB_ok : build exFc exCfg = .ok exB := by
  obtain ⟨r, hr⟩ := valid_succeeds exFc exCfg exValid
  unfold exB; rw [hr]

theorem ex_provides : exB.ir.provides.length = 1 := by decide +kernel
theorem ex_requires : exB.ir.requires = [] := by
  have : exB.ir.requires.length = 0 := by decide +kernel
  exact List.length_eq_zero_iff.mp this
theorem ex_allPorts : exB.allPorts.length = 1 := by decide +kernel

def exP : CppPortItf := exB.ir.provides.headD default
def exEv : Event := exP.dzn.itf.events.headD default

theorem ex_provides_eq : exB.ir.provides = [exP] := by
  have h := ex_provides
  unfold exP
  cases hl : exB.ir.provides with
  | nil => rw [hl] at h; cases h
  | cons a r =>
    rw [hl] at h
    cases r with
    | nil => rfl
    | cons _ _ => simp at h

theorem ex_events : exP.dzn.itf.events.length = 1 := by decide +kernel
theorem ex_events_eq : exP.dzn.itf.events = [exEv] := by
  have h := ex_events
  unfold exEv
  cases hl : exP.dzn.itf.events with
  | nil => rw [hl] at h; cases h
  | cons a r =>
    rw [hl] at h
    cases r with
    | nil => rfl
    | cons _ _ => simp at h

theorem singleton_of_length_one {α} [Inhabited α] (l : List α) (h : l.length = 1) : l = [l.headD default] := by
  cases l with
  | nil => cases h
  | cons a r =>
    cases r with
    | nil => rfl
    | cons _ _ => simp at h

/-- **non-vacuity of `build_forwards_in_event`**: on the worked model every hypothesis holds, so the
    conclusion is a fact about this shell: calling `go(7)` on `m_ppP` is observed once by the
    component's `p.go` with argument 7 in dispatcher context -/
theorem ex_forwarded :
    ∃ w ps, construct exB.ir exB.allPorts exB.grantIndex false false none (L "x") false = .ok w ∧
      ps.map (·.name) = exEv.formals.map (·.name) ∧
      invoke 3 w ⟨.bnd exP.target, .in_, exEv.name⟩ [7] =
        ({ w with shellCalls := w.shellCalls + 1, pumpTouched := true, executed := w.executed + 1,
                  out := obsLine .comp exP.name exEv [7] true :: w.out },
         .ok (if isVoid exEv then none else some (w.reply true exP.name exEv.name))
             (writeBack ps [7] (ps.map (·.name)) (rewritten exEv [7]))) := by
  have hevdir : exEv.dir = .in_ := by decide +kernel
  have hap := singleton_of_length_one exB.allPorts ex_allPorts
  have hape : (exB.allPorts.headD default).2.events.length = 1 := by decide +kernel
  have hapev := singleton_of_length_one _ hape
  apply build_forwards_in_event exFc exCfg exB exB_ok exP (by rw [ex_provides_eq]; simp) (by decide +kernel) (by decide +kernel)
    exEv (by simp [inEvents, ex_events_eq, hevdir])
  · intro q hq _
    rw [ex_provides_eq, ex_requires] at hq
    simpa using hq
  · intro q hq; rw [ex_requires] at hq; cases hq
  · intro e he _ _
    rw [ex_events_eq] at he
    simpa using he
  · decide +kernel
  · intro p itf ev p' itf' ev' hp hev hp' hev' _
    rw [hap] at hp hp'
    simp only [List.mem_singleton] at hp hp'
    have e1 : itf = (exB.allPorts.headD default).2 := by rw [← hp]
    have e2 : itf' = (exB.allPorts.headD default).2 := by rw [← hp']
    rw [e1, hapev] at hev
    rw [e2, hapev] at hev'
    simp only [List.mem_singleton] at hev hev'
    constructor
    · have a1 : p = (exB.allPorts.headD default).1 := by rw [← hp]
      have a2 : p' = (exB.allPorts.headD default).1 := by rw [← hp']
      rw [a1, a2]
    · rw [hev, hev']
  · have : (ctorCheck exB.ir false false).isNone = true := by decide +kernel
    exact Option.isNone_iff_eq_none.mp this
  · decide +kernel

end C01
