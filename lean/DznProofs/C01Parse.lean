import DznModel
import DznProofs.C01
open Py Text Scoping Ast Shell IrParse

namespace C01

/-! ### the rendering of a slot can be read back -/

theorem splitChar_no_sep (sep : Char) (a cur : Str) (h : sep ∉ a) : splitChar sep a cur = [cur.reverse ++ a] := by
  induction a generalizing cur with
  | nil => simp [splitChar]
  | cons c cs ih =>
    have hc : c ≠ sep := fun e => h (by simp [e])
    have hcs : sep ∉ cs := fun e => h (by simp [e])
    simp only [splitChar, hc, if_false]
    rw [ih _ hcs]
    simp

theorem splitChar_append (sep : Char) (a b cur : Str) (h : sep ∉ a) :
    splitChar sep (a ++ sep :: b) cur = (cur.reverse ++ a) :: splitChar sep b [] := by
  induction a generalizing cur with
  | nil => simp [splitChar]
  | cons c cs ih =>
    have hc : c ≠ sep := fun e => h (by simp [e])
    have hcs : sep ∉ cs := fun e => h (by simp [e])
    simp only [List.cons_append, splitChar, hc, if_false]
    rw [ih _ hcs]
    simp

theorem ident_no_dot (s : Str) (h : isIdent s = true) : '.' ∉ s := by
  intro hm
  simp only [isIdent, Bool.and_eq_true, List.all_eq_true] at h
  have := h.2 '.' hm
  revert this; decide

/-- an identifier that could be mistaken for something else in a slot's object position -/
def plainName (s : Str) : Prop := isIdent s = true ∧ s ≠ L "port"

def WfObj : PortObj → Prop
  | .enc p => isIdent p = true
  | .bnd mv => plainName mv
  | .arb mv => isIdent mv = true
  | .local_ => True

def WfSlot (s : Slot) : Prop := WfObj s.obj ∧ isIdent s.ev = true

theorem dirStr_cases (d : EvDir) : (d.str = L "in" ∧ d = .in_) ∨ (d.str = L "out" ∧ d = .out) := by
  cases d <;> simp [EvDir.str]

theorem ident_not_suffix_parens (x : Str) (h : isIdent x = true) : dropSuffix? (L "()") x = none := by
  unfold dropSuffix?
  cases hx : x.reverse with
  | nil => simp [dropPrefix?]
  | cons c cs =>
    have hc : c ∈ x := by
      have : c ∈ x.reverse := by rw [hx]; simp
      simpa using this
    simp only [isIdent, Bool.and_eq_true, List.all_eq_true] at h
    have hci := h.2 c hc
    have : c ≠ ')' := by intro e; rw [e] at hci; revert hci; decide
    simp [dropPrefix?, this.symm]

theorem dropSuffix_append (p x : Str) : dropSuffix? p (x ++ p) = some x := by
  unfold dropSuffix?
  rw [List.reverse_append]
  have : ∀ (a b : Str), dropPrefix? a (a ++ b) = some b := by
    intro a
    induction a with
    | nil => intro b; rfl
    | cons c cs ih => intro b; simp [dropPrefix?, ih]
  rw [this]; simp

/-- **a rendered slot reads back as itself** -/
theorem parseSlot_str (s : Slot) (h : WfSlot s) : parseSlot s.str = some s := by
  obtain ⟨obj, dir, ev⟩ := s
  obtain ⟨ho, he⟩ := h
  simp only at ho he
  have hev : '.' ∉ ev := ident_no_dot ev he
  unfold parseSlot Slot.str
  simp only
  cases obj with
  | enc p =>
    have hp : '.' ∉ p := ident_no_dot p ho
    have hm : '.' ∉ L "m_encapsulee" := by decide
    have : splitChar '.' (PortObj.str (.enc p) ++ L "." ++ dir.str ++ L "." ++ ev) [] =
        [L "m_encapsulee", p, dir.str, ev] := by
      have e1 : PortObj.str (.enc p) ++ L "." ++ dir.str ++ L "." ++ ev =
          L "m_encapsulee" ++ '.' :: (p ++ '.' :: (dir.str ++ '.' :: ev)) := by
        simp [PortObj.str, List.append_assoc]
      rw [e1, splitChar_append _ _ _ _ hm, splitChar_append _ _ _ _ hp]
      rcases dirStr_cases dir with ⟨hd, _⟩ | ⟨hd, _⟩ <;>
        (rw [hd, splitChar_append _ _ _ _ (by decide), splitChar_no_sep _ _ _ hev]; simp)
    rw [this]
    simp only [List.reverse_cons, List.reverse_nil, List.nil_append, List.cons_append]
    have ho' : isIdent p = true := ho
    rcases dirStr_cases dir with ⟨hd, rfl⟩ | ⟨hd, rfl⟩ <;> simp [hd, parseObj, ho', he]
  | bnd mv =>
    have hp : '.' ∉ mv := ident_no_dot mv ho.1
    have : splitChar '.' (PortObj.str (.bnd mv) ++ L "." ++ dir.str ++ L "." ++ ev) [] = [mv, dir.str, ev] := by
      have e1 : PortObj.str (.bnd mv) ++ L "." ++ dir.str ++ L "." ++ ev = mv ++ '.' :: (dir.str ++ '.' :: ev) := by
        simp [PortObj.str, List.append_assoc]
      rw [e1, splitChar_append _ _ _ _ hp]
      rcases dirStr_cases dir with ⟨hd, _⟩ | ⟨hd, _⟩ <;>
        (rw [hd, splitChar_append _ _ _ _ (by decide), splitChar_no_sep _ _ _ hev]; simp)
    rw [this]
    simp only [List.reverse_cons, List.reverse_nil, List.nil_append, List.cons_append]
    rcases dirStr_cases dir with ⟨hd, rfl⟩ | ⟨hd, rfl⟩ <;>
      simp [hd, parseObj, ho.1, ho.2, he, ident_not_suffix_parens mv ho.1]
  | arb mv =>
    have hmv : '.' ∉ mv ++ L "()" := by
      intro hm
      rcases List.mem_append.mp hm with h1 | h1
      · exact ident_no_dot mv ho h1
      · revert h1; decide
    have : splitChar '.' (PortObj.str (.arb mv) ++ L "." ++ dir.str ++ L "." ++ ev) [] = [mv ++ L "()", dir.str, ev] := by
      have e1 : PortObj.str (.arb mv) ++ L "." ++ dir.str ++ L "." ++ ev = (mv ++ L "()") ++ '.' :: (dir.str ++ '.' :: ev) := by
        simp [PortObj.str, List.append_assoc]
      rw [e1, splitChar_append _ _ _ _ hmv]
      rcases dirStr_cases dir with ⟨hd, _⟩ | ⟨hd, _⟩ <;>
        (rw [hd, splitChar_append _ _ _ _ (by decide), splitChar_no_sep _ _ _ hev]; simp)
    rw [this]
    have hne : mv ++ L "()" ≠ L "port" := by
      intro e
      have := congrArg List.reverse e
      simp at this
    simp only [List.reverse_cons, List.reverse_nil, List.nil_append, List.cons_append]
    have ho' : isIdent mv = true := ho
    rcases dirStr_cases dir with ⟨hd, rfl⟩ | ⟨hd, rfl⟩ <;>
      simp [hd, parseObj, hne, dropSuffix_append, ho', he]
  | local_ =>
    have : splitChar '.' (PortObj.str .local_ ++ L "." ++ dir.str ++ L "." ++ ev) [] = [L "port", dir.str, ev] := by
      have e1 : PortObj.str .local_ ++ L "." ++ dir.str ++ L "." ++ ev = L "port" ++ '.' :: (dir.str ++ '.' :: ev) := by
        simp [PortObj.str, List.append_assoc]
      rw [e1, splitChar_append _ _ _ _ (by decide)]
      rcases dirStr_cases dir with ⟨hd, _⟩ | ⟨hd, _⟩ <;>
        (rw [hd, splitChar_append _ _ _ _ (by decide), splitChar_no_sep _ _ _ hev]; simp)
    rw [this]
    simp only [List.reverse_cons, List.reverse_nil, List.nil_append, List.cons_append]
    rcases dirStr_cases dir with ⟨hd, rfl⟩ | ⟨hd, rfl⟩ <;> simp [hd, parseObj, he]

/-- hence rendering is injective on well-formed slots: two different slots never print alike -/
theorem slot_str_injective (s t : Slot) (hs : WfSlot s) (ht : WfSlot t) (h : s.str = t.str) : s = t := by
  have h1 := parseSlot_str s hs
  have h2 := parseSlot_str t ht
  rw [h] at h1
  rw [h1] at h2
  exact Option.some.inj h2

end C01
